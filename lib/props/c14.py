"""C14 - renderers never crash and draw quantities proportionally within bounds."""
import json
import os
import time
from vf import Inconclusive, parallel, require_clean, vfj_lines

CLAIM = {
    "text": "Render.tla specifies what a screen owes its reader: the linear scale as an exact rational with its clamps and the degenerate-range guard, Bucket/LengthVal as exact floors, ScaleKeys, the bar as floor(value*cells) sub-cells (unicode: 9 per cell; ascii), stacked segments sharing the width, palette lookup by bucket, visible length (colour sequences invisible when colour is on), the number formatters, the table layout from visible widths and the `(n more)` accounting, plus the heat-map header compaction loop written like the code. TLC proves the property's laws on that model (Render_MC: val,min,max in -6..12, widths 0..10: magnitudes in [0,1] and monotone, bucket never past the palette also at v = max, bars never wider than the maximum and growing with the value, stacked bars within the width for any signs, every row's cell i at the same offset, shown + not shown = total, the header loop terminates). The real code is bound twice: TLC-enumerated calls of the drawing primitives with every acceptable result, and TLC-enumerated aggregator states (Aggregators.tla histories over alphabets with zero, negative, equal and huge values, empty, long, multi-byte, escape-containing keys) are replayed: the real aggregators are sampled, compared with the expected state and drawn by the real HistoWriter, BarGraph (grouped/stacked), DataTable, Heatmap, Spark and the reduce TableWriter x {linear, log2, log10} x colour x unicode x formatter x row/column limits 0..n into a VirtualTerm under recover, fresh and progressively; the same for seeded random states (values to 4*10^7, up to 18 rows/columns) and 10^4..10^5 scaler triples in +-10^9. Render_Trace.tla (TLC) judges every recorded screen: a panic is a violation; line count, keys, displayed numbers = formatter(aggregated number), percentage, bars within the width, exactly floor(scale*cells) on the linear scale and monotone in the value on every scale, one heat/spark cell per shown column with the palette index of its bucket, table lines equal to the layout from visible widths (carried across progressive renders), legends, header, `(n more)` = rows/columns not shown. RenderInst.tla adds what ONE long-lived instance owes its reader across calls, as state machines written like the code with the property as invariants over every operation history: the buffered terminal (VirtualTerm: a write at any line number - in order, with gaps, far beyond the end - never fails and the screen is the fold of VWrite), the expression formatter (--format: the text is a function of value, min, max of THIS call), the histogram (line store, running maximum, key column, total, footers: after every call every line in use shows its number under the formatter with the present bounds 0..running maximum, the percentage of the present total and a bar scaled to the present maximum) and the bar graph (rows store, running maximum; stacked and grouped). TLC checks InstOK over all histories of 3 (4) operations and refutes seven negative controls (line buffer grown to twice the OLD capacity, on the terminal and through the histogram footer; formatter texts remembered by value alone, on the formatter, the histogram and the bar graph; a full redraw that skips lines holding a value <= 0; a redraw decided by the largest segment). TLC-generated operation histories (all of 2-3 operations, sampled ones of 6-7) with the expected screen after every operation are replayed on the real VirtualTerm, termformat.FromExpression, HistoWriter and BarGraph. RenderHist.tla adds what is on the screen after a HISTORY of renders by one long-lived heat map, sparkline, table or bar graph (with its legend) whose aggregated data grows, shrinks (Trim: rows disappear) and changes between the renders: the data as a partial function <<column, row>> -> Int, an oracle (after every render the squeezed lines of the drawing are those of the PRESENT data: legend keys of the present - possibly fixed --min/--max - bounds under the chosen formatter, header, one cell per displayed column with the glyph of its bucket, numbers under the formatter with the present bounds, `(n more)` = rows/columns not shown, legend entry i in the glyph and colour of bar segment i also with more sub-keys than palette entries; footers directly below the drawing; the drawing equals what a fresh instance draws) and the four renderers over a TableWriter written like the code with everything they keep between renders; TLC checks HistOK over all histories of 2 (3) `data operation; render; footers` steps and refutes five negative controls (legend redrawn only when the bounds change, footer offset never given back, legend index reduced by the length of the other palette, rows in use never given back, bounds cached by the table); the TLC-generated histories with the expected screen after every render are replayed on the real aggregators and renderers in the call order of cmd/*.go. In the screen records the chosen formatter may be an expression template reading {min}/{max} (one formatter per renderer instance, as the commands build it), whose bounds are the renderer's at that moment (0..running maximum for histogram and bar graph, least..largest cell for table, sparkline and heat-map legend), and every render is followed by footer lines as in cmd/*.go: below the renderer's drawing the screen must be the screen before the render with the footers written VirtualTerm-wise.",
    "note": "Logarithmic scales: only range, monotonicity and shape are decided (no logarithm in TLA+). Values within +-10^9 (TLC integers are 32 bit). Keys are valid UTF-8 without leading/trailing blanks whose escape sequences are complete colour sequences; every rune counts one cell (color.StrLen). A float product that is an exact integer may be observed one lower (binary rounding). Alignment is demanded of the TableWriter-based renderers only (histogram and bar graph pad keys by rune count; the generated instance histories keep keys within the default key column). Footer i is taken to be line base+i with base = the configured number of lines (histogram) or the number of lines drawn (every other renderer), as cmd/*.go rely on. Expression formatters are templates of literal text and the references {0}/{val}, {1}/{min}, {2}/{max}. Trusted: TLC, the Go runtime, VirtualTerm as the screen.",
    "technique": "TLA+ contracts model-checked with TLC (laws over ranges; instance state machines with invariants over all operation histories and refuted negative controls) + model-generated vectors, aggregator states and operation histories replayed on the real code + TLC validation of recorded screens and scaler values",
}

MC_CFG = "INIT Init\nNEXT Next\nCONSTANTS NegLo = %d\n Hi0 = %d\n MaxLenTop = %d\nINVARIANTS LawOK\nCHECK_DEADLOCK FALSE\n"
GEN_CFG = ("INIT GInit\nNEXT GNext\nCONSTANTS Mode = \"%s\"\n MaxLen = %d\n Elems <- RElems\n Preds <- RNoPreds\n"
           " AccCfg <- RAccCfg\nINVARIANTS Sane Dump\nCHECK_DEADLOCK FALSE\n")
TRACE_CFG = "SPECIFICATION TSpec\nINVARIANTS Final\nCHECK_DEADLOCK FALSE\n"
HIST_CFG = "INIT %s\nNEXT %s\nCONSTANTS HSetups <- %s\n MaxRenders = %d\n HProfile = %d\nINVARIANTS %s\n%sCHECK_DEADLOCK FALSE\n"
INST_CFG = "INIT %s\nNEXT %s\nCONSTANTS Setups <- %s\n MaxOps = %d\n Profile = %d\nINVARIANTS %s\n%sCHECK_DEADLOCK FALSE\n"


def text_of(runes):
    return "".join(chr(c) if 32 <= c != 127 else "\\x%02x" % c for c in runes)


def check(run):
    try:
        _check(run)
    except Inconclusive:
        raise
    except Exception as e:  # infrastructure trouble is never a verdict
        import traceback
        raise Inconclusive("c14 check failed: %s\n%s" % (e, traceback.format_exc()))


def describe(rec, why):
    if rec["ev"] != "render":
        args = {k: v for k, v in rec.items() if k not in ("ev", "got", "panic", "msg", "canary")}
        return "%s(%s) returned %s%s, which Render.tla rejects (%s)" % (
            rec["ev"], json.dumps(args)[:300], json.dumps(rec.get("got"))[:200],
            " PANIC " + rec["msg"][:120] if rec.get("panic") else "", why)
    cfgs = "%s scale=%s colour=%s unicode=%s format=%s rows=%d cols=%d%s" % (
        rec["rdr"], rec["sc"], rec["color"], rec["uni"], rec["fmt"], rec["rows"], rec["cols"],
        "" if rec["fresh"] else " (render %d of one renderer instance)" % (len(rec["prev"]) + 1))
    if rec["panic"]:
        return "%s panicked (%s) on state %s" % (cfgs, rec["msg"][:160], json.dumps(rec["obs"])[:400])
    screen = " | ".join(text_of(l) for l in rec["lines"][:8])
    return "%s drew a screen Render.tla forbids (%s): state %s -> [%s]" % (cfgs, why, json.dumps(rec["obs"])[:400], screen[:700])


def _check(run):
    quick = run.tier == "quick"
    run.assumptions += [
        "values within +-10^9 (TLC integers are 32 bit); sums of a state fit 32 bits",
        "logarithmic scales: only range [0,1], monotonicity in the value and the shape of what is drawn are decided (no logarithm in TLA+)",
        "keys: valid UTF-8, no leading/trailing blanks, escape sequences only as complete colour sequences ESC[..m; every rune is one cell wide (color.StrLen: with colour enabled a colour sequence is invisible, with colour disabled every rune counts)",
        "a float product that is an exact integer may be observed one lower (binary rounding): n*q <= p*k <= (n+1)*q",
        "alignment (equal column offsets in every row) is demanded of the TableWriter-based renderers (table, sparkline, reduce); row/column limits >= 0",
        "the exact heat-map header text is compared only when no shown column name contains an escape sequence while colour is on",
        "footer i of a renderer is line base+i (base: the histogram's configured number of lines; for every other renderer the number of lines it drew); lines below the drawing that no footer of this render addresses keep what they showed before the render",
        "render histories (RenderHist.tla): colour and unicode off except for the bar graph; linear scale; histories whose drawing needs a floating-point product that is an exact integer with a denominator that is no power of two are left to the recorded screens; the padding of the implementation-shaped machines is compared exactly by the replay, the laws themselves compare squeezed lines",
        "expression formatters (--format) are templates of literal text and the references {0}/{val}, {1}/{min}, {2}/{max}; one formatter instance per renderer instance",
    ]
    run.build_harness()
    vec_path = os.path.join(run.scratch, "c14-vectors.ndjson")
    b1_trace = os.path.join(run.scratch, "c14-b1.ndjson")
    b1_res = os.path.join(run.scratch, "c14-b1.json")
    b2_trace = os.path.join(run.scratch, "c14-b2.ndjson")
    b2_stats = os.path.join(run.scratch, "c14-b2.json")

    def b3():
        r = run.tlc("Render_MC", MC_CFG % ((6, 12, 10) if quick else (8, 14, 12)), workers=1 if quick else 2, timeout=3000,
                    label="Render_MC laws", xmx="4g")
        require_clean(run, r, "Render_MC (laws)")
        if r.distinct < 50000:
            raise Inconclusive("law check explored only %d cases" % r.distinct)
        return r

    def inst_mc(maxops, profile, workers):
        def f():
            r = run.tlc("RenderInst", INST_CFG % ("Init", "Next", "CodeSetups", maxops, profile, "InstOK", ""), workers=workers,
                        timeout=3000, xmx="3g", label="RenderInst vterm+fmt+histo+bars (code policies) ops %d profile %d" % (maxops, profile))
            require_clean(run, r, "RenderInst (instance invariants)")
            if r.distinct < 15000:
                raise Inconclusive("instance machines explored only %d states" % r.distinct)
            return r
        return f

    def inst_controls():
        # every negative control (ControlList in RenderInst.tla) must reach a state InstOK rejects
        r = run.tlc("RenderInst", INST_CFG % ("CtlInit", "Next", "ControlSetups", 2, 1, "CtlMark", "POSTCONDITION CtlAllRefuted\n"),
                    workers=1, timeout=3000, xmx="2g", label="RenderInst 7 negative controls (all must be refuted)")
        if r.violated or r.errors or r.postcond_failed or not r.finished:
            raise Inconclusive("a negative control of RenderInst.tla was not refuted (or the run failed): %s" % r.out[-1500:])
        return r

    def inst_gen(setups, maxops, profile, sim):
        def f():
            cfg = INST_CFG % ("GInit", "GNext", setups, maxops, profile, "InstOK Dump", "")
            if sim:
                r = run.tlc("RenderInst_Gen", cfg, workers=1, timeout=3000, xmx="2g", simulate="num=%d" % sim, depth=maxops + 3,
                            label="RenderInst_Gen %s sampled histories of %d ops" % (setups, maxops))
            else:
                r = run.tlc("RenderInst_Gen", cfg, workers=1, timeout=3000, xmx="2g",
                            label="RenderInst_Gen %s all histories of %d ops" % (setups, maxops))
            if r.violated or r.errors:
                raise Inconclusive("instance generator %s failed: %s" % (setups, r.out[-2000:]))
            out, seen = [], set()
            for v in vfj_lines(r.out):
                key = json.dumps(v, sort_keys=True)
                if key not in seen:
                    seen.add(key)
                    out.append(v)
            return out
        return f

    def hist_mc(setups, renders, profile, workers, least):
        def f():
            r = run.tlc("RenderHist", HIST_CFG % ("HInit", "HNext", setups, renders, profile, "HistOK", ""), workers=workers, timeout=3000, xmx="3g",
                        label="RenderHist %s (code policies): all histories of %d renders, profile %d" % (setups, renders, profile))
            require_clean(run, r, "RenderHist (render-history laws)")
            if r.distinct < least:
                raise Inconclusive("render-history machines explored only %d states" % r.distinct)
            return r
        return f

    def hist_controls():
        # every negative control (HControlList in RenderHist.tla) must reach a state HistOK rejects
        r = run.tlc("RenderHist", HIST_CFG % ("HCtlInit", "HNext", "HControlSetups", 2, 1, "HCtlMark", "POSTCONDITION HCtlAllRefuted\n"),
                    workers=1, timeout=3000, xmx="2g", label="RenderHist 5 negative controls (all must be refuted)")
        if r.violated or r.errors or r.postcond_failed or not r.finished:
            raise Inconclusive("a negative control of RenderHist.tla was not refuted (or the run failed): %s" % r.out[-1500:])
        return r

    def hist_gen(setups, renders, profile, sim, workers=1):
        def f():
            cfg = HIST_CFG % ("HGInit", "HGNext", setups, renders, profile, "HistOK HDump", "")
            if sim:
                r = run.tlc("RenderHist_Gen", cfg, workers=1, timeout=3000, xmx="2g", simulate="num=%d" % sim, depth=renders + 2,
                            label="RenderHist_Gen %s sampled histories of %d renders" % (setups, renders))
            else:
                r = run.tlc("RenderHist_Gen", cfg, workers=workers, timeout=3000, xmx="3g",
                            label="RenderHist_Gen %s all histories of %d renders" % (setups, renders))
            if r.violated or r.errors:
                raise Inconclusive("render-history generator %s failed: %s" % (setups, r.out[-2000:]))
            out, seen = [], set()
            for v in vfj_lines(r.out):
                key = json.dumps(v, sort_keys=True)
                if key not in seen:
                    seen.add(key)
                    out.append(v)
            return out
        return f

    if quick:
        hist_jobs = [hist_controls]          # (the code policies are checked by the generator runs: HistOK is an invariant there)
        hist_gens = [hist_gen("HCodeSetups", 2, 1, 0, 2), hist_gen("HCodeSetups", 4, 2, 30)]
    else:
        hist_jobs = [hist_mc("HCodeSetups", 3, 1, 4, 50000), hist_controls]
        hist_gens = [hist_gen("HCodeSetups", 2, 1, 0, 2), hist_gen("HCodeSetups", 5, 2, 600), hist_gen("HCodeSetups", 4, 3, 300)]

    if quick:
        inst_jobs = [inst_mc(3, 1, 2), inst_controls]
        inst_gens = [inst_gen("CodeSetups", 2, 1, 0), inst_gen("GenHisto", 6, 2, 30), inst_gen("GenOthers", 6, 2, 45)]
    else:
        inst_jobs = [inst_mc(3, 2, 4), inst_mc(4, 1, 4), inst_controls]
        inst_gens = [inst_gen("CodeSetups", 3, 1, 0), inst_gen("GenHisto", 7, 2, 250), inst_gen("GenOthers", 7, 3, 400)]

    def b3_inst():
        parallel(inst_jobs + hist_jobs, 2)

    canaries = []
    nhcan = [0]

    def gen_and_drive():
        jobs = [("fn", 1 if quick else 2, 1), ("states", 2 if quick else 4, 2)]

        def g(i, m, n, w):
            time.sleep(0.3 * i)
            r = run.tlc("Render_Gen", GEN_CFG % (m, n), workers=w, timeout=3000, xmx="3g", label="Render_Gen %s MaxLen %d" % (m, n))
            if r.violated or r.errors or not r.finished:
                raise Inconclusive("generator %s failed: %s" % (m, r.out[-2000:]))
            return vfj_lines(r.out)

        outs = parallel([lambda i=i, j=j: g(i, *j) for i, j in enumerate(jobs)] + inst_gens + hist_gens, 4)
        ninst = sum(len(o) for o in outs[len(jobs):len(jobs) + len(inst_gens)])
        if ninst < 3000:
            raise Inconclusive("instance generator produced only %d histories" % ninst)
        nhist = sum(len(o) for o in outs[len(jobs) + len(inst_gens):])
        if nhist < 5000:
            raise Inconclusive("render-history generator produced only %d histories" % nhist)
        ninst += nhist
        nvec = 0
        ncan = 0
        with open(vec_path, "w") as f:
            for vs in outs:
                for v in vs:
                    f.write(json.dumps(v, separators=(",", ":")) + "\n")
                    nvec += 1
                    if v.get("k") == "hist" and nvec % 97 == 0 and v["trail"] and v["trail"][-1]["see"]:
                        # binding self-test: a history whose last expected screen is corrupted must be rejected by the replay
                        c = json.loads(json.dumps(v))
                        see = c["trail"][-1]["see"]
                        see[(nvec // 97) % len(see)].append(90)
                        c["canary"] = True
                        f.write(json.dumps(c, separators=(",", ":")) + "\n")
                        ncan += 1
                        nhcan[0] += 1
                    if v.get("k") == "inst" and nvec % 61 == 0 and v["trail"]:
                        # binding self-test: the same history with a corrupted expectation must be rejected by the replay
                        c = json.loads(json.dumps(v))
                        see = c["trail"][-1]["see"]
                        if c["m"] == "fmt":
                            see.append(90)
                        elif see:
                            see[-1] = see[-1] + [90]
                        else:
                            see.append([90])
                        c["canary"] = True
                        f.write(json.dumps(c, separators=(",", ":")) + "\n")
                        ncan += 1
        canaries.append(ncan)
        if nvec - ninst < 4000:
            raise Inconclusive("generator produced only %d vectors" % (nvec - ninst))
        if quick:
            run.drv(["replay", "-in", vec_path, "-out", b1_trace, "-res", b1_res, "-full", 1000, "-thin", 2])
            run.drv(["trace", "-out", b2_trace, "-stats", b2_stats, "-groups", 400, "-fn", 2000, "-states", 20, "-thin", 2])
        else:
            run.drv(["replay", "-in", vec_path, "-out", b1_trace, "-res", b1_res, "-full", 6, "-thin", 1])
            run.drv(["trace", "-out", b2_trace, "-stats", b2_stats, "-groups", 4000, "-fn", 60000, "-states", 500, "-thin", 1])
        return nvec

    _, _, nvec = parallel([b3, b3_inst, gen_and_drive], 3)

    # ---- B1 verdicts: primitives and aggregator states against the specification's values
    res = json.load(open(b1_res))
    nexecd = res["fn_vectors"] + res["state_vectors"] + res["inst_vectors"] + res["hist_vectors"]
    if nexecd != nvec + canaries[0]:
        raise Inconclusive("replay executed %d of %d vectors" % (nexecd, nvec + canaries[0]))
    ican = canaries[0] - nhcan[0]
    if ican < 20 or res["inst_canaries_rejected"] != ican:
        raise Inconclusive("the instance replay rejected only %d of %d deliberately corrupted expectations" % (res["inst_canaries_rejected"], ican))
    if nhcan[0] < 20 or res["hist_canaries_rejected"] != nhcan[0]:
        raise Inconclusive("the render-history replay rejected only %d of %d deliberately corrupted expectations" % (res["hist_canaries_rejected"], nhcan[0]))
    run.cov["b1_corrupted_instance_expectations_rejected"] = "%d of %d" % (res["inst_canaries_rejected"], ican)
    run.cov["b1_corrupted_history_expectations_rejected"] = "%d of %d" % (res["hist_canaries_rejected"], nhcan[0])
    for m in res["mismatches"] or []:
        if m["f"].startswith("hist:"):
            a = m["a"]
            run.violation(("panic:%s" if m.get("panic") else "b1:%s") % m["f"],
                          "one %s instance (%s) over one aggregator starting from %s, data operations each followed by a render and the footers %s: after "
                          "render %d the real code %s; RenderHist.tla demands %s" % (
                              m["f"][5:], json.dumps(a["cfg"])[:300], json.dumps(a["init"])[:120], json.dumps(a["ops"])[:300], a["failing_op"],
                              "PANICKED " + m["panic"][:160] if m.get("panic") else "shows [" + " | ".join(text_of(l) for l in m["got"][:8])[:500] + "]",
                              "[" + " | ".join(text_of(l) for l in m["exp"][:8])[:500] + "]"), m)
            continue
        if m["f"].startswith("inst:"):
            a = m["a"]
            run.violation(("panic:%s" if m.get("panic") else "b1:%s") % m["f"],
                          "one %s instance, operations %s: after operation %d the real code %s; RenderInst.tla demands %s" % (
                              m["f"][5:], json.dumps(a["ops"])[:500], a["failing_op"],
                              "PANICKED " + m["panic"][:160] if m.get("panic") else "shows " + json.dumps(m["got"])[:400],
                              json.dumps(m["exp"])[:400]), m)
            continue
        run.violation("b1:%s" % m["f"],
                      "%s%s on the real code gives %s%s; Render.tla accepts only %s" % (
                          m["f"], json.dumps(m["a"])[:200], json.dumps(m["got"])[:200],
                          " PANIC " + m["panic"][:120] if m.get("panic") else "", json.dumps(m["exp"])[:300]), m)
    st = json.load(open(b2_stats))
    run.cov["b1_fn_vectors"] = res["per_fn"]
    run.cov["b1_state_vectors"] = res["state_vectors"]
    run.cov["b1_instance_histories"] = res["inst_per_machine"]
    run.cov["b1_instance_operations"] = res["inst_ops"]
    run.cov["b1_render_histories"] = res["hist_per_machine"]
    run.cov["b1_render_history_renders"] = res["hist_renders"]
    run.cov["b1_renders"] = res["per_renderer"]
    run.cov["b2_renders"] = st["per_renderer"]
    run.cov["b2_scale_triples"] = st["scale_triples"]
    run.cov["b2_primitive_calls"] = st["fn_calls"]
    run.cov["b2_random_states"] = st["states"]
    for s in (res["samples"] or [])[:4] + (st["samples"] or [])[:2]:
        run.sample(s)

    # ---- B2: every record judged by TLC
    recs = open(b1_trace).read().splitlines() + open(b2_trace).read().splitlines()
    nreal = len(recs)
    ncanary = 0
    for i, ln in enumerate(recs[:]):
        if ncanary >= 120:
            break
        if '"ev":"render"' in ln and '"panic":false' in ln and i % 53 == 0:
            rec = json.loads(ln)
            if len(rec["lines"]) >= 1:
                rec["lines"][-1] = rec["lines"][-1] + [90]          # a deliberately corrupted screen
                rec["canary"] = True
                recs.append(json.dumps(rec, separators=(",", ":")))
                ncanary += 1
    k = 7
    order = sorted(range(len(recs)), key=lambda i: -len(recs[i]))
    chunks, load = [[] for _ in range(k)], [0] * k
    for i in order:
        j = load.index(min(load))
        chunks[j].append(i)
        load[j] += len(recs[i]) + 2000
    paths = []
    for j, ch in enumerate(chunks):
        p = os.path.join(run.scratch, "c14-chunk-%d.ndjson" % j)
        with open(p, "w") as f:
            for i in ch:
                f.write(recs[i] + "\n")
        paths.append(p)

    def val(j, p):
        time.sleep(0.3 * j)
        r = run.tlc("Render_Trace", TRACE_CFG, files=[("trace.ndjson", p)], workers=1, timeout=3000, xmx="3g",
                    label="Render_Trace chunk %d" % j)
        if r.violated or r.errors:
            raise Inconclusive("trace validation failed to run (chunk %d): %s %s\n%s" % (j, r.violated, r.errors[:3], r.out[-3000:]))
        out = r.json_out("bad.json")
        if out is None:
            raise Inconclusive("trace validation wrote no result (chunk %d)\n%s" % (j, r.out[-3000:]))
        return out

    results = parallel([lambda j=j, p=p: val(j, p) for j, p in enumerate(paths) if chunks[j]], k)
    consumed = nontrivial = canary_rejected = 0
    for ch, out in zip([c for c in chunks if c], results):
        if out["consumed"] != len(ch) or not out["done"]:
            raise Inconclusive("a trace chunk was consumed only to %d of %d records" % (out["consumed"], len(ch)))
        consumed += out["consumed"]
        nontrivial += out["nontrivial"]
        for bad in out["bad"]:
            rec = json.loads(recs[ch[bad["l"] - 1]])
            if rec.get("canary"):
                canary_rejected += 1
                continue
            what = rec["rdr"] if rec["ev"] == "render" else rec["ev"]
            sig = "panic:%s" % what if bad["why"] == "panic" else "b2:%s" % bad["why"]
            run.violation(sig, describe(rec, bad["why"]), rec)
    if ncanary < 20 or canary_rejected * 10 < ncanary * 9:
        raise Inconclusive("trace validation rejected only %d of %d deliberately corrupted screens" % (canary_rejected, ncanary))
    run.cov["b2_corrupted_screens_rejected"] = "%d of %d" % (canary_rejected, ncanary)
    run.cov["b2_records_judged"] = consumed - ncanary
    nexec = res["hist_renders"] + res["inst_ops"] + res["fn_vectors"] + res["renders"] + st["renders"] + st["scale_triples"] + st["fn_calls"]
    run.cov["traces_validated_against_impl"] += nexec
    run.cov["evaluations"] += nexec
    run.cov["distinct_nontrivial"] += res["hist_nontrivial"] + res["inst_nontrivial"] + res["fn_nontrivial"] + res["nontrivial"] + st["nontrivial"]
    hung = res.get("hung") or st.get("hung")
    if hung:
        run.cov["hung"] = hung
    elif nreal < 7000 or res["renders"] < 3000 or st["renders"] < 1500:
        raise Inconclusive("too few records: %d (%d + %d renders)" % (nreal, res["renders"], st["renders"]))
    run.cov["rule"] = ("B3: every case of every law in Render_MC; B1: every generated primitive call (non-trivial = draws something / "
                       "0 < magnitude < 1) and every generated aggregator state (all multisets of samples up to the bound per alphabet); "
                       "B2: every screen drawn from those states and from seeded random states by every renderer x scale x colour x unicode "
                       "(limits, formatter, options rotating; full limit matrix on every n-th state) plus progressive renders; "
                       "non-trivial render = a screen of at least 2 lines; identical records are judged once; instance histories (RenderInst_Gen): every history of "
                       "2 (3) operations per machine plus sampled histories of 6-7 operations, compared after every operation (non-trivial = a screen of at least 2 lines); "
                       "render histories (RenderHist_Gen): every history of 2 renders per machine and configuration plus sampled histories of 4-5 renders, the whole screen compared after every render")

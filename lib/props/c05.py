"""C05 - the pipeline is race-free, renders atomically and ends with a complete render."""
import json
import os
import re
import subprocess
import time
from vf import Inconclusive, parallel, require_clean, validate_traces, trace_slice, vfj_lines, GOENV

CLAIM = {
    "text": "TLC exhaustively checks an implementation-shaped model of RunAggregationLoop with its producers (AggLoop.tla: env, R readers, W workers, both channels with close-after-WaitGroup, main loop, 100 ms ticker, outputMutex, unbuffered outputDone) for mutual exclusion of Sample and render, no send on a closed channel, snapshot <= final counts, matched >= shown sum, final render after the last Sample / after the ticker exited / equal to the fold of all matches, deadlock freedom, termination under weak fairness and refinement of the observable specification AggLoopObs; five seeded design faults must each be rejected. TLC-simulated schedules of the model are replayed on the real loop (real batcher and extractor, gates and delays in harness code) together with seeded delay scenarios, and every recorded run (Sample/render enter-exit events with snapshots, return, crashes, hangs) is validated by TLC against AggLoopObs. The data-race clause is decided by the Go race detector on the driver, a status-line/pooled-expression stress and the CLI; the lock-discipline table (LockDiscipline.tla) is model-checked as a design check and aims the stress.",
    "note": "Bounded: model constants as listed in tlc_runs (<=2 files x 2 batches, W,R<=2, <=2 ticks); real-code schedules are steered, not fully controlled (the 100 ms ticker is real time); absence of data races is shown only for the executed runs (dynamic detector). SIGINT exit path not exercised.",
    "technique": "TLA+ model checking with refinement and fault seeding (TLC) + model-schedule replay + trace validation + Go race detector",
}

INVS = "TypeOK Mutex NoSendOnClosed SnapLeFinal MatchedGeSum FinalAfterAll FinalComplete NoLeak"
FAULT_EXPECT = {  # seeded design fault -> an invariant/property that must reject it
    "nomutex": {"Mutex"},
    "buffered": {"FinalAfterAll", "Mutex", "NoLeak"},
    "nofinal": {"FinalComplete"},
    "earlyclose": {"NoSendOnClosed", "FinalAfterAll"},
    "latecount": {"MatchedGeSum"},
}


def mc_cfg(files, w, r, bcap, rcap, ticks, fault="none", env="FALSE", live=True):
    return ("SPECIFICATION Spec\nCONSTANTS\n Files <- %s\n W = %d\n R = %d\n BCap = %d\n RCap = %d\n MaxTicks = %d\n"
            " EnvSteps = %s\n Fault = \"%s\"\nINVARIANTS %s\n%s" % (
                files, w, r, bcap, rcap, ticks, env, fault, INVS,
                "PROPERTIES Monotone Refines Terminates\n" if live else "PROPERTIES Monotone Refines\n"))


def gen_cfg(files, w, r, bcap, rcap, ticks):
    return ("SPECIFICATION GSpec\nCONSTANTS\n Files <- %s\n W = %d\n R = %d\n BCap = %d\n RCap = %d\n MaxTicks = %d\n"
            " EnvSteps = TRUE\n Fault = \"none\"\nINVARIANTS Dump\nCHECK_DEADLOCK FALSE\n" % (files, w, r, bcap, rcap, ticks))


# ------------------------------------------------------------------ schedules (B1)
def normalise(v):
    """model history -> steering script: input is released as late as the schedule allows (just before
    the first Sample of its batch), a tick that fires while main holds the lock is placed inside the
    Sample, internal events are dropped."""
    hist = v["script"]
    files = v["files"]
    relidx = {}   # (f, i) -> index of its rel event
    seen = {}
    for idx, e in enumerate(hist):
        if e["k"] == "rel":
            seen[e["f"]] = seen.get(e["f"], 0) + 1
            relidx[(e["f"], seen[e["f"]])] = idx
    pos = dict(relidx)
    in_render = False
    for idx, e in enumerate(hist):
        if e["k"] == "renter":
            in_render = True
        elif e["k"] == "rexit":
            in_render = False
        if e["k"] == "recv":
            # main took the batch while the ticker renders (it then waits for the mutex): deliver it
            # during that render; otherwise just before its first Sample
            j = idx if in_render else next((q for q in range(idx, len(hist)) if hist[q]["k"] == "senter"), idx)
            pos[(e["f"], e["i"])] = j
    matching = {(e["f"], e["i"]) for e in hist if e["k"] == "recv"}
    for f in range(1, len(files) + 1):
        # a batch without matches is not needed before its predecessor; a batch that main receives
        # before its predecessor (two workers) pulls the predecessor forward
        for i in range(2, len(files[f - 1]) + 1):
            if (f, i) in pos and (f, i - 1) in pos and (f, i) not in matching:
                pos[(f, i)] = max(pos[(f, i)], pos[(f, i - 1)])
        for i in range(len(files[f - 1]), 1, -1):
            if (f, i) in pos and (f, i - 1) in pos:
                pos[(f, i - 1)] = min(pos[(f, i - 1)], pos[(f, i)])
    at = {}
    for (f, i), p in sorted(pos.items()):
        at.setdefault(p, []).append(f)
    out = []
    for idx, e in enumerate(hist):
        for f in at.get(idx, []):
            out.append({"k": "rel", "f": f})
        if e["k"] in ("rel", "recv", "ret"):
            continue
        out.append({"k": e["k"]})
    # a tick that fired before main's Sample but renders only after it: steer it as "fires during the Sample"
    i = 0
    while i < len(out):
        if out[i]["k"] == "tick":
            q = next((j for j in range(i + 1, len(out)) if out[j]["k"] == "renter"), len(out))
            s = next((j for j in range(i + 1, q) if out[j]["k"] == "senter"), None)
            if s is not None:
                out.insert(s + 1, out.pop(i))
                continue
        i += 1
    return out


def features(script, files):
    """what a schedule exercises (used to pick a varied subset and reported in the evidence)"""
    fs = set()
    depth_s = depth_r = False
    nrel = {}
    total_b = {f + 1: len(b) for f, b in enumerate(files)}
    for e in script:
        k = e["k"]
        if k == "senter":
            depth_s = True
        elif k == "sexit":
            depth_s = False
        elif k == "renter":
            depth_r = True
        elif k == "rexit":
            depth_r = False
        elif k == "tick" and depth_s:
            fs.add("tick-during-sample")
        elif k == "rel":
            nrel[e["f"]] = nrel.get(e["f"], 0) + 1
            if depth_r:
                fs.add("input-during-render")
                if all(nrel.get(f, 0) == n for f, n in total_b.items()):
                    fs.add("end-of-input-during-render")
                    if any(k for k in files[e["f"] - 1][-1]):
                        fs.add("last-matches-arrive-during-render")
            if depth_s:
                fs.add("input-during-sample")
    ks = [e["k"] for e in script if e["k"] != "rel"]
    for a, b in zip(ks, ks[1:]):
        if a == "rexit" and b == "senter":
            fs.add("render-between-batches")
        if a == "sexit" and b == "renter":
            fs.add("render-right-after-sample")
    return fs


def pick(cands, n, seed):
    """greedy feature cover, then fill in order"""
    import random
    rnd = random.Random(seed)
    cands = list(cands)
    rnd.shuffle(cands)
    chosen, need = [], {}
    for c in cands:
        for f in c["features"]:
            need[f] = need.get(f, 0)
    for c in cands:
        if len(chosen) >= n:
            break
        if any(need[f] < 3 for f in c["features"]) or not c["features"] and len(chosen) < n // 4:
            chosen.append(c)
            for f in c["features"]:
                need[f] += 1
    for c in cands:
        if len(chosen) >= n:
            break
        if c not in chosen:
            chosen.append(c)
    return chosen


# ------------------------------------------------------------------ races
RACE_RE = re.compile(r"WARNING: DATA RACE.*?==================", re.S)


def race_signature(report):
    """stable class of a race report: the innermost non-runtime frame of each of the two accesses"""
    tops = []
    lines = report.splitlines()
    i = 0
    while i < len(lines):
        if re.match(r"\s*(Read|Write|Previous read|Previous write|Atomic|Previous atomic)\b.* (at|by) ", lines[i]) \
                and not lines[i].lstrip().startswith("Goroutine"):
            fn = None
            j = i + 1
            while j < len(lines) and lines[j].strip():
                name = re.sub(r"\([^()]*\)$", "", lines[j].strip())
                if name and not name.startswith("/") and \
                        not name.startswith(("runtime.", "sync.", "sync/atomic.", "internal/")):
                    fn = name
                    break
                j += 1
            tops.append((fn or "?").split("/")[-1])
            i = j
        i += 1
    return "race:" + "|".join(sorted(set(tops))[:2])


def report_races(run, text, where):
    n = 0
    for rep in RACE_RE.findall(text):
        n += 1
        sig = race_signature(rep)
        path = run.save_replay("race-%s-%d.txt" % (where, n), rep)
        run.violation(sig, "Go race detector report during %s (first lines): %s" % (
            where, " / ".join(l.strip() for l in rep.splitlines()[1:4])), path)
    return n


def run_scenarios(run, scen_path, label, race=False, par=6):
    tr = os.path.join(run.scratch, "c05-%s-trace.ndjson" % label)
    meta = os.path.join(run.scratch, "c05-%s-meta.json" % label)
    p = run.drv(["run", "-in", scen_path, "-out", tr, "-meta", meta, "-par", par], race=race, timeout=1500)
    m = json.load(open(meta))
    if m.get("hangs") and not label.endswith("-again"):
        # non-termination is only reported when it repeats (a starved machine can stall a run)
        return run_scenarios(run, scen_path, label + "-again", race=race, par=max(2, par // 2))
    if m.get("infra"):
        raise Inconclusive("harness trouble in %s runs: %s" % (label, json.dumps(m["infra"])[:1500]))
    return tr, m


def judge_traces(run, tr, m, label, scen_by_t):
    res, r = validate_traces(run, "AggLoop_Trace", tr, invariants=("Final", "Laws"), label="AggLoop_Trace " + label)
    lines = open(tr).read().splitlines()
    ntr = sum(1 for l in lines if '"event":"reset"' in l)
    run.cov["traces_validated_against_impl"] += ntr
    run.cov["evaluations"] += ntr
    run.cov["b2_events"] = run.cov.get("b2_events", 0) + res["consumed"]
    if res["consumed"] != len(lines):
        raise Inconclusive("trace validation consumed %d of %d lines" % (res["consumed"], len(lines)))
    crashes = {c["t"]: c for c in (m.get("crashes") or [])}
    hangs = {h["t"]: h for h in (m.get("hangs") or [])}
    for bad in res["bad"]:
        t, why = bad["t"], bad["why"]
        ev = lines[bad["l"] - 1]
        replay = {"scenario": scen_by_t.get(t), "rejected_line": bad["l"], "why": why,
                  "trace": trace_slice(tr, t).splitlines()}
        if t in crashes:
            why = "crash:" + crashes[t]["class"]
            replay["stderr"] = crashes[t]["stderr"]
        if t in hangs:
            replay["goroutines"] = hangs[t]["dump"]
        path = run.save_replay("%s-trace-%d.json" % (label, t), replay)
        src = (scen_by_t.get(t) or {}).get("src", "?")
        run.violation("loop:%s" % why,
                      "recorded run of the real RunAggregationLoop (%s scenario %d) is not a behaviour of AggLoopObs: %s at %s" % (
                          src, t, why, ev[:240]), path)
    return res, ntr


def check(run):
    quick = run.tier == "quick"
    run.assumptions += [
        "Go runtime: sync.Mutex, channels, WaitGroup and sync/atomic behave as documented (the model's primitives); mutex acquisition is fair enough for a bounded number of ticks",
        "the SIGINT branch of the loop (exitSignal) is not exercised; it joins the same tail as a closed channel",
        "data races: decided by the dynamic race detector on the executed runs only; the model contributes the lock-discipline design check",
        "model bounds: see tlc_runs (files/batches/W/R/capacities/ticks); readCh capacity is 1..2 in the model, 5 in the code",
    ]
    # ---- builds first (fail early), race build in the background of B3
    run.build_harness()
    t_b3 = time.time()

    # ---- B3: exhaustive model checking
    if quick:
        mcs = [("InA", 2, 2, 1, 1, 1, True), ("InA", 2, 1, 1, 2, 2, True), ("InB", 2, 1, 1, 1, 2, True), ("InE", 2, 1, 1, 1, 1, True)]
        flt = ("InB", 2, 1, 1, 1, 2)
    else:
        mcs = [("InA", 2, 2, 1, 1, 2, True), ("InA", 2, 1, 2, 2, 3, True), ("InB", 2, 1, 1, 2, 3, True),
               ("InC", 2, 2, 1, 1, 2, True), ("InD", 2, 2, 1, 2, 2, False), ("InE", 2, 2, 1, 1, 2, True),
               ("InC", 1, 3, 2, 1, 2, True), ("InD", 2, 2, 1, 2, 3, False)]
        flt = ("InA", 2, 2, 1, 1, 2)
    jobs = []
    for (f, w, r, b, rc, tk, live) in mcs:
        jobs.append(lambda f=f, w=w, r=r, b=b, rc=rc, tk=tk, live=live: (
            (f, w, r, b, rc, tk), run.tlc("AggLoop_MC", mc_cfg(f, w, r, b, rc, tk, live=live), workers=2 if quick else 4, timeout=3000, xmx="2g",
                                          coverage=(f == "InA" and r == 2 and rc == 1),
                                          label="AggLoop %s W=%d R=%d BCap=%d RCap=%d ticks=%d%s" % (f, w, r, b, rc, tk, " +liveness" if live else ""))))
    for fault in FAULT_EXPECT:
        f, w, r, b, rc, tk = flt
        jobs.append(lambda fault=fault, f=f, w=w, r=r, b=b, rc=rc, tk=tk: (
            fault, run.tlc("AggLoop_MC", mc_cfg(f, w, r, b, rc, tk, fault=fault, live=False), workers=1, timeout=3000, xmx="1g",
                           label="AggLoop fault=%s (must be rejected)" % fault)))
    jobs.append(lambda: ("lock", run.tlc("LockDiscipline", "SPECIFICATION Spec\nINVARIANTS TypeOK Disciplined\nCONSTANTS Fixed = TRUE\n",
                                          workers=1, xmx="1g", label="LockDiscipline (as fixed)")))
    jobs.append(lambda: ("lock0", run.tlc("LockDiscipline", "SPECIFICATION Spec\nINVARIANTS TypeOK Disciplined\nCONSTANTS Fixed = FALSE\n",
                                           workers=1, xmx="1g", label="LockDiscipline (as originally read; must be rejected)")))
    for tag, r in parallel(jobs, 5):
        if tag == "lock":
            require_clean(run, r, "LockDiscipline")
        elif tag == "lock0":
            if "Disciplined" not in r.violated:
                raise Inconclusive("LockDiscipline does not flag the original unguarded accesses")
        elif isinstance(tag, str):
            if not (set(r.violated) & FAULT_EXPECT[tag]):
                raise Inconclusive("seeded model fault %s was not rejected by %s (violated=%s)" % (tag, FAULT_EXPECT[tag], r.violated))
        else:
            require_clean(run, r, "AggLoop %s" % (tag,))
            if r.coverage:
                acts = ("EnvRel", "Claim", "RSend", "RDone", "CloseBatch", "WRecv", "WExit", "WSend", "CloseRead", "MRecv",
                        "MClosed", "MLock", "MSEnter", "MSExit", "MUnlock", "DoneRendezvous", "MFinalEnter", "MFinalExit",
                        "MRet", "TTick", "TRender", "TUnlock")
                zero = [a for a, (n, _) in r.coverage.items() if n == 0 and a.split(".")[1] in acts and a.split(".")[1] != "EnvRel"]
                if zero:
                    raise Inconclusive("vacuous model: actions never taken: %s" % zero)
    run.cov["b3_wall_s"] = round(time.time() - t_b3, 1)

    # ---- B1: schedules simulated by TLC, replayed on the real loop
    gens = [("GenA", 2, 2, 1, 2, 3), ("GenB", 2, 2, 1, 2, 3), ("GenC", 2, 1, 2, 2, 3), ("GenD", 1, 2, 1, 1, 2)]
    if not quick:
        gens += [("GenA", 1, 1, 1, 1, 3), ("GenB", 2, 3, 2, 2, 3), ("GenD", 2, 2, 2, 2, 3)]
    nsim = 120 if quick else 600
    outs = parallel([lambda g=g: run.tlc("AggLoop_Gen", gen_cfg(*g), workers=1, simulate="num=%d" % nsim, depth=400,
                                         timeout=600, xmx="1g", label="AggLoop_Gen %s W=%d R=%d" % (g[0], g[1], g[2])) for g in gens], 4)
    cands, seen = [], set()
    for r in outs:
        if r.violated or r.errors:
            raise Inconclusive("schedule generator failed: %s" % r.out[-2000:])
        for v in vfj_lines(r.out):
            script = normalise(v)
            key = json.dumps([v["files"], v["w"], v["r"], script])
            if key in seen:
                continue
            seen.add(key)
            total = {}
            for fl in v["files"]:
                for b in fl:
                    for k in b:
                        if k:
                            total[k] = total.get(k, 0) + 1
            if {int(k): n for k, n in v["final"] if n} != total or v["matched"] != sum(total.values()):
                raise Inconclusive("model's final render differs from the fold of its input: %s" % v)
            cands.append({"files": v["files"], "workers": v["w"], "readers": v["r"], "buf": v["bcap"],
                          "batch": max(len(b) for fl in v["files"] for b in fl), "script": script,
                          "features": sorted(features(script, v["files"]))})
    if len(cands) < 50:
        raise Inconclusive("schedule generator produced only %d schedules" % len(cands))
    chosen = pick(cands, 36 if quick else 240, run.seed)
    scen = []
    for i, c in enumerate(chosen):
        scen.append({"t": i + 1, "src": "tlc", "mode": "files", "workers": c["workers"], "readers": c["readers"],
                     "batch": c["batch"], "buf": c["buf"], "files": c["files"], "script": c["script"],
                     "status": i % 2 == 0})
        if "input-during-render" in c["features"]:
            scen[-1]["rsleep"] = {"*": 150}   # keep that render open well beyond the delivery
    featcount = {}
    for c in chosen:
        for f in c["features"]:
            featcount[f] = featcount.get(f, 0) + 1
    run.cov["b1_schedules"] = {"simulated_distinct": len(cands), "replayed": len(chosen), "features": featcount}
    # ---- B2: seeded delay scenarios
    seeded = os.path.join(run.scratch, "c05-seeded.ndjson")
    run.drv(["gen", "-n", 24 if quick else 160, "-out", seeded])
    for line in open(seeded):
        scen.append(json.loads(line))
    scen_path = os.path.join(run.scratch, "c05-scen.ndjson")
    with open(scen_path, "w") as f:
        for s in scen:
            f.write(json.dumps(s, separators=(",", ":")) + "\n")
    scen_by_t = {s["t"]: s for s in scen}

    def do_plain():
        return run_scenarios(run, scen_path, "plain", par=8)

    # ---- race clause: the same driver under the race detector (subset in quick), the stress, the CLI
    race_scen = os.path.join(run.scratch, "c05-race-scen.ndjson")
    sub = [s for s in scen if s["src"] != "tlc"][:8 if quick else 80] + [s for s in scen if s["src"] == "tlc"][:5 if quick else 60]
    with open(race_scen, "w") as f:
        for s in sub:
            f.write(json.dumps(s, separators=(",", ":")) + "\n")

    def do_race():
        run.build_harness(race=True)
        tr, m = run_scenarios(run, race_scen, "race", race=True, par=4)
        p = run.drv(["stress", "-ms", 2500 if quick else 40000, "-files", 40 if quick else 120], race=True,
                    env={"GORACE": "halt_on_error=0 exitcode=0"}, timeout=1500, check=False)
        if p.returncode != 0 and "DATA RACE" not in p.stderr:
            if "panic:" in p.stderr or "fatal error:" in p.stderr:
                return tr, m, p, "crash"
            raise Inconclusive("stress driver failed (%d): %s" % (p.returncode, p.stderr[-3000:]))
        return tr, m, p, ""

    def do_cli():
        return cli_race(run, quick)

    (tr, m), (rtr, rm, sp, scrash), cli = parallel([do_plain, do_race, do_cli], 3)

    res, ntr = judge_traces(run, tr, m, "plain", scen_by_t)
    run.cov["distinct_nontrivial"] += sum(1 for s in scen if s["src"] != "tlc" or s.get("script"))
    run.cov["b1_schedules"]["realized_exactly"] = m["realized"]
    run.cov["b1_schedules"]["diverged"] = m["diverged"]
    with open(tr) as f:
        run.sample({"b2_trace_head": [json.loads(next(f)) for _ in range(6)]})
    run.sample({"b1_schedule": chosen[0]})
    rres, rntr = judge_traces(run, rtr, rm, "race", scen_by_t)
    nr = 0
    for rc in (rm.get("races") or []):
        nr += report_races(run, rc["report"], "driver-scenario-%d" % rc["t"])
    nr += report_races(run, sp.stderr, "stress")
    if scrash:
        path = run.save_replay("stress-crash.txt", sp.stderr[-20000:])
        run.violation("stress:crash", "the pipeline crashed under the race stress: %s" % sp.stderr[-400:], path)
    try:
        st = json.loads(sp.stdout.strip().splitlines()[-1])
    except Exception:
        st = {}
    run.cov["race"] = {"driver_runs_under_race": rntr, "stress": st, "cli_runs_under_race": cli["runs"], "reports": nr + cli["reports"]}
    run.cov["evaluations"] += st.get("rounds", 0) + cli["runs"]
    run.cov["rule"] = ("B3: all behaviours of AggLoop within the listed bounds incl. liveness/refinement, 5 seeded faults rejected; "
                       "B1: distinct TLC-simulated schedules replayed on the real loop (non-trivial = has a steering script); "
                       "B2: every recorded run validated against AggLoopObs; race clause: race-detector runs")


def cli_race(run, quick):
    """the real CLI built with -race on many small files (status line during file turnover) and on a slow stdin"""
    exe = run.build_cli(race=True)
    d = os.path.join(run.scratch, "cli")
    os.makedirs(d, exist_ok=True)
    import random
    rnd = random.Random(run.seed)
    names = []
    for i in range(150 if quick else 600):
        p = os.path.join(d, "f%04d.log" % i)
        with open(p, "w") as f:
            for j in range(rnd.randint(200, 1200)):
                f.write("key%d payload %d 2024-01-0%dT00:00:00Z %d\n" % (rnd.randint(0, 9), j, rnd.randint(1, 9), rnd.randint(0, 99)))
        names.append(p)
    env = dict(GOENV)
    env["GORACE"] = "halt_on_error=0 exitcode=0"
    cmds = [
        [exe, "histo", "-m", r"^(key\d+) ", "-e", "{1}", "--batch", "50", "--readers", "3"] + names,
        [exe, "table", "-m", r"^(key\d+) payload (\d+) (\S+) (\d+)", "-e", "{1}", "-e", "{timeformat {time {3}} \"01-02\"}",
         "--batch", "40", "--readers", "4", "-w", "4"] + names[:len(names) // 2],
    ]
    if not quick:
        cmds.append([exe, "bars", "-m", r"^(key\d+) payload (\d+) (\S+) (\d+)", "-e", "{1}", "-e", "{bucket {4} 10}",
                     "--batch", "30", "-w", "6"] + names)
        cmds.append([exe, "analyze", "-m", r" (\d+)$", "-e", "{1}", "--batch", "25"] + names)
    reports, runs = 0, 0
    for c in cmds:
        try:
            p = subprocess.run(c, capture_output=True, text=True, timeout=600, env=env, cwd=d)
        except subprocess.TimeoutExpired:
            raise Inconclusive("CLI under -race timed out: %s" % c[:6])
        runs += 1
        if p.returncode != 0 and "DATA RACE" not in p.stderr:
            if "panic:" in p.stderr or "fatal error:" in p.stderr:
                path = run.save_replay("cli-crash-%d.txt" % runs, " ".join(c[:12]) + "\n" + p.stderr[-20000:])
                run.violation("cli:crash", "rare %s crashed: %s" % (c[1], p.stderr[-300:]), path)
                continue
            raise Inconclusive("CLI run failed (%d): %s\n%s" % (p.returncode, c[:8], p.stderr[-2000:]))
        reports += report_races(run, p.stderr, "cli-" + c[1])
    # slow stdin: several ticks fire while the reader is idle / mid-batch
    c = [exe, "histo", "-m", r"^(key\d+) ", "-e", "{1}", "--batch", "3"]
    try:
        pr = subprocess.Popen(c, stdin=subprocess.PIPE, stdout=subprocess.PIPE, stderr=subprocess.PIPE, text=True, env=env, cwd=d)
        for i in range(12):
            pr.stdin.write("key%d payload\n" % (i % 3) * (1 + i % 4))
            pr.stdin.flush()
            time.sleep(0.04)
        pr.stdin.close()
        out = pr.stdout.read()
        err = pr.stderr.read()
        pr.wait(timeout=120)
    except subprocess.TimeoutExpired:
        pr.kill()
        raise Inconclusive("CLI with slow stdin did not terminate in 120 s")
    runs += 1
    reports += report_races(run, err, "cli-stdin")
    return {"runs": runs, "reports": reports}

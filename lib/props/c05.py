"""C05 - the pipeline is race-free, renders atomically and ends with a complete render."""
import json
import os
import re
import subprocess
import time
from vf import Inconclusive, parallel, require_clean, validate_traces, trace_slice, vfj_lines, GOENV, tlaps

CLAIM = {
    "text": "TLC exhaustively checks an implementation-shaped model of RunAggregationLoop with its producers (AggLoop.tla: env, R readers, W workers, both channels with close-after-WaitGroup, main loop, 100 ms ticker, outputMutex, unbuffered outputDone) for mutual exclusion of Sample and render, no send on a closed channel, snapshot <= final counts, matched >= shown sum, final render after the last Sample / after the ticker exited / equal to the fold of all matches, deadlock freedom, termination under weak fairness and refinement of the observable specification AggLoopObs; names that cannot be opened leave through the open-error path and give their reader slot back (SlotsOK); six seeded design faults (one of them a slot kept on the open-error path, which TLC refutes by a deadlock) must each be rejected; the mutual-exclusion clause is additionally proved with TLAPS for executions of any length (AggMutex.tla). PoolOwn.tla models the ownership of pooled evaluation contexts (slicepool Get/Return in @map, @filter, @reduce, @for incl. its iteration-limit bail-out, funcs-file calls, formulas; every way out of every helper; any Get order): an object is held by at most one evaluation at a time and Return gives back only what the caller holds - a second Return or an early Return on one way out is refuted, a forgotten one accepted. TimeMemo.tla models the state the workers share inside one compiled time stage: remembering the detected layout in one atomic cell (the code) or the last conversion in ONE cell keeps every evaluation on the key of its own line; remembering input and result in TWO atomic cells is refuted (a pair of atomics is not an atomic pair; LockDiscipline's consistency groups reject it as a design). TLC-simulated schedules of the model are replayed on the real loop (real batcher and extractor, gates and delays in harness code) together with seeded delay scenarios, and every recorded run (Sample/render enter-exit events with snapshots, return, crashes, hangs) is validated by TLC against AggLoopObs - among them schedules with at least as many unopenable names (absent files, directories) as reader slots before, between and after readable files, whose non-termination is a violation (watchdog in a child process, confirmed by a re-run with a tripled deadline), the same inputs through the real CLI, and runs of 40 000 lines in 4 workers whose timestamps alternate in irregular runs (texts and demanded keys computed by TLC from the calendar specification; samples between two renders compressed into one event) so that per-key totals and every intermediate render are judged. TLC-simulated evaluation histories of PoolOwn (nests of helpers leaving by data-selected ways out, then 8-12 evaluations held inside their innermost bodies by a barrier = 16+ contexts held at once) are replayed on the real compiled helpers; every body must find its own element before and after the barrier. The data-race clause is decided by the Go race detector on the driver, a status-line/pooled-expression stress and the CLI; the lock-discipline table (LockDiscipline.tla) is model-checked as a design check and aims the stress.",
    "note": "Bounded: model constants as listed in tlc_runs (<=2 files x 2 batches, W,R<=2, <=2 ticks); real-code schedules are steered, not fully controlled (the 100 ms ticker is real time); absence of data races is shown only for the executed runs (dynamic detector). SIGINT exit path not exercised.",
    "technique": "TLA+ model checking with refinement and fault seeding (TLC) + model-schedule replay + trace validation + Go race detector + TLAPS proof of the exclusion clause",
}

INVS = "TypeOK Mutex NoSendOnClosed SnapLeFinal MatchedGeSum FinalAfterAll FinalComplete NoLeak SlotsOK"
FAULT_EXPECT = {  # seeded design fault -> an invariant/property that must reject it
    "nomutex": {"Mutex"},
    "buffered": {"FinalAfterAll", "Mutex", "NoLeak"},
    "nofinal": {"FinalComplete"},
    "earlyclose": {"NoSendOnClosed", "FinalAfterAll"},
    "latecount": {"MatchedGeSum"},
    "slotleak": {"SlotsOK", "<deadlock>", "<temporal>"},
}
FAULT_CFG = {"slotleak": ("InM", 2, 1, 1, 1, 1)}   # needs unopenable names: as many as reader slots, then a file

# PoolOwn: (label, Design, DH, DP, WaySel, E, must_hold)
POOL_MC = [
    ("the code, loops", "defer", "for", "limit", "loops", 2, True),
    ("the code, array helpers", "defer", "for", "limit", "arrays", 2, True),
    ("the code, funcs-file / formula contexts", "defer", "for", "limit", "ctx", 2, True),
    ("a forgotten Return (accepted)", "leak", "for", "limit", "loops", 2, True),
    ("second Return on the iteration-limit bail-out", "double", "for", "limit", "loops", 2, False),
    ("second Return on the formula's error path", "double", "math", "err", "ctx", 2, False),
    ("Return before the last use (@map)", "early", "map", "end", "loops", 2, False),
]
TIME_MC = [("format", "WkA", 2, 2, True), ("format", "WkB", 3, 2, True), ("format", "WkC", 2, 3, True), ("pair1", "WkA", 2, 2, True),
           ("pair1", "WkB", 3, 2, True), ("pair2", "WkA", 2, 2, False), ("pair2v", "WkA", 2, 2, False), ("pair2", "WkD", 1, 2, True)]


def pool_cfg(design, dh, dp, sel, e, depth=2, maxobj=4):
    return ("SPECIFICATION Spec\nCONSTANTS\n E = %d\n MaxDepth = %d\n PoolInit = 1\n MaxObj = %d\n Design = \"%s\"\n DH = \"%s\"\n"
            " DP = \"%s\"\n WaySel = \"%s\"\nINVARIANTS TypeOK Own NoForeign Conserved\nCHECK_DEADLOCK FALSE\n" % (e, depth, maxobj, design, dh, dp, sel))


def time_cfg(memo, wk, w, nc):
    return ("SPECIFICATION Spec\nCONSTANTS\n W = %d\n Work <- %s\n NC = %d\n Memo = \"%s\"\n"
            "INVARIANTS TypeOK KeyOK CountLeFinal FinalCounts PairOK\nPROPERTIES Terminates\n" % (w, wk, nc, memo))


def lock_cfg(fixed, cells):
    return "SPECIFICATION Spec\nINVARIANTS TypeOK Disciplined Grouped\nCONSTANTS Fixed = %s\n TimeCells = \"%s\"\n" % (fixed, cells)


def mc_cfg(files, w, r, bcap, rcap, ticks, fault="none", env="FALSE", live=True):
    return ("SPECIFICATION Spec\nCONSTANTS\n Files <- %s\n W = %d\n R = %d\n BCap = %d\n RCap = %d\n MaxTicks = %d\n"
            " EnvSteps = %s\n Fault = \"%s\"\nINVARIANTS %s\n%s" % (
                files, w, r, bcap, rcap, ticks, env, fault, INVS,
                "PROPERTIES Monotone Refines Terminates\n" if live else "PROPERTIES Monotone Refines\n"))


def gen_cfg(files, w, r, bcap, rcap, ticks):
    return ("SPECIFICATION GSpec\nCONSTANTS\n Files <- %s\n W = %d\n R = %d\n BCap = %d\n RCap = %d\n MaxTicks = %d\n"
            " EnvSteps = TRUE\n Fault = \"none\"\nINVARIANTS Dump\nCHECK_DEADLOCK FALSE\n" % (files, w, r, bcap, rcap, ticks))


# ------------------------------------------------------------------ schedules (B1)
def normalise(v):
    """model history -> steering script: input is released as late as the schedule allows (just before
    the first Sample of its batch), a tick that fires while main holds the lock is placed inside the
    Sample, internal events are dropped."""
    hist = v["script"]
    files = v["files"]
    relidx = {}   # (f, i) -> index of its rel event
    seen = {}
    for idx, e in enumerate(hist):
        if e["k"] == "rel":
            seen[e["f"]] = seen.get(e["f"], 0) + 1
            relidx[(e["f"], seen[e["f"]])] = idx
    pos = dict(relidx)
    in_render = False
    for idx, e in enumerate(hist):
        if e["k"] == "renter":
            in_render = True
        elif e["k"] == "rexit":
            in_render = False
        if e["k"] == "recv":
            # main took the batch while the ticker renders (it then waits for the mutex): deliver it
            # during that render; otherwise just before its first Sample
            j = idx if in_render else next((q for q in range(idx, len(hist)) if hist[q]["k"] == "senter"), idx)
            pos[(e["f"], e["i"])] = j
    matching = {(e["f"], e["i"]) for e in hist if e["k"] == "recv"}
    for f in range(1, len(files) + 1):
        # a batch without matches is not needed before its predecessor; a batch that main receives
        # before its predecessor (two workers) pulls the predecessor forward
        for i in range(2, len(files[f - 1]) + 1):
            if (f, i) in pos and (f, i - 1) in pos and (f, i) not in matching:
                pos[(f, i)] = max(pos[(f, i)], pos[(f, i - 1)])
        for i in range(len(files[f - 1]), 1, -1):
            if (f, i) in pos and (f, i - 1) in pos:
                pos[(f, i - 1)] = min(pos[(f, i - 1)], pos[(f, i)])
    at = {}
    for (f, i), p in sorted(pos.items()):
        at.setdefault(p, []).append(f)
    out = []
    for idx, e in enumerate(hist):
        for f in at.get(idx, []):
            out.append({"k": "rel", "f": f})
        if e["k"] in ("rel", "recv", "ret"):
            continue
        out.append({"k": e["k"]})
    # a tick that fired before main's Sample but renders only after it: steer it as "fires during the Sample"
    i = 0
    while i < len(out):
        if out[i]["k"] == "tick":
            q = next((j for j in range(i + 1, len(out)) if out[j]["k"] == "renter"), len(out))
            s = next((j for j in range(i + 1, q) if out[j]["k"] == "senter"), None)
            if s is not None:
                out.insert(s + 1, out.pop(i))
                continue
        i += 1
    return out


def features(script, files):
    """what a schedule exercises (used to pick a varied subset and reported in the evidence)"""
    fs = set()
    if any(len(fl) == 0 for fl in files):
        fs.add("unopenable-names")
    depth_s = depth_r = False
    nrel = {}
    total_b = {f + 1: len(b) for f, b in enumerate(files)}
    for e in script:
        k = e["k"]
        if k == "senter":
            depth_s = True
        elif k == "sexit":
            depth_s = False
        elif k == "renter":
            depth_r = True
        elif k == "rexit":
            depth_r = False
        elif k == "tick" and depth_s:
            fs.add("tick-during-sample")
        elif k == "rel":
            nrel[e["f"]] = nrel.get(e["f"], 0) + 1
            if depth_r:
                fs.add("input-during-render")
                if all(nrel.get(f, 0) == n for f, n in total_b.items()):
                    fs.add("end-of-input-during-render")
                    if any(k for k in files[e["f"] - 1][-1]):
                        fs.add("last-matches-arrive-during-render")
            if depth_s:
                fs.add("input-during-sample")
    ks = [e["k"] for e in script if e["k"] != "rel"]
    for a, b in zip(ks, ks[1:]):
        if a == "rexit" and b == "senter":
            fs.add("render-between-batches")
        if a == "sexit" and b == "renter":
            fs.add("render-right-after-sample")
    return fs


def pick(cands, n, seed):
    """greedy feature cover, then fill in order"""
    import random
    rnd = random.Random(seed)
    cands = list(cands)
    rnd.shuffle(cands)
    chosen, need = [], {}
    for c in cands:
        for f in c["features"]:
            need[f] = need.get(f, 0)
    for c in cands:
        if len(chosen) >= n:
            break
        if any(need[f] < 3 for f in c["features"]) or not c["features"] and len(chosen) < n // 4:
            chosen.append(c)
            for f in c["features"]:
                need[f] += 1
    for c in cands:
        if len(chosen) >= n:
            break
        if c not in chosen:
            chosen.append(c)
    return chosen


# ------------------------------------------------------------------ races
RACE_RE = re.compile(r"WARNING: DATA RACE.*?==================", re.S)


def race_signature(report):
    """stable class of a race report: the innermost non-runtime frame of each of the two accesses"""
    tops = []
    lines = report.splitlines()
    i = 0
    while i < len(lines):
        if re.match(r"\s*(Read|Write|Previous read|Previous write|Atomic|Previous atomic)\b.* (at|by) ", lines[i]) \
                and not lines[i].lstrip().startswith("Goroutine"):
            fn = None
            j = i + 1
            while j < len(lines) and lines[j].strip():
                name = re.sub(r"\([^()]*\)$", "", lines[j].strip())
                if name and not name.startswith("/") and \
                        not name.startswith(("runtime.", "sync.", "sync/atomic.", "internal/")):
                    fn = name
                    break
                j += 1
            tops.append((fn or "?").split("/")[-1])
            i = j
        i += 1
    return "race:" + "|".join(sorted(set(tops))[:2])


def report_races(run, text, where):
    n = 0
    for rep in RACE_RE.findall(text):
        n += 1
        sig = race_signature(rep)
        path = run.save_replay("race-%s-%d.txt" % (where, n), rep)
        run.violation(sig, "Go race detector report during %s (first lines): %s" % (
            where, " / ".join(l.strip() for l in rep.splitlines()[1:4])), path)
    return n


def run_scenarios(run, scen_path, label, race=False, par=6):
    tr = os.path.join(run.scratch, "c05-%s-trace.ndjson" % label)
    meta = os.path.join(run.scratch, "c05-%s-meta.json" % label)
    run.drv(["run", "-in", scen_path, "-out", tr, "-meta", meta, "-par", par], race=race, timeout=1500)
    m = json.load(open(meta))
    if m.get("hangs"):
        # non-termination is only reported when it repeats with a tripled deadline on a quieter machine
        # (a starved machine can stall a run): the hung scenarios alone are run again, two at a time
        hung = {h["t"] for h in m["hangs"]}
        confirm = set(sorted(hung)[:4])     # each confirmation costs up to a minute: a few of them decide
        again = os.path.join(run.scratch, "c05-%s-again.ndjson" % label)
        with open(again, "w") as f:
            for line in open(scen_path):
                sc = json.loads(line)
                if sc["t"] in confirm:
                    sc["deadline"] = 60
                    f.write(json.dumps(sc, separators=(",", ":")) + "\n")
        tr2 = os.path.join(run.scratch, "c05-%s-again-trace.ndjson" % label)
        meta2 = os.path.join(run.scratch, "c05-%s-again-meta.json" % label)
        run.drv(["run", "-in", again, "-out", tr2, "-meta", meta2, "-par", 2], race=race, timeout=1500)
        m2 = json.load(open(meta2))
        merged = os.path.join(run.scratch, "c05-%s-merged.ndjson" % label)
        with open(merged, "w") as out:
            keep = True
            for line in open(tr):
                if '"event":"reset"' in line:
                    keep = json.loads(line).get("t") not in hung
                if keep:
                    out.write(line)
            out.write(open(tr2).read())
        tr = merged
        m["hangs"] = m2.get("hangs") or []
        m["hangs_first_run"] = sorted(hung)
        for k in ("races", "crashes", "infra"):
            m[k] = [x for x in (m.get(k) or []) if x["t"] not in hung] + (m2.get(k) or [])
    if m.get("infra"):
        raise Inconclusive("harness trouble in %s runs: %s" % (label, json.dumps(m["infra"])[:1500]))
    return tr, m


def judge_traces(run, tr, m, label, scen_by_t):
    res, r = validate_traces(run, "AggLoop_Trace", tr, invariants=("Final", "Laws"), label="AggLoop_Trace " + label)
    lines = open(tr).read().splitlines()
    ntr = sum(1 for l in lines if '"event":"reset"' in l)
    run.cov["traces_validated_against_impl"] += ntr
    run.cov["evaluations"] += ntr
    run.cov["b2_events"] = run.cov.get("b2_events", 0) + res["consumed"]
    if res["consumed"] != len(lines):
        raise Inconclusive("trace validation consumed %d of %d lines" % (res["consumed"], len(lines)))
    crashes = {c["t"]: c for c in (m.get("crashes") or [])}
    hangs = {h["t"]: h for h in (m.get("hangs") or [])}
    for bad in res["bad"]:
        t, why = bad["t"], bad["why"]
        ev = lines[bad["l"] - 1]
        replay = {"scenario": scen_by_t.get(t), "rejected_line": bad["l"], "why": why,
                  "trace": trace_slice(tr, t).splitlines()}
        if t in crashes:
            why = "crash:" + crashes[t]["class"]
            replay["stderr"] = crashes[t]["stderr"]
        if t in hangs:
            replay["goroutines"] = hangs[t]["dump"]
        path = run.save_replay("%s-trace-%d.json" % (label, t), replay)
        src = (scen_by_t.get(t) or {}).get("src", "?")
        run.violation("loop:%s" % why,
                      "recorded run of the real RunAggregationLoop (%s scenario %d) is not a behaviour of AggLoopObs: %s at %s" % (
                          src, t, why, ev[:240]), path)
    return res, ntr


def check(run):
    quick = run.tier == "quick"
    run.assumptions += [
        "Go runtime: sync.Mutex, channels, WaitGroup and sync/atomic behave as documented (the model's primitives); mutex acquisition is fair enough for a bounded number of ticks",
        "the SIGINT branch of the loop (exitSignal) is not exercised; it joins the same tail as a closed channel",
        "data races: decided by the dynamic race detector on the executed runs only; the model contributes the lock-discipline design check",
        "model bounds: see tlc_runs (files/batches/W/R/capacities/ticks); readCh capacity is 1..2 in the model, 5 in the code",
        "pool replay: the probe holds 16+ contexts at once (E x 4-6 goroutines x chain depth); a pool created with more objects than that would not be drained (weaker, never a false alarm)",
        "time stage: all lines of a run are written in one layout (the documented use of the cached format); timestamp texts and keys come from TimeCal (C18) in UTC",
        "a name that cannot be opened is materialised as an absent file or as a directory; non-termination is reported only when it repeats with a tripled deadline",
    ]
    # ---- builds first (fail early), race build in the background of B3
    run.build_harness()
    t_b3 = time.time()

    # ---- B3: exhaustive model checking
    if quick:
        mcs = [("InA", 2, 2, 1, 1, 1, True), ("InA", 2, 1, 1, 2, 2, True), ("InB", 2, 1, 1, 1, 2, True), ("InE", 2, 1, 1, 1, 1, True),
               ("InM", 2, 1, 1, 1, 1, True), ("InN", 1, 2, 1, 1, 1, True), ("InO", 1, 2, 1, 1, 1, True), ("InP", 1, 1, 1, 1, 1, True)]
        flt = ("InB", 2, 1, 1, 1, 2)
    else:
        mcs = [("InA", 2, 2, 1, 1, 2, True), ("InA", 2, 1, 2, 2, 3, True), ("InB", 2, 1, 1, 2, 3, True),
               ("InC", 2, 2, 1, 1, 2, True), ("InD", 2, 2, 1, 2, 2, False), ("InE", 2, 2, 1, 1, 2, True),
               ("InC", 1, 3, 2, 1, 2, True), ("InD", 2, 2, 1, 2, 3, False),
               ("InM", 2, 1, 2, 2, 2, True), ("InN", 2, 2, 1, 2, 2, True), ("InO", 2, 2, 1, 1, 2, True), ("InO", 2, 3, 1, 1, 2, True),
               ("InP", 2, 1, 1, 1, 2, True)]
        flt = ("InA", 2, 2, 1, 1, 2)
    jobs = []
    for (f, w, r, b, rc, tk, live) in mcs:
        jobs.append(lambda f=f, w=w, r=r, b=b, rc=rc, tk=tk, live=live: (
            (f, w, r, b, rc, tk), run.tlc("AggLoop_MC", mc_cfg(f, w, r, b, rc, tk, live=live), workers=2 if quick else 4, timeout=3000, xmx="2g",
                                          coverage=(f == "InA" and r == 2 and rc == 1) or (f == "InM" and rc == 1),
                                          label="AggLoop %s W=%d R=%d BCap=%d RCap=%d ticks=%d%s" % (f, w, r, b, rc, tk, " +liveness" if live else ""))))
    for fault in FAULT_EXPECT:
        f, w, r, b, rc, tk = FAULT_CFG.get(fault, flt)
        jobs.append(lambda fault=fault, f=f, w=w, r=r, b=b, rc=rc, tk=tk: (
            fault, run.tlc("AggLoop_MC", mc_cfg(f, w, r, b, rc, tk, fault=fault, live=False), workers=1, timeout=3000, xmx="1g",
                           label="AggLoop fault=%s (must be rejected)" % fault)))
    jobs.append(lambda: ("lock", run.tlc("LockDiscipline", lock_cfg("TRUE", "format"), workers=1, xmx="1g", label="LockDiscipline (as fixed)")))
    jobs.append(lambda: ("lock", run.tlc("LockDiscipline", lock_cfg("TRUE", "pair1"), workers=1, xmx="1g",
                                         label="LockDiscipline (last conversion remembered in one cell)")))
    jobs.append(lambda: ("lock0", run.tlc("LockDiscipline", lock_cfg("FALSE", "format"), workers=1, xmx="1g",
                                          label="LockDiscipline (as originally read; must be rejected)")))
    jobs.append(lambda: ("lock2", run.tlc("LockDiscipline", lock_cfg("TRUE", "pair2"), workers=1, xmx="1g",
                                          label="LockDiscipline (last input / last result in two atomic cells; must be rejected)")))
    pools = list(POOL_MC)
    if not quick:
        pools += [("second Return when the condition turns false", "double", "for", "end", "loops", 2, False),
                  ("second Return in a funcs-file call", "double", "ff", "end", "ctx", 2, False)]
    for (lab, design, dh, dp, sel, e, hold) in pools:
        jobs.append(lambda lab=lab, design=design, dh=dh, dp=dp, sel=sel, e=e, hold=hold: (
            ("pool", lab, hold), run.tlc("PoolOwn", pool_cfg(design, dh, dp, sel, e, maxobj=4 if e == 2 else 6), workers=2, timeout=3000, xmx="2g",
                                         label="PoolOwn %s%s" % (lab, "" if hold else " (must be rejected)"))))
    for (memo, wk, w, nc, hold) in TIME_MC:
        jobs.append(lambda memo=memo, wk=wk, w=w, nc=nc, hold=hold: (
            ("time", memo + " " + wk, hold), run.tlc("TimeMemo_MC", time_cfg(memo, wk, w, nc), workers=1, timeout=3000, xmx="1g",
                                                     label="TimeMemo %s %s%s" % (memo, wk, "" if hold else " (must be rejected)"))))
    jobs.append(lambda: ("tlaps", tlaps(run, "AggMutex", threads=3)))
    for tag, r in parallel(jobs, 4):
        if tag == "tlaps":
            continue
        if isinstance(tag, tuple) and tag[0] in ("pool", "time"):
            kind, lab, hold = tag
            if hold:
                require_clean(run, r, "%s %s" % (kind, lab))
            else:
                want = "Own" if kind == "pool" else "KeyOK"
                if want not in r.violated:
                    raise Inconclusive("negative control %s %s was not refuted by %s (violated=%s)" % (kind, lab, want, r.violated))
            continue
        if tag == "lock":
            require_clean(run, r, "LockDiscipline")
        elif tag == "lock2":
            if "Grouped" not in r.violated:
                raise Inconclusive("LockDiscipline does not flag a memo kept in two separate atomic cells")
        elif tag == "lock0":
            if "Disciplined" not in r.violated:
                raise Inconclusive("LockDiscipline does not flag the original unguarded accesses")
        elif isinstance(tag, str):
            if not (set(r.violated) & FAULT_EXPECT[tag]):
                raise Inconclusive("seeded model fault %s was not rejected by %s (violated=%s)" % (tag, FAULT_EXPECT[tag], r.violated))
        else:
            require_clean(run, r, "AggLoop %s" % (tag,))
            if r.coverage:
                acts = ("EnvRel", "Claim", "RSend", "RDone", "CloseBatch", "WRecv", "WExit", "WSend", "CloseRead", "MRecv",
                        "MClosed", "MLock", "MSEnter", "MSExit", "MUnlock", "DoneRendezvous", "MFinalEnter", "MFinalExit",
                        "MRet", "TTick", "TRender", "TUnlock")
                if tag[0] == "InM":
                    acts = ("Claim", "ROpenFail", "RSend", "RDone", "CloseBatch")
                zero = [a for a, (n, _) in r.coverage.items() if n == 0 and a.split(".")[1] in acts and a.split(".")[1] != "EnvRel"]
                if zero:
                    raise Inconclusive("vacuous model: actions never taken: %s" % zero)
    run.cov["b3_wall_s"] = round(time.time() - t_b3, 1)

    # ---- B1: schedules simulated by TLC, replayed on the real loop
    gens = [("GenA", 2, 2, 1, 2, 3), ("GenB", 2, 2, 1, 2, 3), ("GenC", 2, 1, 2, 2, 3), ("GenD", 1, 2, 1, 1, 2),
            ("GenM", 2, 2, 1, 2, 2), ("GenN", 2, 2, 1, 2, 2), ("GenO", 1, 2, 1, 1, 2)]
    if not quick:
        gens += [("GenA", 1, 1, 1, 1, 3), ("GenB", 2, 3, 2, 2, 3), ("GenD", 2, 2, 2, 2, 3), ("GenM", 1, 1, 1, 1, 2), ("GenN", 2, 1, 2, 2, 3),
                 ("GenO", 2, 3, 1, 2, 2)]
    nsim = 120 if quick else 600
    outs = parallel([lambda g=g: run.tlc("AggLoop_Gen", gen_cfg(*g), workers=1, simulate="num=%d" % nsim, depth=400,
                                         timeout=600, xmx="1g", label="AggLoop_Gen %s W=%d R=%d" % (g[0], g[1], g[2])) for g in gens], 4)
    cands, seen = [], set()
    for r in outs:
        if r.violated or r.errors:
            raise Inconclusive("schedule generator failed: %s" % r.out[-2000:])
        for v in vfj_lines(r.out):
            script = normalise(v)
            key = json.dumps([v["files"], v["w"], v["r"], script])
            if key in seen:
                continue
            seen.add(key)
            total = {}
            for fl in v["files"]:
                for b in fl:
                    for k in b:
                        if k:
                            total[k] = total.get(k, 0) + 1
            if {int(k): n for k, n in v["final"] if n} != total or v["matched"] != sum(total.values()):
                raise Inconclusive("model's final render differs from the fold of its input: %s" % v)
            cands.append({"files": v["files"], "workers": v["w"], "readers": v["r"], "buf": v["bcap"],
                          "batch": max([len(b) for fl in v["files"] for b in fl] or [1]), "script": script,
                          "features": sorted(features(script, v["files"]))})
    if len(cands) < 50:
        raise Inconclusive("schedule generator produced only %d schedules" % len(cands))
    chosen = pick(cands, 42 if quick else 260, run.seed)
    life_vecs = {}   # one model run per input with unopenable names, for the CLI
    for c in cands:
        if "unopenable-names" in c["features"]:
            life_vecs.setdefault(json.dumps(c["files"]) + str(c["readers"]), c)
    scen = []
    for i, c in enumerate(chosen):
        scen.append({"t": i + 1, "src": "tlc", "mode": "files", "workers": c["workers"], "readers": c["readers"],
                     "batch": c["batch"], "buf": c["buf"], "files": c["files"], "script": c["script"],
                     "status": i % 2 == 0})
        if "unopenable-names" in c["features"]:
            scen[-1]["missing"] = "dir" if i % 3 == 2 else "absent"
        if "input-during-render" in c["features"]:
            scen[-1]["rsleep"] = {"*": 150}   # keep that render open well beyond the delivery
    featcount = {}
    for c in chosen:
        for f in c["features"]:
            featcount[f] = featcount.get(f, 0) + 1
    run.cov["b1_schedules"] = {"simulated_distinct": len(cands), "replayed": len(chosen), "features": featcount}
    # ---- B2: seeded delay scenarios
    seeded = os.path.join(run.scratch, "c05-seeded.ndjson")
    run.drv(["gen", "-n", 24 if quick else 160, "-out", seeded])
    for line in open(seeded):
        scen.append(json.loads(line))
    scen_path = os.path.join(run.scratch, "c05-scen.ndjson")
    with open(scen_path, "w") as f:
        for s in scen:
            f.write(json.dumps(s, separators=(",", ":")) + "\n")
    scen_by_t = {s["t"]: s for s in scen}

    def do_plain():
        return run_scenarios(run, scen_path, "plain", par=8)

    # ---- race clause: the same driver under the race detector (subset in quick), the stress, the CLI
    race_scen = os.path.join(run.scratch, "c05-race-scen.ndjson")
    sub = [s for s in scen if s["src"] != "tlc"][:8 if quick else 80] + [s for s in scen if s["src"] == "tlc"][:5 if quick else 60]
    with open(race_scen, "w") as f:
        for s in sub:
            f.write(json.dumps(s, separators=(",", ":")) + "\n")

    def do_race():
        run.build_harness(race=True)
        tr, m = run_scenarios(run, race_scen, "race", race=True, par=4)
        p = run.drv(["stress", "-ms", 2500 if quick else 40000, "-files", 40 if quick else 120, "-hang", 60], race=True,
                    env={"GORACE": "halt_on_error=0 exitcode=0"}, timeout=1500, check=False)
        if p.returncode == 7 and "C05-STRESS-HANG" in p.stderr:
            return tr, m, p, "hang"
        if p.returncode != 0 and "DATA RACE" not in p.stderr:
            if "panic:" in p.stderr or "fatal error:" in p.stderr:
                return tr, m, p, "crash"
            raise Inconclusive("stress driver failed (%d): %s" % (p.returncode, p.stderr[-3000:]))
        return tr, m, p, ""

    def do_cli():
        return cli_race(run, quick)

    def do_pool():
        return pool_histories(run, quick)

    def do_bulk():
        return bulk_runs(run, quick)

    (tr, m), (rtr, rm, sp, scrash), cli, pool_cov, (btr, bm, bvecs) = parallel([do_plain, do_race, do_cli, do_pool, do_bulk], 3)
    if scrash == "hang":
        # the stress reads small files from disk: a round that does not return within 90 s has hung; confirm once
        p2 = run.drv(["stress", "-ms", 1500, "-files", 40, "-hang", 120], race=True,
                     env={"GORACE": "halt_on_error=0 exitcode=0"}, timeout=1500, check=False)
        if p2.returncode == 7:
            path = run.save_replay("stress-hang.txt", p2.stderr[-40000:])
            run.violation("stress:hang", "the pipeline does not terminate although its input (small files on disk, two of them missing) "
                          "is exhausted: RunAggregationLoop did not return within 60 s and, run again, within 120 s", path)
        scrash = ""
    life = cli_life(run, life_vecs)
    bres, bn = judge_traces(run, btr, bm, "bulk", {v["t"]: v for v in bvecs})
    run.cov["bulk"] = {"runs": bn, "lines": bm.get("lines", 0), "events": bres["consumed"]}
    run.cov["pool"] = pool_cov
    run.cov["cli_termination_runs"] = life
    run.cov["evaluations"] += pool_cov["evaluations"] + life

    res, ntr = judge_traces(run, tr, m, "plain", scen_by_t)
    run.cov["distinct_nontrivial"] += sum(1 for s in scen if s["src"] != "tlc" or s.get("script"))
    run.cov["b1_schedules"]["realized_exactly"] = m["realized"]
    run.cov["b1_schedules"]["diverged"] = m["diverged"]
    with open(tr) as f:
        run.sample({"b2_trace_head": [json.loads(next(f)) for _ in range(6)]})
    run.sample({"b1_schedule": chosen[0]})
    rres, rntr = judge_traces(run, rtr, rm, "race", scen_by_t)
    nr = 0
    for rc in (rm.get("races") or []):
        nr += report_races(run, rc["report"], "driver-scenario-%d" % rc["t"])
    nr += report_races(run, sp.stderr, "stress")
    if scrash:
        path = run.save_replay("stress-crash.txt", sp.stderr[-20000:])
        run.violation("stress:crash", "the pipeline crashed under the race stress: %s" % sp.stderr[-400:], path)
    try:
        st = json.loads(sp.stdout.strip().splitlines()[-1])
    except Exception:
        st = {}
    run.cov["race"] = {"driver_runs_under_race": rntr, "stress": st, "cli_runs_under_race": cli["runs"], "reports": nr + cli["reports"]}
    run.cov["evaluations"] += st.get("rounds", 0) + cli["runs"]
    run.cov["rule"] = ("B3: all behaviours of AggLoop within the listed bounds incl. liveness/refinement, 5 seeded faults rejected; "
                       "B1: distinct TLC-simulated schedules replayed on the real loop (non-trivial = has a steering script); "
                       "B2: every recorded run validated against AggLoopObs; race clause: race-detector runs")


def poolgen_cfg(e, depth, npre):
    return ("SPECIFICATION GSpec\nCONSTANTS\n E = %d\n MaxDepth = %d\n PoolInit = 1\n MaxObj = %d\n Design = \"defer\"\n DH = \"for\"\n"
            " DP = \"limit\"\n WaySel = \"all\"\n NPre = %d\nINVARIANTS Promise Dump\nCHECK_DEADLOCK FALSE\n" % (e, depth, e * depth + 2, npre))


def pool_histories(run, quick):
    """PoolOwn_Gen histories replayed on the real pooled helpers (plain and under the race detector)."""
    import random
    cfgs = [(2, 2, 2)] if quick else [(2, 2, 2), (3, 2, 2)]
    hists, seen = [], set()
    for (e, d, npre) in cfgs:
        r = run.tlc("PoolOwn_Gen", poolgen_cfg(e, d, npre), workers=1, simulate="num=%d" % (400 if quick else 1500), depth=120,
                    timeout=900, xmx="1g", label="PoolOwn_Gen E=%d depth=%d" % (e, d))
        if r.violated or r.errors:
            raise Inconclusive("history generator failed: %s" % r.out[-2000:])
        for v in vfj_lines(r.out):
            key = json.dumps(v["hist"])
            if key in seen:
                continue
            seen.add(key)
            if not v["own"]:
                raise Inconclusive("PoolOwn_Gen produced a history that breaks its own promise")
            hists.append(v)
    rnd = random.Random(run.seed)
    rnd.shuffle(hists)
    # cover every way out in a prelude several times, then fill
    want = 70 if quick else 500
    need, chosen = {}, []
    for v in hists:
        ways = {(x["h"], x["path"]) for x in v["hist"][:next((i for i, x in enumerate(v["hist"]) if x["op"] == "probe"), 0)] if x["op"] == "in"}
        v["_ways"] = ways
    for v in hists:
        if len(chosen) < want and any(need.get(w, 0) < 4 for w in v["_ways"]):
            chosen.append(v)
            for w in v["_ways"]:
                need[w] = need.get(w, 0) + 1
    for v in hists:
        if len(chosen) >= want:
            break
        if v not in chosen:
            chosen.append(v)
    if len(need) < 11:
        raise Inconclusive("history generator did not cover every way out in a prelude: %s" % sorted(need))
    for i, v in enumerate(chosen):
        v["t"] = 300000 + i
    cov = {"simulated_distinct": len(hists), "replayed": len(chosen), "ways_out_in_preludes": {"%s/%s" % w: n for w, n in sorted(need.items())},
           "evaluations": 0, "max_held_at_once": 0, "race_replayed": 0}

    def replay(sub, label, race):
        todo = list(sub)
        for attempt in range(4):
            if not todo:
                return
            hp = os.path.join(run.scratch, "c05-pool-%s-%d.ndjson" % (label, attempt))
            op = os.path.join(run.scratch, "c05-pool-%s-%d-obs.ndjson" % (label, attempt))
            with open(hp, "w") as f:
                for v in todo:
                    f.write(json.dumps({k: x for k, x in v.items() if not k.startswith("_")}, separators=(",", ":")) + "\n")
            p = run.drv(["pool", "-in", hp, "-out", op, "-mult", 4 if quick else 6], race=race, timeout=1500, check=False,
                        env={"GORACE": "halt_on_error=0 exitcode=0"})
            obs = [json.loads(l) for l in open(op)] if os.path.exists(op) else []
            by_t = {v["t"]: v for v in todo}
            nbad = 0
            for o in obs:
                cov["evaluations"] += o["evals"]
                cov["max_held_at_once"] = max(cov["max_held_at_once"], o["holders"])
                if o["missing"] or o["foreign"]:
                    nbad += 1
                    if nbad <= 6:
                        path = run.save_replay("pool-%s-%d-%s.json" % (label, o["t"], o["phase"]), {"history": by_t[o["t"]]["hist"], "observed": o})
                        run.violation("pool:foreign-context",
                                      "history %d (%s, %d contexts held at once): a helper body found in its pooled context an element that is not "
                                      "its own evaluation's (PoolOwn: Own / NoForeign) - records owed but not seen %s, seen but owed by nobody %s; "
                                      "expressions %s" % (o["t"], o["phase"], o["holders"], o["missing"][:4], o["foreign"][:4], o["exprs"][:2]), path)
                elif o.get("infra"):
                    raise Inconclusive("pool replay: %s (history %d)" % (o["infra"], o["t"]))
            if race:
                report_races(run, p.stderr, "pool-histories")
            if p.returncode == 0:
                return
            marks = re.findall(r"pool: history (\d+)", p.stderr)
            if not marks or not ("fatal error:" in p.stderr or "panic:" in p.stderr) or "rare/pkg/" not in p.stderr:
                raise Inconclusive("pool driver failed (%d): %s" % (p.returncode, p.stderr[-3000:]))
            t = int(marks[-1])
            first = next((l for l in p.stderr.splitlines() if l.startswith(("fatal error:", "panic:"))), "crash")
            path = run.save_replay("pool-%s-crash-%d.txt" % (label, t), json.dumps(by_t[t]["hist"]) + "\n" + p.stderr[:12000])
            run.violation("pool:crash", "history %d: the real helpers crashed while the evaluations of the history ran (%s): a pooled "
                          "context that is its own parent / shared between evaluations" % (t, first), path)
            todo = [v for v in todo if v["t"] > t]

    replay(chosen, "plain", False)
    sub = chosen[:16 if quick else 120]
    cov["race_replayed"] = len(sub)
    replay(sub, "race", True)
    run.cov["traces_validated_against_impl"] += len(chosen) + len(sub)
    run.sample({"pool_history": {k: x for k, x in chosen[0].items() if not k.startswith("_")}})
    return cov


def bulk_runs(run, quick):
    """TimeMemo_Gen vectors: many lines with alternating timestamps in several workers, judged by AggLoop_Trace."""
    r = run.tlc("TimeMemo_Gen", "SPECIFICATION Spec\nINVARIANTS Dump\nCHECK_DEADLOCK FALSE\n", workers=1, timeout=600, xmx="1g",
                label="TimeMemo_Gen (timestamp texts and demanded keys from TimeCal)")
    if r.violated or r.errors:
        raise Inconclusive("TimeMemo_Gen failed: %s" % r.out[-2000:])
    base = vfj_lines(r.out)
    if len(base) < 8:
        raise Inconclusive("TimeMemo_Gen produced %d vectors" % len(base))
    vecs = []
    reps = 1 if quick else 4
    for rep in range(reps):
        for i, v in enumerate(base):
            if quick and (i + run.seed) % 2:
                continue
            j = i + rep + run.seed
            vecs.append(dict(v, src="tlc:bulk", t=200000 + len(vecs), lines=40000 if quick else 60000, workers=2 + j % 4, batch=3 + (j * 5) % 17,
                             files=1 + j % 3, readers=1 + j % 3, maxrun=10 + (j * 7) % 50, salt=run.seed * 100 + rep))
    vp = os.path.join(run.scratch, "c05-bulk-vec.ndjson")
    with open(vp, "w") as f:
        for v in vecs:
            f.write(json.dumps(v, separators=(",", ":")) + "\n")
    tr = os.path.join(run.scratch, "c05-bulk-trace.ndjson")
    meta = os.path.join(run.scratch, "c05-bulk-meta.json")
    run.drv(["bulk", "-in", vp, "-out", tr, "-meta", meta], timeout=1500)
    m = json.load(open(meta))
    m["hangs"] = m.get("hangs") or []
    run.sample({"bulk_vector": {k: vecs[0][k] for k in ("expr", "layout", "lines", "workers", "batch", "files")}})
    return tr, m, vecs


def cli_life(run, life_vecs):
    """the real CLI on inputs with unopenable names (model runs of AggLoop_Gen with Missing files): it must terminate and show the model's
    final counts.  A run that does not end is confirmed with a tripled deadline before it is reported."""
    exe = run.build_cli()
    n = nhang = 0
    for idx, c in enumerate(sorted(life_vecs.values(), key=lambda c: json.dumps(c["files"]))):
        for variant in ("absent", "dir"):
            d = os.path.join(run.scratch, "life-%d-%s" % (idx, variant))
            os.makedirs(d, exist_ok=True)
            names, total = [], {}
            for f, fl in enumerate(c["files"]):
                p = os.path.join(d, "in%02d.log" % f)
                if not fl:
                    p = os.path.join(d, "gone%02d.log" % f)
                    if variant == "dir":
                        os.makedirs(p, exist_ok=True)
                else:
                    with open(p, "w") as fh:
                        for b, bt in enumerate(fl):
                            for j, k in enumerate(bt):
                                fh.write(("key%d payload %d.%d.%d\n" % (k, f, b, j)) if k else "zzz nomatch\n")
                                if k:
                                    total["key%d" % k] = total.get("key%d" % k, 0) + 1
                names.append(p)
            cmd = [exe, "histo", "-m", r"^(key\d+) ", "-e", "{1}", "--readers", str(c["readers"]), "--batch", str(c["batch"]), "-w", str(c["workers"])] + names
            if nhang >= 2:
                break       # two confirmed hangs decide; every further one costs two minutes
            out = None
            for deadline in (30, 90):
                try:
                    p = subprocess.run(cmd, capture_output=True, text=True, timeout=deadline, env=GOENV, cwd=d, stdin=subprocess.DEVNULL)
                    out = p
                    break
                except subprocess.TimeoutExpired:
                    continue
            n += 1
            if out is None:
                nhang += 1
                path = run.save_replay("cli-hang-%d-%s.json" % (idx, variant), {"cmd": cmd, "files": c["files"], "readers": c["readers"]})
                run.violation("cli:hang", "rare histo --readers %d over %s (names that cannot be opened: %s) did not terminate within 30 s and, "
                              "run again, within 90 s, although every input is exhausted" % (
                                  c["readers"], ["unopenable" if not fl else "file" for fl in c["files"]], variant), path)
                continue
            if "panic:" in out.stderr or "fatal error:" in out.stderr:
                path = run.save_replay("cli-life-crash-%d.txt" % idx, " ".join(cmd) + "\n" + out.stderr[-20000:])
                run.violation("cli:crash", "rare histo crashed on unopenable names: %s" % out.stderr[-300:], path)
                continue
            shown = {}
            for line in out.stdout.splitlines():
                mm = re.match(r"^(key\d+)\s+([\d,]+)\b", line.strip())
                if mm:
                    shown[mm.group(1)] = int(mm.group(2).replace(",", ""))
            if shown != total:
                path = run.save_replay("cli-life-%d-%s.json" % (idx, variant), {"cmd": cmd, "stdout": out.stdout[-4000:], "stderr": out.stderr[-2000:], "want": total})
                run.violation("cli:final-counts", "rare histo over files with unopenable names shows %s, the model's final render is %s" % (shown, total), path)
    return n


def cli_race(run, quick):
    """the real CLI built with -race on many small files (status line during file turnover) and on a slow stdin"""
    exe = run.build_cli(race=True)
    d = os.path.join(run.scratch, "cli")
    os.makedirs(d, exist_ok=True)
    import random
    rnd = random.Random(run.seed)
    names = []
    for i in range(150 if quick else 600):
        p = os.path.join(d, "f%04d.log" % i)
        with open(p, "w") as f:
            for j in range(rnd.randint(200, 1200)):
                f.write("key%d payload %d 2024-01-0%dT00:00:00Z %d\n" % (rnd.randint(0, 9), j, rnd.randint(1, 9), rnd.randint(0, 99)))
        names.append(p)
    env = dict(GOENV)
    env["GORACE"] = "halt_on_error=0 exitcode=0"
    cmds = [
        [exe, "histo", "-m", r"^(key\d+) ", "-e", "{1}", "--batch", "50", "--readers", "3"] + names,
        [exe, "table", "-m", r"^(key\d+) payload (\d+) (\S+) (\d+)", "-e", "{1}", "-e", "{timeformat {time {3}} \"01-02\"}",
         "--batch", "40", "--readers", "4", "-w", "4"] + names[:len(names) // 2],
    ]
    if not quick:
        cmds.append([exe, "bars", "-m", r"^(key\d+) payload (\d+) (\S+) (\d+)", "-e", "{1}", "-e", "{bucket {4} 10}",
                     "--batch", "30", "-w", "6"] + names)
        cmds.append([exe, "analyze", "-m", r" (\d+)$", "-e", "{1}", "--batch", "25"] + names)
    reports, runs = 0, 0
    for c in cmds:
        try:
            p = subprocess.run(c, capture_output=True, text=True, timeout=600, env=env, cwd=d)
        except subprocess.TimeoutExpired:
            raise Inconclusive("CLI under -race timed out: %s" % c[:6])
        runs += 1
        if p.returncode != 0 and "DATA RACE" not in p.stderr:
            if "panic:" in p.stderr or "fatal error:" in p.stderr:
                path = run.save_replay("cli-crash-%d.txt" % runs, " ".join(c[:12]) + "\n" + p.stderr[-20000:])
                run.violation("cli:crash", "rare %s crashed: %s" % (c[1], p.stderr[-300:]), path)
                continue
            raise Inconclusive("CLI run failed (%d): %s\n%s" % (p.returncode, c[:8], p.stderr[-2000:]))
        reports += report_races(run, p.stderr, "cli-" + c[1])
    # slow stdin: several ticks fire while the reader is idle / mid-batch
    c = [exe, "histo", "-m", r"^(key\d+) ", "-e", "{1}", "--batch", "3"]
    try:
        pr = subprocess.Popen(c, stdin=subprocess.PIPE, stdout=subprocess.PIPE, stderr=subprocess.PIPE, text=True, env=env, cwd=d)
        for i in range(12):
            pr.stdin.write("key%d payload\n" % (i % 3) * (1 + i % 4))
            pr.stdin.flush()
            time.sleep(0.04)
        pr.stdin.close()
        out = pr.stdout.read()
        err = pr.stderr.read()
        pr.wait(timeout=120)
    except subprocess.TimeoutExpired:
        pr.kill()
        raise Inconclusive("CLI with slow stdin did not terminate in 120 s")
    runs += 1
    reports += report_races(run, err, "cli-stdin")
    return {"runs": runs, "reports": reports}

"""C16 - JSON views of a match ({.}, {#}, {.#}) are valid, faithful and deterministic."""
import json
import os
import re
from vf import Inconclusive, parallel, require_clean, validate_traces, vfj_lines, b2s

CLAIM = {
    "text": "MiniJson.tla is a recogniser and decoder for flat JSON objects over byte sequences (RFC 8259: string escapes incl. \\uXXXX and "
            "surrogate pairs, raw control characters invalid, number grammar without leading zeros, true/false/null) together with the "
            "requirement Meets(out, Expected(names, groups, view)): the text is one valid object, its keys are distinct, every member is a "
            "demanded one (named groups for {.}, numbered groups for {#}, both for {.#}) and decodes to the captured text - as a correctly "
            "escaped string (ill-formed UTF-8 only up to U+FFFD replacement), as a JSON number of equal numeric value, or as true/false for "
            "an ASCII spelling of true/false - and every non-empty capture has its member. MiniJsonEnc.tla models the encoder as the code is "
            "written (escape table and rune loop, isNumeric, inference, builder separators, named groups in group order then non-empty "
            "numbered groups). TLC proves on the model: Valid(Encode(m)) and Decode(Encode(m)) = m for every value over the alphabet "
            "{a \" \\ 0x01 0x1f LF e-acute 0xff 0 7 . - e +} up to the bound, the encoder meets the requirement for 1..3 groups x every "
            "choice of named groups x the three views, the number recogniser equals an independent statement of the RFC grammar and "
            "'equal value' equals exact numeric equality, the UTF-8 table equals the arithmetic definition, every single byte is escaped "
            "exactly when it must be. TLC enumerates the inputs (all values up to the bound, a seeded slice one symbol longer, directed "
            "texts, 1..3 groups x named subsets x views); the real code evaluates them through minijson, extractor.New with regex and "
            "dissect matchers (every match with two or more named groups 50 times in one instance plus fresh instances and fresh "
            "processes) and the recorded output BYTES, plus seeded random captures of up to 200 bytes and `rare histogram/filter/"
            "expression` runs in fresh processes, are validated by TLC against the requirement; all texts of one match must be equal and "
            "identical lines must form ONE histogram group. The TLA+ recogniser/decoder itself is cross-checked against encoding/json "
            "on every recorded text and on mutated texts. "
            "HISTORIES: MiniJsonHist.tla states the property over whole histories of evaluations by a long-lived evaluator - every text "
            "meets the requirement for the captures of ITS match and matches with equal captures and view carry equal texts (the text is a "
            "function of the captures only, not of source, line number, worker or earlier evaluations). MiniJsonCtx.tla models the "
            "extractor's workers, each owning one expression context that is reused for every line of every source (line numbers restart "
            "per source), batches handed to any idle worker, the ignore set and the extraction evaluating views on the same context; TLC "
            "proves the history law for the context as written and for memoisation keyed by the captures or by (source, line), and REFUTES "
            "it for memoisation keyed by the line number alone (negative control: the counterexample gives one worker two sources back to "
            "back; the classifier names it stale-view). TLC-enumerated multi-source scenarios and seeded random ones run through "
            "extractor.New with one and with several workers, with and without a recording ignore set, and `rare filter` runs over several "
            "files; the recorded histories are validated by TLC with the same law. A panic of the real code is recorded as an observation "
            "(recovered inside the worker through the ignore-set hook, or the death of a rare process) and is a violation.",
    "note": "Demanded: byte-level JSON syntax (as encoding/json.Valid); UTF-8 well-formedness of the output is NOT demanded when a capture "
            "holds ill-formed bytes (counted in the evidence). A member for an empty capture may be present or absent; member order is "
            "free (only stability is demanded). Group names outside [A-Za-z_][A-Za-z0-9_]* (dissect allows any text; numeric names collide "
            "with numbered members) are outside the domain. 'Equal value' for numbers is exact decimal equality for exponents of at most "
            "6 digits, otherwise identical spelling. Bounded: exhaustive only within the stated alphabet/length; beyond it seeded random. "
            "Trusted: TLC, Go runtime, encoding/csv for reading the histogram table.",
    "technique": "TLA+ functional specification model-checked with TLC (round-trip and grammar laws, refinement of the requirement by the "
                 "implementation-shaped encoder) + model-generated inputs replayed on the real code + TLC validation of recorded output bytes",
}

ALL_LAWS = '{"value", "views", "number", "numeq", "utf8seq", "utf8cp", "byte", "syntax"}'


def mc_cfg(n, numlen, pool3):
    return ("INIT Init\nNEXT Next\nCONSTANTS N = %d\n NumLen = %d\n Pool3 = %d\n Laws = %s\nINVARIANTS LawOK\nCHECK_DEADLOCK FALSE\n"
            % (n, numlen, pool3, ALL_LAWS))


def gen_cfg(n, seed, slices, pool3, hpool):
    return ("INIT Init\nNEXT Next\nCONSTANTS N = %d\n Seed = %d\n Slices = %d\n Pool3 = %d\n HPool = %d\nINVARIANTS Dump\nCHECK_DEADLOCK FALSE\n"
            % (n, seed, slices, pool3, hpool))


def ctx_cfg(caches, invariants, lines="MCLines2", views="MCViews2", nsrc=2, maxlen=2, maxtotal=3, workers=2, maxeval=2):
    return ("INIT Init\nNEXT Next\nCONSTANTS Names <- MCNames\n Lines <- %s\n NSrc = %d\n MaxLen = %d\n MaxTotal = %d\n NWorkers = %d\n"
            " Views <- %s\n MaxEval = %d\n Caches = {%s}\nINVARIANTS %s\nCHECK_DEADLOCK FALSE\n"
            % (lines, nsrc, maxlen, maxtotal, workers, views, maxeval, ", ".join('"%s"' % c for c in caches), " ".join(invariants)))


class RealCrash(Exception):
    """a driver process died from a panic raised inside rare's own code (not recovered by the driver)"""


def _drv(run, args, **kw):
    try:
        return run.drv(args, **kw)
    except Inconclusive as e:
        msg = str(e)
        m = re.search(r"^(panic: .*|fatal error: .*)$", msg, re.M)
        if m:
            # the first frame below the runtime's own: is it rare's code?
            frames = [ln for ln in msg[m.end():].splitlines() if re.match(r"^[\w./*()\[\]-]+\(", ln) and not ln.startswith(("runtime.", "panic(", "internal/"))]
            if frames and frames[0].startswith(("rare/pkg/", "rare/cmd/")):
                raise RealCrash("%s in %s (driver %s)\n%s" % (m.group(1), frames[0].split("(")[0], args[0], msg[m.start():m.start() + 1500]))
        raise


def _canaries(rec):
    """deliberately corrupted copies of a real, accepted-looking record; each must be rejected by TLC"""
    out = []
    if rec["k"] == "hist" and "crash" not in rec:
        evs = rec["evs"]
        pair = next(((i, j) for i in range(len(evs)) for j in range(i + 1, len(evs))
                     if evs[i]["groups"] != evs[j]["groups"] and evs[i]["out"] != evs[j]["out"]
                     and not evs[i]["crash"] and not evs[j]["crash"]), None)
        if pair:                                         # the text of another match of the history
            a = json.loads(json.dumps(rec))
            a["evs"][pair[1]]["out"] = a["evs"][pair[0]]["out"]
            a["evs"][pair[1]]["gov"] = a["evs"][pair[0]]["gov"]
            a["canary"] = "stale-view"
            out.append(a)
        if evs and not evs[0]["crash"] and bytes(evs[0]["out"]) != b"{}":
            b = json.loads(json.dumps(rec))              # the same match once more, with another (acceptable) text
            e2 = json.loads(json.dumps(evs[0]))
            e2["out"] = e2["out"][:-1] + [32, 125]
            b["evs"].append(e2)
            b["canary"] = "nondeterministic"
            out.append(b)
            c = json.loads(json.dumps(rec))              # an evaluation that did not return
            c["evs"][-1]["crash"] = True
            c["canary"] = "crash"
            out.append(c)
        return out
    if rec["k"] not in ("view", "ops") or "crash" in rec or bytes(rec["out"]) == b"{}" or rec["alts"]:
        return out
    a = json.loads(json.dumps(rec))
    a["out"] = a["out"] + [125]                      # trailing brace: not one object
    a["gov"] = False
    a["canary"] = "invalid"
    out.append(a)
    b = json.loads(json.dumps(rec))
    if rec["k"] == "view":
        b["groups"] = [g + [120] for g in b["groups"]]   # every capture differs from what was written
    else:
        for o in b["ops"]:
            o["val"] = o["val"] + [120]
    b["canary"] = "unfaithful"
    out.append(b)
    if rec["k"] == "view" or rec.get("det"):
        c = json.loads(json.dumps(rec))
        c["alts"] = [c["out"][:-1] + [32, 125]]         # a second text for the same match
        c["canary"] = "nondeterministic"
        out.append(c)
    return out


def _describe(rec, i=0):
    if "crash" in rec:
        what = {"view": "evaluating a view of the match with groups %s" % [b2s(g) for g in rec.get("groups", [])],
                "ops": "builder calls %s" % [(o["op"], bytes(o["key"]).decode("latin1"), b2s(o["val"])) for o in rec.get("ops", [])],
                "hist": "rare %s" % " ".join(rec.get("argv", [])[:8]),
                "histo": "rare histogram -e {.} over lines with groups %s" % [b2s(g) for g in rec.get("groups", [])],
                "mhisto": "rare %s" % " ".join(rec.get("argv", [])[:8])}[rec["k"]]
        return "%s (%s) did not return a text - the real code panicked: %s" % (what, rec.get("src", "cli"), rec["crash"])
    if rec["k"] == "hist":
        e = rec["evs"][i - 1]
        view = ("." if e["named"] else "") + ("#" if e["numbered"] else "")
        how = ("rare %s" % " ".join(rec["argv"][:10])) if rec.get("argv") else (
            "extractor.New with %d worker(s), %d sources, batches of %s line(s), ignore set evaluating a view %d time(s) first"
            % (rec["workers"], rec["sources"], rec["batch"] or "all", rec["probes"]))
        if e["crash"]:
            return "%s: the evaluation of {%s} for source %d line %d (groups %s) panicked: %s" % (
                how, view, e["s"], e["line"], [b2s(g) for g in e["groups"]], rec.get("panics", ["?"])[:1])
        others = ["source %d line %d groups %s -> %s" % (o["s"], o["line"], [b2s(g) for g in o["groups"]], b2s(o["out"]))
                  for k, o in enumerate(rec["evs"]) if k != i - 1 and (o["out"] == e["out"]) != (o["groups"] == e["groups"])][:2]
        return "%s: {%s} (%s phase) for source %d line %d with groups %s and names %s gave %s; in the same history: %s" % (
            how, view, e["phase"], e["s"], e["line"], [b2s(g) for g in e["groups"]],
            [(bytes(n[0]).decode("latin1"), n[1]) for n in rec["names"]], b2s(e["out"]), others)
    if rec["k"] == "mhisto":
        return "rare %s over files whose distinct matches are %s reported %d groups: %s" % (
            " ".join(rec["argv"][:9]), [([b2s(g) for g in c["groups"][1:]], c["count"]) for c in rec["classes"]], rec["ngroups"],
            [(b2s(r[0]), r[1]) for r in rec["rows"]][:5])
    if rec["k"] == "view":
        view = ("." if rec["named"] else "") + ("#" if rec["numbered"] else "")
        s = "match with groups %s and names %s evaluated with {%s} (%s, %d evaluations) gave %s" % (
            [b2s(g) for g in rec["groups"]], [(bytes(n[0]).decode("latin1"), n[1]) for n in rec["names"]], view, rec["src"],
            rec["evals"], b2s(rec["out"]))
    elif rec["k"] == "ops":
        s = "builder calls %s (%s, %d evaluations) gave %s" % (
            [(o["op"], bytes(o["key"]).decode("latin1"), b2s(o["val"])) for o in rec["ops"]], rec["src"], rec["evals"], b2s(rec["out"]))
    else:
        s = "rare histogram -e {.} over %d identical lines (groups %s) reported %d groups: %s" % (
            rec["lines"], [b2s(g) for g in rec["groups"]], rec["ngroups"], [(b2s(r[0]), r[1]) for r in rec["rows"]][:4])
    if rec.get("alts"):
        s += "; other texts for the same match: %s" % [b2s(a) for a in rec["alts"][:3]]
    return s


def check(run):
    try:
        _check(run)
    except Inconclusive:
        raise
    except Exception as e:  # infrastructure trouble is never a verdict
        import traceback
        raise Inconclusive("c16 check failed: %s\n%s" % (e, traceback.format_exc()))


def _check(run):
    quick = run.tier == "quick"
    run.assumptions += [
        "validity is JSON syntax at the byte level (RFC 8259 grammar, as encoding/json.Valid decides it); when a capture holds ill-formed "
        "UTF-8 the output may carry those bytes or U+FFFD - UTF-8 well-formedness of the output is not demanded (counted: outputs_not_utf8)",
        "a member for an EMPTY capture (empty or non-participating group) may be present or absent; member order is free - only that the "
        "same match always gives the same text is demanded",
        "domain: group names are distinct identifiers [A-Za-z_][A-Za-z0-9_]* (what Go regexp allows minus all-digit names; dissect names "
        "with quotes/backslashes/control characters or numeric names are outside the domain)",
        "numbers: a JSON number member stands for a capture of equal numeric value (007 may be the string \"007\" or the number 7, never "
        "the bare 007); exact decimal equality for exponents of at most 6 digits, otherwise identical spelling; true/false only for ASCII "
        "spellings of true/false in any letter case; null is never acceptable",
        "rare expression -d/-k (cmd/expressions.go) is checked as a direct use of the builder: members 0..n-1 for -d, the -k pairs",
        "histories: the sources of one run have distinct names and (source, line number) is never handed out twice with different "
        "content (so memoisation keyed by source AND line would be acceptable); which worker evaluates which batch is not observed "
        "and not demanded - only that every text belongs to the captures of its own match, whatever the schedule",
        "a panic is a violation for every input (also outside the domain of identifier names); it is observed through the ignore-set "
        "hook of extractor.Config (recover inside the worker goroutine), through recover around direct builder calls, and as the "
        "death of a `rare` process with a Go panic on stderr",
    ]
    run.build_harness()
    rare = run.build_cli()
    sc = run.scratch
    N, slices, pool3, hpool = (3, 8, 5, 3) if quick else (4, 8, 9, 4)

    # ---- B3: the laws of the property on the model
    def b3():
        r = run.tlc("MiniJson_MC", mc_cfg(N, 5 if quick else 6, pool3), workers=2 if quick else 4, timeout=3000,
                    label="MiniJson_MC laws N=%d Pool3=%d" % (N, pool3))
        require_clean(run, r, "MiniJson_MC (laws)")
        if r.distinct < (30000 if quick else 150000):
            raise Inconclusive("law check explored only %d cases" % r.distinct)
        return r

    # ---- B3 (histories): the long-lived context; memoisation keyed by the line number must be refuted
    def b3ctx():
        big = dict(lines="MCLines2", views="MCViews2", maxtotal=3) if quick else dict(lines="MCLines3", views="MCViews2", maxtotal=4)
        good = ["HistoryLaw", "RendersFromCaptures", "ClassAgree", "LinesUnique", "PoolSeparate", "KeysSeparate"]
        accepted = ("none", "captures", "srcline")
        jobs = [lambda: run.tlc("MiniJsonCtx", ctx_cfg(accepted, good, **big), workers=2 if quick else 6, timeout=3000,
                                label="MiniJsonCtx Caches=none,captures,srcline"),
                lambda: run.tlc("MiniJsonCtx", ctx_cfg(("line",), ["HistoryLaw"], **big), workers=2, timeout=3000,
                                label="MiniJsonCtx Caches=line (negative control: must be refuted)"),
                lambda: run.tlc("MiniJsonCtx", ctx_cfg(("line",), ["ClassAgree", "StaleNamed", "LinesUnique"], maxtotal=3 if quick else 4),
                                workers=2, timeout=3000, label="MiniJsonCtx Caches=line classifier")]
        if not quick:   # three one-line sources, all three views, a pool of four lines
            jobs.append(lambda: run.tlc("MiniJsonCtx", ctx_cfg(accepted, good, lines="MCLines4", views="MCViews3", nsrc=3, maxlen=1, maxtotal=3),
                                        workers=4, timeout=3000, label="MiniJsonCtx 3 sources x 1 line, 3 views"))
        rs = parallel(jobs, 4)
        for r in rs[3:]:
            require_clean(run, r, "MiniJsonCtx (3 sources)")
        require_clean(run, rs[0], "MiniJsonCtx (accepted variants)")
        if rs[0].distinct < 10000:
            raise Inconclusive("MiniJsonCtx explored only %d states" % rs[0].distinct)
        neg = rs[1]
        if neg.errors and not neg.violated:
            raise Inconclusive("negative control failed to run: %s" % neg.errors[:3])
        if "HistoryLaw" not in neg.violated:
            raise Inconclusive("negative control: the model with a view cache keyed by the line number was NOT refuted\n%s" % neg.out[-1500:])
        require_clean(run, rs[2], "MiniJsonCtx Caches=line classifier")
        run.cov["ctx_model"] = {"accepted_variants_states": rs[0].distinct,
                                "negative_control": "Caches={line}: HistoryLaw violated after %d states; classifier names it stale-view on %d states"
                                                    % (neg.distinct, rs[2].distinct)}

    def validate(tag, lines, k):
        """TLC validation of recorded lines (+ canaries) in k interleaved chunks; returns [(records, result)]"""
        real = len(lines)
        lines = list(lines)
        step = max(1, real // 300)
        for ln in lines[:real:step]:                  # corrupted copies of real records: TLC must reject every one
            for c in _canaries(json.loads(ln)):
                lines.append(json.dumps(c, separators=(",", ":")))
        chunks = []
        for i in range(k):
            part = lines[i::k]                        # interleaved: every chunk gets the same mix
            if not part:
                continue
            pth = os.path.join(sc, "c16-%s-chunk-%d.ndjson" % (tag, i))
            with open(pth, "w") as f:
                f.write("\n".join(part) + "\n")
            chunks.append((part, pth))
        res = parallel([lambda p=pth, i=i: validate_traces(run, "MiniJson_Trace", p, label="MiniJson_Trace %s chunk %d" % (tag, i),
                                                           timeout=3000, xmx="3g") for i, (_, pth) in enumerate(chunks)], k)
        return [(part, r) for (part, _), (r, _) in zip(chunks, res)]

    # ---- B1: TLC enumerates the inputs, the real code evaluates them, TLC validates the recorded bytes
    def b1():
        r = run.tlc("MiniJson_Gen", gen_cfg(N, run.seed, slices, pool3, hpool), workers=3 if quick else 4, timeout=3000,
                    label="MiniJson_Gen N=%d slice %d/%d Pool3=%d" % (N, run.seed % slices, slices, pool3))
        if r.violated or r.errors or not r.finished:
            raise Inconclusive("generator failed: %s" % r.out[-2000:])
        vec = os.path.join(sc, "c16-vectors.ndjson")
        nvec = 0
        with open(vec, "w") as f:
            for v in vfj_lines(r.out):
                f.write(json.dumps(v, separators=(",", ":")) + "\n")
                nvec += 1
        r.out = ""
        if nvec < (10000 if quick else 60000):
            raise Inconclusive("generator produced only %d vectors" % nvec)
        tr = os.path.join(sc, "c16-b1.ndjson")
        st = os.path.join(sc, "c16-b1-stats.json")
        _drv(run, ["replay", "-in", vec, "-out", tr, "-stats", st, "-reps", 50, "-fresh", 3,
                 "-procevery", 150 if quick else 400, "-procs", 12])
        return json.load(open(st)), validate("b1", open(tr).read().splitlines(), 4 if quick else 6)

    # ---- B2: seeded random captures, the command line; cross-validation samples for the specification
    def b2():
        tr = os.path.join(sc, "c16-b2.ndjson")
        p = _drv(run, ["trace", "-out", tr, "-n", 2000 if quick else 30000, "-ops", 1000 if quick else 12000,
                       "-xv", 3000 if quick else 40000, "-reps", 50, "-hist", 240 if quick else 6000])
        tstat = json.loads(p.stdout.strip().splitlines()[-1])
        cli = os.path.join(sc, "c16-cli.ndjson")
        p = _drv(run, ["cli", "-rare", rare, "-out", cli, "-dir", sc, "-histo", 6 if quick else 30, "-filter", 6 if quick else 24,
                       "-expr", 6 if quick else 24, "-procs", 8 if quick else 12, "-lines", 300, "-multi", 9 if quick else 60, "-mhisto", 5 if quick else 30])
        cstat = json.loads(p.stdout.strip().splitlines()[-1])
        return tstat, cstat, validate("b2", open(tr).read().splitlines() + open(cli).read().splitlines(), 3 if quick else 4)

    try:
        if quick:
            _, _, (bstat, v1), (tstat, cstat, v2) = parallel([b3, b3ctx, b1, b2], 4)
        else:
            (tstat, cstat, v2), _, _ = parallel([b2, b3, b3ctx], 3)
            bstat, v1 = b1()
    except RealCrash as e:
        # the driver could not recover this panic (it was raised in a goroutine of the real code): the observation is the crash
        run.violation("process:crash", "rare's code panicked while evaluating JSON views: %s" % e, {"stderr": str(e)})
        run.cov["traces_validated_against_impl"] += 1
        run.sample({"crash": str(e)[:300]})
        return

    if bstat["setup_mismatches"]:
        raise Inconclusive("the driver could not set up %d generated matches as specified: %s" % (
            bstat["setup_mismatches"], json.dumps(bstat["setup"])[:1500]))
    bstat_small = {k: v for k, v in bstat.items() if k not in ("samples", "setup")}
    if bstat["multi_named_vectors"] < 500 or tstat["matches"] < 1000 or bstat["hist_runs"] < 1500 or tstat["hist_runs"] < 200 \
            or cstat["multi_file_events"] < 40 or cstat["multi_file_histograms"] < 8:
        raise Inconclusive("replay too small: %s %s %s" % (bstat_small, tstat, cstat))
    if bstat["fresh_process_runs"] < 24 and not bstat["crashes"]:
        raise Inconclusive("replay too small: %s" % bstat_small)

    consumed = canary = canary_rejected = real = 0
    stat = {"indomain": 0, "nonutf8": 0, "numbers": 0, "bools": 0}
    specbad = []
    counts = {}
    last = []
    for part, r in v1 + v2:
        if r["consumed"] != len(part) or not r["done"]:
            raise Inconclusive("trace chunk: consumed %d of %d records" % (r["consumed"], len(part)))
        consumed += r["consumed"]
        for key in stat:
            stat[key] += r["stat"][key]
        for sb in r["specbad"]:
            if '"canary":' not in part[sb["l"] - 1]:
                specbad.append((json.loads(part[sb["l"] - 1]), sb["class"]))
        rejected = {b["l"] for b in r["bad"]}
        for pos, ln in enumerate(part, 1):
            if '"canary":' in ln:
                canary += 1
                canary_rejected += pos in rejected
            else:
                real += 1
        for b in r["bad"]:
            rec = json.loads(part[b["l"] - 1])
            if "canary" in rec:
                continue
            sig = "%s:%s" % (b["src"], b["class"])
            counts[sig] = counts.get(sig, 0) + 1
            run.violation(sig, "%s - MiniJson.tla rejects it: %s" % (_describe(rec, b.get("i", 0)), b["class"]), rec)
        last = [ln for ln in part if '"canary":' not in ln][-2:]
    if specbad:
        rec, cl = specbad[0]
        raise Inconclusive("the TLA+ recogniser/decoder disagrees with encoding/json on %d texts (specification problem, class %s): %s" % (
            len(specbad), cl, json.dumps(rec)[:600]))
    # a few corruptions are legitimately acceptable (e.g. a capture whose faithful reading is only demanded up to U+FFFD), so the
    # self-test asks for nearly all, not all
    if canary < 100 or canary_rejected * 100 < canary * 95:
        raise Inconclusive("trace validation rejected only %d of %d deliberately corrupted records" % (canary_rejected, canary))

    nrec = real
    run.cov["b1"] = {k: bstat[k] for k in ("vectors", "val_vectors", "records", "evaluations", "multi_named_vectors",
                                            "fresh_process_runs", "differs_from_model", "hist_vectors", "hist_runs", "hist_events", "crashes")}
    run.cov["b2"] = {"random": tstat, "cli": cstat}
    run.cov["records_validated"] = nrec
    run.cov["corrupted_records_rejected"] = "%d of %d" % (canary_rejected, canary)
    run.cov["records_inside_domain"] = stat["indomain"]
    run.cov["outputs_not_utf8"] = stat["nonutf8"]
    run.cov["members_written_as_numbers"] = stat["numbers"]
    run.cov["members_written_as_booleans"] = stat["bools"]
    run.cov["violation_counts"] = counts
    run.cov["traces_validated_against_impl"] += nrec - tstat["xv"]
    run.cov["evaluations"] += bstat["evaluations"] + tstat["evaluations"] + cstat["runs"]
    run.cov["distinct_nontrivial"] += stat["indomain"]
    for s in bstat["samples"] or []:
        run.sample({"b1": s})
    for ln in last:
        rec = json.loads(ln)
        rec.pop("argv", None)
        run.sample({"b2_record": rec})
    if stat["indomain"] * 10 < (nrec - tstat["xv"]) * 9:
        raise Inconclusive("only %d of %d recorded evaluations are inside the specified domain" % (stat["indomain"], nrec - tstat["xv"]))
    if stat["numbers"] < 500 or stat["bools"] < 50 or stat["nonutf8"] < 50:
        raise Inconclusive("recorded outputs exercise too few numbers/booleans/ill-formed bytes: %s" % stat)
    run.cov["rule"] = ("B3: every case of every law of MiniJson_MC; B1/B2: one record = one match (or builder use) evaluated 'evals' times, "
                       "non-trivial = inside the domain (identifier names) - TLC then demands validity, faithfulness and a single text; "
                       "xv records only cross-check the specification against encoding/json and are not counted as traces")

"""C13 - output ordering is a deterministic function of the aggregated data."""
import json
import os
from vf import Inconclusive, parallel, require_clean, validate_traces, trace_slice, vfj_lines, b2s

CLAIM = {
    "text": "Sorting.tla specifies, per sort mode, the order axioms every comparator must satisfy on every pool of distinct keys (asymmetric, total, transitive; reverse = converse) and the strict order on homogeneous pools (decimal magnitude, weekday/month position, chronological by INSTANT in five layouts - two of them with numeric UTC offsets, so one instant has several spellings -, totals as mathematical integers of a bounded type with an explicit width, raw bytes), plus the --sort name:modifier table; TLC proves on the model that the axioms make every start permutation of an implementation-shaped sort end in one sequence (and that a non-transitive comparator does not), checks the laws of the specified orders over key universes, that the scaling map binding narrow totals to the 64-bit code is monotone, reaches both extremes and commutes with wrapping subtraction for every pair of widths, and rejects two negative controls (a value comparator deciding by the sign of the wrapped difference; a date comparator that breaks ties only between equal offsets). The real comparators built by helpers.BuildSorter are then evaluated on all ordered pairs of seeded key pools (fresh instance per pair and one instance reused), every permutation of small subsets and random permutations of larger pools are sorted through sorting.Sort/SortBy, the aggregators' sorted accessors (Go map order) and the rare binary, and TLC validates every recorded decision matrix and sort result against the specification; TLC-enumerated homogeneous pools (incl. pools with tied keys and pools of totals spanning the whole int64 range) with the ranks the specification assigns are replayed on the real code. Look-alikes: only the names and abbreviations of the two calendar tables have a calendar position; plain text keys that merely begin like one (monitoring, Thu., Mondays, decoder) are text in every universe, pool and vector, SortingSticky.tla runs the contextual comparator as an object (inferred table, sticky fallback) through the sort from every start permutation (specified membership on homogeneous pools accepted; membership by 3-letter prefix and mixed pools refuted), and a new comparator asked about two keys of one kind must decide as the two-key pool is specified even inside a mixed pool. reduce: SortingAccum.tla specifies the accumulating group as a long-lived object (rows folded from samples, sort expressions, ranks on the current rows, RowsOnly: equal rows are listed identically whatever the arrival order and whatever was displayed before); SortingAccumImpl.tla accepts the design of the implementation (sort started from the group keys) and refutes first-seen order, reversed first-seen order and remembered sort values; TLC-enumerated histories (every order of the samples, a display in the middle and at the end) are replayed on real AccumulatingGroup objects and a sample on the rare binary.",
    "note": "Bounded: pools of at most 21 keys from fixed universes (numbers in several spellings, text, weekday/month names, three date layouts, mixtures, unmodelled spellings); the model sort is insertion sort (what sort.Sort runs up to 12 keys) plus the uniqueness law for any correct comparison sort. Totals reach the code as v*2^(64-W)+off for W-bit model totals v (W <= 16; offsets 0, 1, 2^(64-W)-1, or a separate lowest bit), so every total the code sees is one of at most 2^17 points of the int64 range, the extremes included. Layout detection (dateparse) is trusted on the five modelled layouts and on digit-free keys; UTC offsets up to 14:59; locale is not modelled; nothing is demanded of less(k,k). reduce histories: 3 groups per universe (numbers, text, weekdays), at most 4 (5) samples with values 1, 2 (-2), columns sum / count / maximum, six sort expressions, both directions. Known findings: the contextual and date comparators switch strategy for good after the first key they cannot place, so mixed pools are ordered by arrival.",
    "technique": "TLA+ model checking (TLC) of order axioms and a comparator-driven sort + trace validation of recorded comparator matrices and sort results + model-vector replay",
}

ACC_EXPR = {"none": "no --sort", "key": "--sort {0}", "sum": "--sort {s}", "cnt": "--sort {c}", "max": "--sort {m}",
            "negsum": "--sort '{subi 0 {s}}'"}
MC_INVS = ("ModelAsym ModelTotal ModelTrans ModelIrrefl ModelExtendsSpec SpecIrrefl SpecAsym SpecTrans SpecTieTrans "
           "TextTotal NumAgrees KindSanity ParseCase ParseDefault ParseMods ParseStrict ParseModeSet "
           "CivilAgrees UnixAgrees UniverseOK LookIsText")
WIDTH_INVS = ("EmbedRange EmbedMonotone EmbedExtremes EmbedNeighbours EmbedHom WrapExact WrapInverts DiffLessCommutes DiffLessBroken "
              "MathLessOrder")
LAWS = "total asym trans same converse deterministic reverse matrix spec pair perm parse shape"


def algo_cfg(n, comparators, invs, props=True):
    return ("SPECIFICATION Spec\nCONSTANTS N = %d\n Comparators = \"%s\"\nINVARIANTS %s\n%sCHECK_DEADLOCK FALSE\n"
            % (n, comparators, invs, "PROPERTIES Terminates\n" if props else ""))


def check(run):
    quick = run.tier == "quick"
    run.assumptions += [
        "keys of one aggregation are distinct strings; nothing is demanded of less(k, k)",
        "decimal literals: at most 15 significant digits and a 2-digit exponent are 'numbers'; hex floats, inf/nan, "
        "out-of-range exponents, digits separated by underscores (1_0) are class 'unk' (only the order axioms are demanded)",
        "dates: layouts YYYY-MM-DD, YYYY-MM-DD hh:mm:ss, MM/DD/YYYY (UTC), YYYY-MM-DDThh:mm:ss+hh:mm and "
        "YYYY-MM-DD hh:mm:ss +hhmm (numeric offset up to 14:59; the key denotes the instant civil time - offset) with "
        "year >= 1000; github.com/araddon/dateparse trusted to detect these and to reject digit-free ASCII keys; "
        "numbers in `date` mode: axioms only",
        "totals are int64; the specification's totals are W-bit integers (W <= 16) or small integers handed to the code "
        "through the strictly monotone map stated in every vector / trace (Sorting.tla Embed, B = 64); TLC decides the "
        "map's laws for B <= 9 only (32-bit integers), the instance B = 64 is by uniformity in B",
        "package-level sorters NVNameSorter / NVSmartSorter / NVValueSorter are held to the text / numeric / value "
        "specification; their tie-break direction may differ from the --sort comparators (compared within one source only)",
        "weekday/month names: English full names and the abbreviations of the table in Sorting.tla, ASCII letter case",
        "`--sort` strings: ASCII, non-empty name, at most one colon",
        "value mode: larger totals first; the direction of the name tie-break is not specified, only that it is a "
        "strict total order and that :asc is the exact reverse of the default",
    ]
    run.build_harness()
    rare = run.build_cli()

    # ------------------------------------------------------------------ B3 (model) jobs
    def b3_laws():
        big = "FALSE" if quick else "TRUE"
        cfg = "INIT Init\nNEXT Next\nCONSTANTS Big = %s\n Variant = \"ref\"\nINVARIANTS %s\nCHECK_DEADLOCK FALSE\n" % (
            big, MC_INVS)
        r = run.tlc("Sorting_MC", cfg, workers=6 if quick else 8, timeout=3000,
                    label="Sorting_MC laws Big=%s" % (not quick))
        require_clean(run, r, "Sorting_MC laws")
        return r

    def b3_width():
        big = "FALSE" if quick else "TRUE"
        # totals are integers of a bounded type: the scaling map of the binding is sound for every width
        w = run.tlc("SortingWidth", "INIT WInit\nNEXT WNext\nCONSTANTS MaxB = %d\nINVARIANTS %s\nCHECK_DEADLOCK FALSE\n" % (
            7 if quick else 9, WIDTH_INVS), workers=2, timeout=3000, label="SortingWidth laws")
        require_clean(run, w, "SortingWidth laws")
        # negative controls (not part of the verdict): the model must REJECT a value comparator deciding by the
        # sign of the wrapped difference and a date comparator that breaks ties only between equal offsets
        # ... and a contextual comparator giving a calendar position to every key that merely begins like a weekday /
        # month abbreviation (it contradicts the specified text order of such keys)
        for variant, must in (("wrapdiff", ("ModelAsym", "ModelTrans")), ("eqloc", ("ModelTotal",)),
                              ("prefix3", ("ModelExtendsSpec", "ModelTrans"))):
            ncfg = ("INIT NegInit\nNEXT Next\nCONSTANTS Big = %s\n Variant = \"%s\"\nINVARIANTS ModelAsym ModelTotal ModelTrans%s\n"
                    "CHECK_DEADLOCK FALSE\n" % (big, variant, " ModelExtendsSpec" if variant == "prefix3" else ""))
            n = run.tlc("Sorting_MC", ncfg, workers=1, timeout=1200,
                        label="Sorting_MC negative control %s (expected counter-example)" % variant)
            if not any(m in n.violated for m in must):
                raise Inconclusive("negative control %s: the model accepted a comparator that is not an order" % variant)
        return w

    def b3_algo():
        out = []
        invs = "TypeOK MachineIsFn PermInvariant SortedOK PrefixOrdered"
        # brute force: every asymmetric+total relation filtered by transitivity
        r = run.tlc("SortingAlgo", algo_cfg(4, "axioms", invs), workers=2, timeout=1200, coverage=True,
                    label="SortingAlgo N=4 every relation satisfying the axioms")
        require_clean(run, r, "SortingAlgo axioms N=4")
        zero = [a for a, (n, _) in r.coverage.items() if n == 0 and a.split(".")[1] in ("Swap", "Advance")]
        if zero:
            raise Inconclusive("vacuous sort model: %s never taken" % zero)
        out.append(r)
        # (N=6: 7.0e6 states, ~15 min on the shared machine - verified once, not part of the tiers)
        n = 5
        r = run.tlc("SortingAlgo", algo_cfg(n, "orders", invs), workers=4 if quick else 6, timeout=3000,
                    label="SortingAlgo N=%d every strict total order x every start permutation" % n)
        require_clean(run, r, "SortingAlgo orders N=%d" % n)
        out.append(r)
        if not quick:
            r = run.tlc("SortingAlgo", algo_cfg(5, "axioms", invs), workers=6, timeout=3000,
                        label="SortingAlgo N=5 every asymmetric+total relation filtered by transitivity")
            require_clean(run, r, "SortingAlgo axioms N=5")
            out.append(r)
        r = run.tlc("SortingAlgo", "INIT LawInit\nNEXT LawNext\nCONSTANTS N = 4\n Comparators = \"orders\"\n"
                    "INVARIANTS Laws\nCHECK_DEADLOCK FALSE\n", workers=1, timeout=1200, label="SortingAlgo laws N=4")
        require_clean(run, r, "SortingAlgo laws")
        # sanity (not part of the verdict): without transitivity permutation invariance must FAIL on the model
        r = run.tlc("SortingAlgo", algo_cfg(3, "tournaments", "PermInvariant", props=False), workers=1, timeout=600,
                    label="SortingAlgo sanity: non-transitive comparator (expected counter-example)")
        if "PermInvariant" not in r.violated:
            raise Inconclusive("sanity: a non-transitive comparator did not break permutation invariance on the model")
        return out

    def b3_objects():
        # the contextual comparator as an object (set inference + sticky fallback) driving the sort from every start:
        # the specified membership on homogeneous pools (look-alikes of weekday / month names are text) satisfies
        # SpecOrder / PermInvariant; the controls "membership by 3-letter prefix" and "mixed pools" must be refuted
        st = run.tlc("SortingSticky", "INIT CtlInit\nNEXT Next\nCONSTANTS Which = \"%s\"\nINVARIANTS Laws CtlMark\n"
                     "POSTCONDITION CtlAllRefuted\nCHECK_DEADLOCK FALSE\n" % ("all" if quick else "deep"), workers=1, timeout=3000,
                     label="SortingSticky: comparator object x insertion sort, code setup + 2 negative controls (must be refuted)")
        if st.violated or st.errors or st.postcond_failed or not st.finished:
            raise Inconclusive("SortingSticky: a law failed on the specified comparator or a negative control was not "
                               "refuted: %s" % st.out[-1500:])
        # reduce's accumulating group as a long-lived object: every history of samples (all arrival orders) and
        # displays; design keyorder satisfies RanksHold / RowsOnlyInv / PermInv, the designs arrival / arrivalrev /
        # memo must be refuted
        acc = run.tlc("SortingAccumImpl", "INIT CtlInit\nNEXT Next\nCONSTANTS DesignSet = {\"keyorder\", \"arrival\", "
                      "\"arrivalrev\", \"memo\"}\n MaxOps = %d\n Vals = {1, 2}\nINVARIANTS Laws CtlMark\nPOSTCONDITION CtlAllRefuted\n"
                      "CHECK_DEADLOCK FALSE\n" % 3, workers=1, timeout=3000,
                      label="SortingAccumImpl: accumulating group, design keyorder + 3 negative controls (must be refuted)")
        if acc.violated or acc.errors or acc.postcond_failed or not acc.finished:
            raise Inconclusive("SortingAccumImpl: a law failed on the design of the implementation or a negative control "
                               "was not refuted: %s" % acc.out[-1500:])
        if not quick:
            deep = run.tlc("SortingAccumImpl", "INIT Init\nNEXT Next\nCONSTANTS DesignSet = {\"keyorder\"}\n MaxOps = 4\n"
                           " Vals <- NegVals\nINVARIANTS Laws\nCHECK_DEADLOCK FALSE\n", workers=4, timeout=3000,
                           label="SortingAccumImpl: design keyorder, histories of 4 samples, values 1 2 -2")
            require_clean(run, deep, "SortingAccumImpl keyorder deep")
        return st, acc

    # ------------------------------------------------------------------ B1 (accumulating group): histories -> real object
    def b1_accum():
        cfg = "INIT GInit\nNEXT GNext\nCONSTANTS Big = %s\nINVARIANTS Dump\nCHECK_DEADLOCK FALSE\n" % ("FALSE" if quick else "TRUE")
        r = run.tlc("SortingAccum_Gen", cfg, workers=3 if quick else 6, timeout=3000, label="SortingAccum_Gen Big=%s" % (not quick))
        if r.violated or r.errors:
            raise Inconclusive("accumulating-group generator failed: %s" % r.out[-2000:])
        vec_path = os.path.join(run.scratch, "c13-accum-vectors.ndjson")
        nvec = 0
        with open(vec_path, "w") as f:
            for v in vfj_lines(r.out):
                f.write(json.dumps(v, separators=(",", ":")) + "\n")
                nvec += 1
        if nvec < 3000:
            raise Inconclusive("accumulating-group generator produced only %d histories" % nvec)
        res_path = os.path.join(run.scratch, "c13-accum.json")
        run.drv(["accum", "-in", vec_path, "-out", res_path, "-rare", rare, "-cli", 30 if quick else 200], timeout=3000)
        return json.load(open(res_path))

    # ------------------------------------------------------------------ B2 (accumulating group): recorded listings -> trace validation
    def b2_accum():
        tr = os.path.join(run.scratch, "c13-acctrace.ndjson")
        st = os.path.join(run.scratch, "c13-acctrace-stats.json")
        run.drv(["acctrace", "-out", tr, "-stats", st, "-families", 40 if quick else 60, "-orders", 4 if quick else 6], timeout=3000)
        res, r = validate_traces(run, "SortingAccum_Trace", tr, label="SortingAccum_Trace", xmx="3g", timeout=3000)
        return json.load(open(st)), tr, res

    # ------------------------------------------------------------------ B1: model vectors -> real code
    def b1():
        cfg = "INIT GInit\nNEXT GNext\nCONSTANTS Big = %s\nINVARIANTS Dump\nCHECK_DEADLOCK FALSE\n" % (
            "FALSE" if quick else "TRUE")
        r = run.tlc("Sorting_Gen", cfg, workers=4 if quick else 8, timeout=3000, label="Sorting_Gen Big=%s" % (not quick))
        if r.violated or r.errors:
            raise Inconclusive("generator failed: %s" % r.out[-2000:])
        vec_path = os.path.join(run.scratch, "c13-vectors.ndjson")
        nvec = 0
        with open(vec_path, "w") as f:
            for v in vfj_lines(r.out):
                f.write(json.dumps(v, separators=(",", ":")) + "\n")
                nvec += 1
        if nvec < 2000:
            raise Inconclusive("generator produced only %d vectors" % nvec)
        res_path = os.path.join(run.scratch, "c13-replay.json")
        run.drv(["replay", "-in", vec_path, "-out", res_path])
        return json.load(open(res_path))

    # ------------------------------------------------------------------ B2: real code -> trace validation
    def b2():
        tr = os.path.join(run.scratch, "c13-trace.ndjson")
        st = os.path.join(run.scratch, "c13-stats.json")
        args = ["trace", "-out", tr, "-stats", st, "-rare", rare]
        if quick:
            args += ["-pools", 14, "-big", 2, "-cli", 3, "-perms", 30]
        else:
            args += ["-pools", 70, "-big", 8, "-cli", 10, "-perms", 200, "-enum", 6, "-subsets", 80]
        run.drv(args, timeout=3000)
        stats = json.load(open(st))
        # one validation per mode, in parallel
        parts = {}
        cur = None
        with open(tr) as f:
            for line in f:
                if '"event":"reset"' in line:
                    cur = json.loads(line)["mode"]
                    if cur not in parts:
                        parts[cur] = open(os.path.join(run.scratch, "c13-trace-%s.ndjson" % cur), "w")
                parts[cur].write(line)
        for p in parts.values():
            p.close()
        jobs = []
        for mode in sorted(parts):
            path = os.path.join(run.scratch, "c13-trace-%s.ndjson" % mode)
            jobs.append(lambda mode=mode, path=path: (mode, path, validate_traces(
                run, "Sorting_Trace", path, label="Sorting_Trace %s" % mode, xmx="3g", timeout=3000)))
        return stats, parallel(jobs, 5)

    b3l, b3w, b3a, b3o, b1res, accres, (accst, acctr, accbad), (stats, b2res) = parallel(
        [b3_laws, b3_width, b3_algo, b3_objects, b1, b1_accum, b2_accum, b2], 6)

    # ------------------------------------------------------------------ B1 verdicts
    run.cov["traces_validated_against_impl"] += b1res["runs"]
    run.cov["evaluations"] += b1res["runs"]
    run.cov["distinct_nontrivial"] += b1res["distinct_nontrivial"]
    run.cov["b1_vectors"] = b1res["vectors"]
    for s in b1res["samples"] or []:
        run.sample({"b1_vector": s})
    for m in b1res["mismatches"] or []:
        v = m["vector"]
        what = {"order": "a key is displayed after one the specification puts behind it",
                "unstable": "another start of the same pool gave another sequence",
                "perm": "the result is not a rearrangement of the pool", "build": "BuildSorter failed"}[m["kind"]]
        run.violation("b1:%s:%s:%s" % (v["mode"], v["cls"], m["kind"]),
                      "--sort %s on keys %s (totals %s under value map %s) from start %s via %s: got order %s; the specification "
                      "ranks the keys %s (equal rank = tie): %s" % (
                          b2s(v["sort"]), m["names"], [k["value"] for k in v["pool"]], json.dumps(v["vmap"]), m["perm"],
                          m["via"], m["got"], v["ranks"], what), m)

    # ------------------------------------------------------------------ B1 verdicts, accumulating group
    run.cov["traces_validated_against_impl"] += accres["listings"]
    run.cov["evaluations"] += accres["listings"]
    run.cov["distinct_nontrivial"] += accres["distinct_nontrivial"]
    run.cov["b1_accum"] = {k: accres[k] for k in ("vectors", "listings", "rows_classes", "cli_runs")}
    for s in accres["samples"] or []:
        run.sample({"b1_accum_history": s})
    for m in accres["mismatches"] or []:
        what = {"perm": "the listing is not the set of groups present",
                "order": "a group is listed after one whose sort value the sorter puts behind it (ranks of the CURRENT rows)",
                "arrival": "the same rows, reached by delivering the samples in another order (%s), were listed as %s" % (
                    m.get("other_history"), m.get("other")),
                "history": "the same rows, reached through another history (%s), were listed as %s" % (
                    m.get("other_history"), m.get("other"))}[m["kind"]]
        run.violation("b1:accum:%s:%s:%s" % (m["expr"], m["sorter"], m["kind"]),
                      "reduce %s, sorter %s, groups %s, history '%s': Groups() listed %s; rows (sum, count, max per group) %s, "
                      "specified ranks %s%s: %s (%d listings)" % (
                          ACC_EXPR.get(m["expr"], m["expr"]), m["sorter"], m["names"], m["history"], m["got"], m["rows"], m["ranks"],
                          " (tied sort values)" if m["ties"] else "", what, m["count"]), m)

    # ------------------------------------------------------------------ B2 verdicts, accumulating group
    if accbad["consumed"] != accst["records"]:
        raise Inconclusive("SortingAccum_Trace consumed %d of %d records" % (accbad["consumed"], accst["records"]))
    run.cov["traces_validated_against_impl"] += accst["records"]
    run.cov["evaluations"] += accst["records"]
    run.cov["distinct_nontrivial"] += accst["histories"]
    run.cov["b2_accum"] = accst
    acclines = None
    accseen = {}
    for bad in accbad["bad"]:
        if bad["law"] == "harness":
            raise Inconclusive("malformed accumulating-group record at line %d" % bad["l"])
        if acclines is None:
            acclines = open(acctr).read().splitlines()
        key = (bad["law"], bad["expr"], bad["rev"])
        accseen[key] = accseen.get(key, 0) + 1
        if accseen[key] > 1:
            continue
        rec = json.loads(acclines[bad["l"] - 1])
        what = {"perm": "the listing is not the set of groups present",
                "order": "a group is listed after one whose CURRENT sort value the sorter puts behind it",
                "rows": "equal rows (same universe, expression, direction) reached through another recorded history were listed "
                        "differently"}[bad["law"]]
        run.violation("b2:accum:%s:%s:%s" % (bad["law"], bad["expr"], "ctxrev" if bad["rev"] else "ctx"),
                      "reduce %s%s, group universe %s, samples (group, value) %s: Groups() listed %s: %s" % (
                          ACC_EXPR.get(bad["expr"], bad["expr"]), " reversed" if bad["rev"] else "", bad["univ"], rec["ops"], rec["got"],
                          what), rec)

    # ------------------------------------------------------------------ B2 verdicts
    run.cov["traces_validated_against_impl"] += stats["sorts"] + stats["matrices"]
    run.cov["evaluations"] += stats["sorts"] + stats["matrices"]
    run.cov["b2"] = stats
    consumed = 0
    for mode, path, (res, r) in b2res:
        nlines = sum(1 for _ in open(path))
        if res["consumed"] != nlines:
            raise Inconclusive("trace validation of %s consumed %d of %d records" % (mode, res["consumed"], nlines))
        consumed += res["consumed"]
        lines = None
        for bad in res["bad"]:
            if bad["law"] == "harness":
                raise Inconclusive("malformed trace record at %s line %d" % (path, bad["l"]))
            if lines is None:
                lines = open(path).read().splitlines()
            sl = trace_slice(path, bad["t"])
            reset = json.loads(sl.splitlines()[0])
            rec = json.loads(lines[bad["l"] - 1])
            names = [b2s(k["name"]) for k in reset["pool"]]
            keep = {"reset": reset, "record": rec, "law": bad["law"], "class": bad["cls"], "count": bad["n"],
                    "names": names}
            run.violation("b2:%s:%s:%s:%s" % (bad["ev"], bad["law"], bad["mode"], bad["cls"]),
                          "mode %s, keys %s (class %s; totals %s under value map %s): law '%s' broken by %d recorded %s record(s); "
                          "first: sort %s (comparator from %s) via %s %s" % (
                              bad["mode"], names, bad["cls"], [k["value"] for k in reset["pool"]],
                              json.dumps(reset.get("vmap")), bad["law"], bad["n"], bad["ev"], b2s(rec.get("sort", [])),
                              {"pkg": "the package-level sorter", "build": "helpers.BuildSorter"}.get(rec.get("src"), "?"),
                              bad["via"], json.dumps({k: rec[k] for k in ("m", "sub", "outs") if k in rec})[:400]), keep)
    run.cov["b2_events"] = consumed
    run.cov["distinct_nontrivial"] += stats["traces"]
    with open(os.path.join(run.scratch, "c13-trace-numeric.ndjson")) as f:
        head = [json.loads(next(f)) for _ in range(5)]
    for h in head:
        if "m" in h or "outs" in h:
            run.sample({"b2_record": h})
            break
    run.sample({"b2_reset": head[0]})
    run.cov["rule"] = ("B3: every (mode, a, b, c) over the key universes, every comparator satisfying the axioms x every "
                       "start permutation of the model sort; B1: every pool of 2..4 keys of a homogeneous universe "
                       "(tied keys included where the universe has them; totals under five value maps), every permutation and "
                       "every aggregator accessor, non-trivial = >= 3 keys; "
                       "B2: one trace per (pool, mode): 10-12 decision matrices + sorts of every permutation of small subsets, "
                       "random permutations, map-order starts and CLI runs; every trace has >= 3 keys; "
                       "B1 accumulating group: every history of <= 4 samples over 3 groups with an optional display in the "
                       "middle, non-trivial = >= 3 samples")

"""C04 - line splitting is exact and returned buffers are never overwritten."""
import json
import os
from vf import Inconclusive, parallel, require_clean, validate_traces, trace_slice, vfj_lines, b2s

CLAIM = {
    "text": "TLC exhaustively checks implementation-shaped models of both scanners (ScannerImm/ScannerBuf: every stream over {a,CR,LF} up to the bound, every chunking, stall and failure position, buffer sizes 1..4) for exact splitting, single error report, no read after the end, buffer lifetime (no write under a handed-out view), refinement of the abstract Scanner and termination; every complete model behaviour is replayed on the real scanners (retained slices re-read at the end) and seeded random real executions (incl. the 128 KiB production wiring) are validated by TLC against the abstract spec.",
    "note": "Bounded: exhaustive only within the stated stream length/alphabet/buffer sizes; beyond that seeded random traces. Trusted: Go runtime, the scripted io.Reader of the harness, TLC.",
    "technique": "TLA+ refinement model checking (TLC) + model-behaviour replay + trace validation",
}

ALPHA = "{97, 13, 10}"
INVS = "Bounds PrefixOK EndOK ErrOK NoReadAfterEnd Lifetime"


def mc_cfg(maxlen, buf, stall=1):
    return ("SPECIFICATION Spec\nCONSTANTS Alphabet = %s\n MaxLen = %d\n BufSize = %d\n MaxStall = %d\n"
            "INVARIANTS %s\nPROPERTIES Refines Terminates\nCHECK_DEADLOCK FALSE\n" % (ALPHA, maxlen, buf, stall, INVS))


def gen_cfg(maxlen, buf, stall=1):
    return ("INIT GInit\nNEXT GNext\nCONSTANTS Alphabet = %s\n MaxLen = %d\n BufSize = %d\n MaxStall = %d\n"
            "INVARIANTS Dump\nCHECK_DEADLOCK FALSE\n" % (ALPHA, maxlen, buf, stall))


def check(run):
    quick = run.tier == "quick"
    run.assumptions += [
        "io.Reader contract: a reader returns n<=len(p); (0,nil) is allowed only finitely often",
        "B3 bounds: alphabet {a,CR,LF}, total stream length and buffer sizes as listed in tlc_runs",
    ]
    run.build_harness()
    # ---- B3: exhaustive model check of the implementation-shaped models + refinement + liveness
    ml = 5 if quick else 7
    jobs = []
    for mod, bufs in (("ScannerImm", (1, 2, 3) if quick else (1, 2, 3, 4)),
                      ("ScannerBuf", (2, 3) if quick else (2, 3, 4, 5))):
        for b in bufs:
            jobs.append(lambda mod=mod, b=b: (mod, b, run.tlc(mod, mc_cfg(ml, b), workers=4, label="%s MaxLen=%d BufSize=%d" % (mod, ml, b),
                                                              coverage=(b == 2), timeout=3000)))
    for mod, b, r in parallel(jobs, 4):
        require_clean(run, r, "%s buf=%d" % (mod, b))
        if b == 2:
            zero = [a for a, (n, _) in r.coverage.items() if n == 0 and a.split(".")[1] in
                    ("Call", "Restart", "Grow", "Read", "OnErr", "Check", "Search", "Fill")]
            if zero:
                raise Inconclusive("vacuous model: actions never taken: %s" % zero)
    # ---- B1: every complete behaviour of the models replayed on the real scanners
    gl = 4 if quick else 5
    vec_path = os.path.join(run.scratch, "c04-vectors.ndjson")
    jobs = []
    for mod, bufs in (("ScannerImm_Gen", (1, 2, 3)), ("ScannerBuf_Gen", (2, 3))):
        for b in bufs:
            jobs.append(lambda mod=mod, b=b: run.tlc(mod, gen_cfg(gl, b), workers=4, timeout=3000,
                                                     label="%s MaxLen=%d BufSize=%d" % (mod, gl, b)))
    nvec = 0
    with open(vec_path, "w") as f:
        for r in parallel(jobs, 4):
            if r.violated or r.errors:
                raise Inconclusive("generator failed: %s" % r.out[-2000:])
            for v in vfj_lines(r.out):
                f.write(json.dumps(v, separators=(",", ":")) + "\n")
                nvec += 1
    if nvec < 1000:
        raise Inconclusive("generator produced only %d vectors" % nvec)
    res_path = os.path.join(run.scratch, "c04-replay.json")
    run.drv(["replay", "-in", vec_path, "-out", res_path])
    res = json.load(open(res_path))
    run.cov["traces_validated_against_impl"] += res["runs"]
    run.cov["evaluations"] += res["runs"]
    run.cov["distinct_nontrivial"] += res["distinct_nontrivial"]
    for s in res["samples"] or []:
        run.sample({"b1_vector": s})
    for m in res["mismatches"] or []:
        v = m["vector"]
        run.violation("b1:%s:%s" % (m["variant"], m["kind"]),
                      "scanner %s: %s on script %s (buf %d): got %s, spec tokens %s" % (
                          m["variant"], m["kind"], [(b2s(x["d"]), x["e"]) for x in v["reads"]], v["buf"],
                          m["got"], [b2s(t) for t in v["toks"]]), m)
    # ---- B2: recorded random executions validated against the abstract Scanner
    tr = os.path.join(run.scratch, "c04-trace.ndjson")
    p = run.drv(["trace", "-out", tr, "-n", 400 if quick else 4000, "-maxlen", 300 if quick else 1500,
                 "-big", 1 if quick else 4])
    res, r = validate_traces(run, "Scanner_Trace", tr, invariants=("Final", "ErrOnce"), xmx="12g")
    ntr = sum(1 for line in open(tr) if '"event":"reset"' in line)
    run.cov["traces_validated_against_impl"] += ntr
    run.cov["evaluations"] += ntr
    run.cov["distinct_nontrivial"] += ntr
    run.cov["b2_events"] = res["consumed"]
    with open(tr) as f:
        run.sample({"b2_trace_head": [json.loads(next(f)) for _ in range(6)]})
    if not res["done"] and not any(b["t"] == ntr for b in res["bad"]):
        raise Inconclusive("last trace incomplete")
    for bad in res["bad"]:
        sl = trace_slice(tr, bad["t"])
        ev = open(tr).read().splitlines()[bad["l"] - 1]
        path = run.save_replay("trace-%d.ndjson" % bad["t"], sl)
        variant = json.loads(sl.splitlines()[0])["variant"]
        run.violation("b2:%s:%s" % (variant, json.loads(ev)["event"]),
                      "recorded execution of the %s scanner is not a behaviour of Scanner.tla: rejected event %s" % (variant, ev[:300]), path)
    run.cov["rule"] = ("B3: all behaviours of ScannerImm/ScannerBuf within bounds; B1: every complete model behaviour "
                       "(reader script) replayed on both real scanners, non-trivial = >1 token; "
                       "B2: seeded random streams/chunkings/failures, one trace each")

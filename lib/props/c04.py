"""C04 - line splitting is exact and returned buffers are never overwritten."""
import json
import os
from vf import Inconclusive, parallel, require_clean, validate_traces, trace_slice, vfj_lines, b2s

CLAIM = {
    "text": "TLC exhaustively checks implementation-shaped models of both scanners (ScannerImm/ScannerBuf: every stream over {a,CR,LF} up to the bound, every chunking, stall and failure position, buffer sizes 1..4) for exact splitting, single error report, no read after the end, the end being final (Scan() called again: nothing read, returned or reported), buffer lifetime (no write under a handed-out view), refinement of the abstract Scanner and termination; ScannerBatch composes ScannerImm with the batching layer of batcher.go that sits directly on the scanner (the current batch as a view into a numbered backing array of slice headers, full / timer / final flushes, BatchStart, batches held by the channel or the consumer and released at any time, time passing inside Read or anywhere) and checks that no step writes a slot of a held batch, that every held batch still reads the lines start..start+n-1 of the byte stream, that the batches partition the scanner's lines in order with BatchStart the running count, and termination - with the negative controls 'backing array recycled after a timer flush' and 'after a full flush' refuted and 'after the final flush' passing. Every complete model behaviour is replayed on the real scanners (Scan/Bytes, ReadLine, with and without error callback, two more Scan() calls after the end, retained slices re-read at the end) and on the real batcher paths (syncReaderToBatcherWithTimeFlush through batchers.VerifOpenReaderToChan with a 10 ms interval and a scripted source whose pauses force timer flushes of partial batches, batch sizes 1..4 and 100, a prompt and a queue-everything consumer that hold EVERY batch to the end and re-read all lines; syncReaderToBatcher through OpenFilesToChan); seeded random real executions (incl. the 128 KiB production wiring, pausing sources, the production 250 ms path, several files per call) are validated by TLC against the abstract spec.",
    "note": "Bounded: exhaustive only within the stated stream length/alphabet/buffer and batch sizes; beyond that seeded random traces. Where a batch is cut is time-dependent and not part of the verdict (only: lines, order, BatchStart, 1 <= length <= batch size). Trusted: Go runtime, the scripted io.Reader of the harness, TLC.",
    "technique": "TLA+ refinement model checking (TLC) with negative controls + model-behaviour replay + trace validation",
}

ALPHA = "{97, 13, 10}"
INVS = "Bounds PrefixOK EndOK ErrOK NoReadAfterEnd Lifetime"


def mc_cfg(maxlen, buf, stall=1):
    # SpecA: Spec + Scan() called again after it returned false (EndIsFinal: nothing happens any more)
    return ("SPECIFICATION SpecA\nCONSTANTS Alphabet = %s\n MaxLen = %d\n BufSize = %d\n MaxStall = %d\n"
            "INVARIANTS %s\nPROPERTIES Refines Terminates EndIsFinal\nCHECK_DEADLOCK FALSE\n" % (ALPHA, maxlen, buf, stall, INVS))


def gen_cfg(maxlen, buf, stall=1):
    return ("INIT GInit\nNEXT GNext\nCONSTANTS Alphabet = %s\n MaxLen = %d\n BufSize = %d\n MaxStall = %d\n"
            "INVARIANTS Dump\nCHECK_DEADLOCK FALSE\n" % (ALPHA, maxlen, buf, stall))


BINVS = INVS + " BTypeOK BatchLifetime BatchLinesOK PartitionOK KindOK BFinalOK"


def bmc_cfg(maxlen, buf, pb, timed, reuse="never", invs=BINVS, props="BatchStable ScannerIsImm BTerminates"):
    return ("SPECIFICATION BSpec\nCONSTANTS Alphabet = %s\n MaxLen = %d\n BufSize = %d\n MaxStall = 1\n PBatch = %d\n"
            " Timed = %s\n ReuseOn = \"%s\"\nINVARIANTS %s\n%sCHECK_DEADLOCK FALSE\n" % (
                ALPHA, maxlen, buf, pb, "TRUE" if timed else "FALSE", reuse, invs,
                ("PROPERTIES %s\n" % props) if props else ""))


def bgen_cfg(maxlen, pb, timed):
    # the batcher always runs the scanner with its 128 KiB buffer: no regrow in the generated behaviours
    return ("INIT GInit\nNEXT GNext\nCONSTANTS Alphabet = {97, 10}\n MaxLen = %d\n BufSize = %d\n MaxStall = 0\n PBatch = %d\n"
            " Timed = %s\n ReuseOn = \"never\"\nINVARIANTS Dump\nCHECK_DEADLOCK FALSE\n" % (
                maxlen, maxlen + 4, pb, "TRUE" if timed else "FALSE"))


def batch_model_jobs(run, quick):
    """B3 for the batching layer on top of the scanner (ScannerBatch.tla) incl. negative controls."""
    jobs = []
    if quick:
        cfgs = [(4, 2, 2, True), (3, 1, 2, True), (3, 3, 2, True), (3, 2, 1, True), (3, 2, 3, True), (3, 2, 2, False), (4, 2, 3, False)]
    else:
        cfgs = [(5, b, pb, t) for b in (1, 2, 3) for pb in (1, 2, 3) for t in (True, False)] + \
               [(6, 2, 2, True), (6, 3, 3, True), (6, 2, 3, False)]
    for ml, b, pb, t in cfgs:
        # the largest models (MaxLen 6, 1-2 M states): invariants only; the action properties and liveness are
        # checked on every smaller configuration
        jobs.append(lambda ml=ml, b=b, pb=pb, t=t: ("bmc", (ml, b, pb, t), run.tlc(
            "ScannerBatch", bmc_cfg(ml, b, pb, t, props=("" if ml >= 6 and t else "BatchStable ScannerIsImm BTerminates")),
            workers=4, timeout=3000, coverage=(b == 2 and pb == 2 and ml < 6),
            label="ScannerBatch MaxLen=%d BufSize=%d PBatch=%d Timed=%s" % (ml, b, pb, t))))
    # negative controls: recycling the batch's backing array after a timer flush / a full flush must be
    # refuted on every statement of the batch lifetime; after the final flush it is harmless
    negs = [("timer", "BatchLifetime", None), ("timer", "BatchLinesOK", None), ("timer", "BTypeOK", "BatchStable"),
            ("full", "BatchLifetime", None)]
    if not quick:
        negs += [("full", "BatchLinesOK", None), ("full", "BTypeOK", "BatchStable")]
    for reuse, inv, prop in negs:
        jobs.append(lambda reuse=reuse, inv=inv, prop=prop: ("bneg", (reuse, prop or inv), run.tlc(
            "ScannerBatch", bmc_cfg(4, 2, 2, True, reuse, inv, prop), workers=2, timeout=3000,
            label="ScannerBatch ReuseOn=%s [%s] negative control: must be violated" % (reuse, prop or inv))))
    fl = 3 if quick else 5
    jobs.append(lambda: ("bmc", (fl, 2, 2, "final"), run.tlc(
        "ScannerBatch", bmc_cfg(fl, 2, 2, True, "final"), workers=4, timeout=3000,
        label="ScannerBatch ReuseOn=final (harmless control: must pass)")))
    return jobs


def batch_model_result(run, kind, what, r):
    if kind == "bneg":
        if what[1] not in r.violated:
            raise Inconclusive("negative control passed: ScannerBatch ReuseOn=%s does not violate %s\n%s" % (what[0], what[1], r.out[-2000:]))
        return
    require_clean(run, r, "ScannerBatch %s" % (what,))
    if r.coverage:
        acts = ["BScan", "BAppend", "FlushFull", "NoFlush", "FlushFinal", "Release"]
        if what[3] is True:
            acts += ["FlushTimer", "TickRead", "TickAny"]
        zero = [a for a in acts if r.coverage.get("ScannerBatch." + a, (0, 0))[0] == 0]
        if zero:
            raise Inconclusive("vacuous model: ScannerBatch actions never taken: %s" % zero)


def batch_gen_jobs(run, quick):
    gl = 4 if quick else 5
    jobs = []
    for pb in (1, 2, 3, 4, 100):
        for timed in (True, False):
            if quick and not timed and pb == 4:
                continue
            jobs.append(lambda pb=pb, timed=timed: ("bgen", (pb, timed), run.tlc(
                "ScannerBatch_Gen", bgen_cfg(gl, pb, timed), workers=2, timeout=3000,
                label="ScannerBatch_Gen MaxLen=%d PBatch=%d Timed=%s" % (gl, pb, timed))))
    return jobs


def batch_replay_report(run, res):
    """B1 for the batching layer: every complete behaviour of ScannerBatch_Gen replayed on the real batcher paths."""
    mism = res["mismatches"] or []
    stats = {k: v for k, v in res.items() if k not in ("mismatches", "samples")}
    if any(m["kind"] == "hang" for m in mism):
        raise Inconclusive("batcher replay: the harness timed out waiting for the batch channel to close")
    run.cov["traces_validated_against_impl"] += res["runs"]
    run.cov["evaluations"] += res["runs"]
    run.cov["distinct_nontrivial"] += res["distinct_nontrivial"]
    run.cov["b1_batch"] = stats
    for s in res["samples"] or []:
        run.sample({"b1_batch_vector": s})
    seen = {}
    for m in mism:
        sig = "b1:batch:%s:%s" % (m["path"], m["kind"])
        seen[sig] = seen.get(sig, 0) + 1
        if seen[sig] > 3:
            continue
        v = m["vector"] or {}
        run.violation(sig, "batcher (%s, batch size %s): %s on script %s: got %s; spec lines %s in batches %s%s" % (
            m["path"], v.get("pb"), m["kind"], [(b2s(x["d"]), x["e"], "pause" if x["p"] else "") for x in v.get("reads", [])],
            json.dumps(m["got"])[:400], [b2s(t) for t in v.get("toks", [])],
            [(b["start"], b["n"], b["kind"]) for b in v.get("batches", [])],
            "" if seen[sig] < 3 else " (%d more of this class not shown)" % (sum(1 for x in mism if "b1:batch:%s:%s" % (x["path"], x["kind"]) == sig) - 3)), m)
    # the schedules must really have exercised the timer path (partial batches flushed before the end)
    if not mism and (res["partial_batches_observed"] < 1000 or res["timed_realized"] * 2 < res["timed_runs"]):
        raise Inconclusive("batcher replay did not realise the schedules: %s" % stats)


def check(run):
    quick = run.tier == "quick"
    run.assumptions += [
        "io.Reader contract: a reader returns n<=len(p); (0,nil) is allowed only finitely often",
        "B3 bounds: alphabet {a,CR,LF}, total stream length and buffer sizes as listed in tlc_runs",
        "batching layer: the verdict binds to the lines (at hand-out and re-read at the end), BatchStart = running count, "
        "1 <= batch length <= batch size; WHERE a batch is cut is not demanded (time-dependent; reported as coverage only)",
    ]
    run.build_harness()
    jto = os.environ.get("JAVA_TOOL_OPTIONS")
    if quick:
        # ~30 short TLC runs: most of their CPU time is JIT compilation; C1 only for them
        # (measured: 8 s -> 2.7 s CPU per generator run); restored before the long trace validation
        os.environ["JAVA_TOOL_OPTIONS"] = ((jto or "") + " -XX:TieredStopAtLevel=1").strip()
    tr = os.path.join(run.scratch, "c04-trace.ndjson")
    # ---- all TLC model runs in one pool; the B2 recording (Go only) runs beside it
    # B3: exhaustive model check of the implementation-shaped models + refinement + liveness
    ml = 5 if quick else 7
    jobs = []
    for mod, bufs in (("ScannerImm", (1, 2, 3) if quick else (1, 2, 3, 4)),
                      ("ScannerBuf", (2, 3) if quick else (2, 3, 4, 5))):
        for b in bufs:
            jobs.append(lambda mod=mod, b=b: ("mc", (mod, b), run.tlc(mod, mc_cfg(ml, b), workers=4, label="%s MaxLen=%d BufSize=%d" % (mod, ml, b),
                                                                      coverage=(b == 2), timeout=3000)))
    jobs += batch_model_jobs(run, quick)
    # B1 generators: every complete behaviour of the models
    gl = 4 if quick else 5
    for mod, bufs in (("ScannerImm_Gen", (1, 2, 3)), ("ScannerBuf_Gen", (2, 3))):
        for b in bufs:
            jobs.append(lambda mod=mod, b=b: ("gen", (mod, b), run.tlc(mod, gen_cfg(gl, b), workers=4, timeout=3000,
                                                                       label="%s MaxLen=%d BufSize=%d" % (mod, gl, b))))
    jobs += batch_gen_jobs(run, quick)

    def record():
        return run.drv(["trace", "-out", tr, "-n", 400 if quick else 4000, "-maxlen", 300 if quick else 1500,
                        "-big", 1 if quick else 4, "-bt", 300 if quick else 3000, "-b250", 2 if quick else 12,
                        "-bfiles", 20 if quick else 200])
    try:
        results, _ = parallel([lambda: parallel(jobs, 4), record], 2)
    finally:
        if jto is None:
            os.environ.pop("JAVA_TOOL_OPTIONS", None)
        else:
            os.environ["JAVA_TOOL_OPTIONS"] = jto
    vec_path = os.path.join(run.scratch, "c04-vectors.ndjson")
    bvec_path = os.path.join(run.scratch, "c04-bvectors.ndjson")
    nvec, nbvec = 0, 0
    with open(vec_path, "w") as f, open(bvec_path, "w") as bf:
        for kind, what, r in results:
            if kind == "mc":
                mod, b = what
                require_clean(run, r, "%s buf=%d" % (mod, b))
                if b == 2:
                    zero = [a for a, (n, _) in r.coverage.items() if n == 0 and a.split(".")[1] in
                            ("Call", "Restart", "Grow", "Read", "OnErr", "Check", "Search", "Fill", "Again")]
                    if zero:
                        raise Inconclusive("vacuous model: actions never taken: %s" % zero)
            elif kind in ("bmc", "bneg"):
                batch_model_result(run, kind, what, r)
            else:
                if r.violated or r.errors:
                    raise Inconclusive("generator failed: %s" % r.out[-2000:])
                for v in vfj_lines(r.out):
                    if kind == "gen":
                        f.write(json.dumps(v, separators=(",", ":")) + "\n")
                        nvec += 1
                    else:
                        bf.write(json.dumps(v, separators=(",", ":")) + "\n")
                        nbvec += 1
    if nvec < 1000:
        raise Inconclusive("generator produced only %d vectors" % nvec)
    if nbvec < 5000:
        raise Inconclusive("batch generator produced only %d vectors" % nbvec)
    # ---- B1 replays (Go) and B2 validation (TLC) side by side
    res_path = os.path.join(run.scratch, "c04-replay.json")
    bres_path = os.path.join(run.scratch, "c04-breplay.json")
    _, _, (tres, tr_r) = parallel([
        lambda: run.drv(["replay", "-in", vec_path, "-out", res_path]),
        lambda: run.drv(["breplay", "-in", bvec_path, "-out", bres_path, "-interval", 10, "-pause", 25, "-par", 512]),
        lambda: validate_traces(run, "Scanner_Trace", tr, invariants=("Final", "ErrOnce"), xmx="12g")], 3)
    # ---- B1: every complete behaviour of the models replayed on the real scanners
    res = json.load(open(res_path))
    run.cov["traces_validated_against_impl"] += res["runs"]
    run.cov["evaluations"] += res["runs"]
    run.cov["distinct_nontrivial"] += res["distinct_nontrivial"]
    for s in res["samples"] or []:
        run.sample({"b1_vector": s})
    for m in res["mismatches"] or []:
        v = m["vector"]
        run.violation("b1:%s:%s" % (m["variant"], m["kind"]),
                      "scanner %s: %s on script %s (buf %d): got %s, spec tokens %s" % (
                          m["variant"], m["kind"], [(b2s(x["d"]), x["e"]) for x in v["reads"]], v["buf"],
                          m["got"], [b2s(t) for t in v["toks"]]), m)
    batch_replay_report(run, json.load(open(bres_path)))
    # ---- B2: recorded random executions validated against the abstract Scanner
    res, r = tres, tr_r
    ntr = sum(1 for line in open(tr) if '"event":"reset"' in line)
    run.cov["traces_validated_against_impl"] += ntr
    run.cov["evaluations"] += ntr
    run.cov["distinct_nontrivial"] += ntr
    run.cov["b2_events"] = res["consumed"]
    with open(tr) as f:
        run.sample({"b2_trace_head": [json.loads(next(f)) for _ in range(6)]})
    if not res["done"] and not any(b["t"] == ntr for b in res["bad"]):
        raise Inconclusive("last trace incomplete")
    for bad in res["bad"]:
        sl = trace_slice(tr, bad["t"])
        ev = open(tr).read().splitlines()[bad["l"] - 1]
        path = run.save_replay("trace-%d.ndjson" % bad["t"], sl)
        variant = json.loads(sl.splitlines()[0])["variant"]
        run.violation("b2:%s:%s" % (variant, json.loads(ev)["event"]),
                      "recorded execution of the %s %s is not a behaviour of Scanner.tla: rejected event %s" % (
                          variant, "path" if variant.startswith("batcher-") else "scanner", ev[:300]), path)
    run.cov["rule"] = ("B3: all behaviours of ScannerImm/ScannerBuf within bounds; B1: every complete model behaviour "
                       "(reader script) replayed on both real scanners, non-trivial = >1 token; "
                       "B2: seeded random streams/chunkings/failures, one trace each; batching layer: B3 all behaviours of "
                       "ScannerBatch (scanner x batch views x timer x release) within bounds + negative controls, B1 every "
                       "complete behaviour (script with pauses, batch size 1..4,100) on the real timed path (two consumer "
                       "disciplines, every batch held to the end) and the file path, non-trivial = >1 batch; B2 random "
                       "pausing sources through VerifOpenReaderToChan / OpenReaderToChan (250 ms) / OpenFilesToChan")

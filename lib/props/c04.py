"""C04 - line splitting is exact and returned buffers are never overwritten."""
import json
import os
from vf import Inconclusive, parallel, require_clean, validate_traces, trace_slice, vfj_lines, b2s

CLAIM = {
    "text": "TLC exhaustively checks implementation-shaped models of both scanners (ScannerImm/ScannerBuf: every stream over {a,CR,LF} up to the bound, every chunking, stall and failure position, buffer sizes 1..4) for exact splitting, single error report, no read after the end, the end being final (Scan() called again: nothing read, returned or reported), buffer lifetime (no write under a handed-out view), refinement of the abstract Scanner and termination; ScannerBatch composes ScannerImm with the batching layer of batcher.go that sits directly on the scanner (the current batch as a view into a numbered backing array of slice headers, full / timer / final flushes, BatchStart, batches held by the channel or the consumer and released at any time, time passing inside Read or anywhere) and checks that no step writes a slot of a held batch, that every held batch still reads the lines start..start+n-1 of the byte stream, that the batches partition the scanner's lines in order with BatchStart the running count, and termination - with the negative controls 'backing array recycled after a timer flush' and 'after a full flush' refuted and 'after the final flush' passing. Every complete model behaviour is replayed on the real scanners (Scan/Bytes, ReadLine, with and without error callback, two more Scan() calls after the end, retained slices re-read at the end) and on the real batcher paths (syncReaderToBatcherWithTimeFlush through batchers.VerifOpenReaderToChan with a 10 ms interval and a scripted source whose pauses force timer flushes of partial batches, batch sizes 1..4 and 100, a prompt and a queue-everything consumer that hold EVERY batch to the end and re-read all lines; syncReaderToBatcher through OpenFilesToChan); ScannerStall extends ScannerImm with the reader's script as a history, runs of several stalls in a row, a Read without room answered (0, nil) for ever, and a design space (no-progress guard none / total / consecutive with a budget; growth rule of the code / of the buffered variant): a stall changes nothing (StallNoop, StallReturns), the outcome of a script is that of the script without its stalls (StallLaw), Read is never asked for nothing (RoomToRead) and no buffer is allocated without new input (WorkBound), with 'stalls counted over the whole stream', 'consecutive stalls within the environment's bound' and 'buffered growth rule at buffer size 1' refuted and the same designs outside their failing range passing. Every TLC vector with stalls is replayed again with its stalls stretched to 150 / 1 100 / 12 000 in total; long stall histories (one run of 150..12 000 stalls, a stall before each of several hundred chunks, random runs; every scanner variant, buffer sizes 1, 2, 3 and larger) are recorded and validated by TLC; every scanner run is under a watchdog (a scan that does not return, confirmed by a second run alone with a longer deadline, is a violation: hang). seeded random real executions (incl. the 128 KiB production wiring, pausing sources, the production 250 ms path, several files per call) are validated by TLC against the abstract spec.",
    "note": "Bounded: exhaustive only within the stated stream length/alphabet/buffer and batch sizes; beyond that seeded random traces. Where a batch is cut is time-dependent and not part of the verdict (only: lines, order, BatchStart, 1 <= length <= batch size). Trusted: Go runtime, the scripted io.Reader of the harness, TLC.",
    "technique": "TLA+ refinement model checking (TLC) with negative controls + model-behaviour replay + trace validation",
}

ALPHA = "{97, 13, 10}"
INVS = "Bounds PrefixOK EndOK ErrOK NoReadAfterEnd Lifetime"


def mc_cfg(maxlen, buf, stall=1):
    # SpecA: Spec + Scan() called again after it returned false (EndIsFinal: nothing happens any more)
    return ("SPECIFICATION SpecA\nCONSTANTS Alphabet = %s\n MaxLen = %d\n BufSize = %d\n MaxStall = %d\n"
            "INVARIANTS %s\nPROPERTIES Refines Terminates EndIsFinal\nCHECK_DEADLOCK FALSE\n" % (ALPHA, maxlen, buf, stall, INVS))


def gen_cfg(maxlen, buf, stall=1):
    return ("INIT GInit\nNEXT GNext\nCONSTANTS Alphabet = %s\n MaxLen = %d\n BufSize = %d\n MaxStall = %d\n"
            "INVARIANTS Dump\nCHECK_DEADLOCK FALSE\n" % (ALPHA, maxlen, buf, stall))


BINVS = INVS + " BTypeOK BatchLifetime BatchLinesOK PartitionOK KindOK BFinalOK"


def bmc_cfg(maxlen, buf, pb, timed, reuse="never", invs=BINVS, props="BatchStable ScannerIsImm BTerminates"):
    return ("SPECIFICATION BSpec\nCONSTANTS Alphabet = %s\n MaxLen = %d\n BufSize = %d\n MaxStall = 1\n PBatch = %d\n"
            " Timed = %s\n ReuseOn = \"%s\"\nINVARIANTS %s\n%sCHECK_DEADLOCK FALSE\n" % (
                ALPHA, maxlen, buf, pb, "TRUE" if timed else "FALSE", reuse, invs,
                ("PROPERTIES %s\n" % props) if props else ""))


def bgen_cfg(maxlen, pb, timed):
    # the batcher always runs the scanner with its 128 KiB buffer: no regrow in the generated behaviours
    return ("INIT GInit\nNEXT GNext\nCONSTANTS Alphabet = {97, 10}\n MaxLen = %d\n BufSize = %d\n MaxStall = 0\n PBatch = %d\n"
            " Timed = %s\n ReuseOn = \"never\"\nINVARIANTS Dump\nCHECK_DEADLOCK FALSE\n" % (
                maxlen, maxlen + 4, pb, "TRUE" if timed else "FALSE"))


SINVS = INVS + " RoomToRead WorkBound StallReturns StallLaw ScriptOK"


def stall_cfg(maxlen, buf, stall, guard="none", budget=0, grow="imm", invs=SINVS, props="Refines Terminates StallNoop", alpha=ALPHA):
    return ("SPECIFICATION SSpec\nCONSTANTS Alphabet = %s\n MaxLen = %d\n BufSize = %d\n MaxStall = %d\n Guard = \"%s\"\n"
            " Budget = %d\n GrowRule = \"%s\"\nINVARIANTS %s\n%sCHECK_DEADLOCK FALSE\n" % (
                alpha, maxlen, buf, stall, guard, budget, grow, invs, ("PROPERTIES %s\n" % props) if props else ""))


def stall_model_jobs(run, quick):
    """B3 for stalls and progress (ScannerStall.tla): the code's design, the refuted designs, the harmless ones."""
    jobs = []
    small = "{97, 10}"
    if quick:
        cfgs = [(3, 1, 3, small), (3, 2, 2, small), (3, 3, 2, small)]
    else:
        cfgs = [(4, 1, 3, ALPHA), (4, 2, 3, ALPHA), (4, 3, 3, small), (3, 4, 4, small)]
    for ml, b, ms, al in cfgs:
        jobs.append(lambda ml=ml, b=b, ms=ms, al=al: ("smc", (ml, b, ms), run.tlc(
            "ScannerStall", stall_cfg(ml, b, ms, alpha=al), workers=3, timeout=3000, coverage=(b == 1),
            label="ScannerStall MaxLen=%d BufSize=%d MaxStall=%d (the code: no guard, growth pending+bufSize)" % (ml, b, ms))))
    # refuted designs: (guard, budget, growth, BufSize, MaxStall, violated invariant)
    negs = [("total", 3, "imm", 2, 1, "ErrOK"), ("total", 3, "imm", 2, 1, "StallLaw"), ("total", 3, "imm", 1, 1, "EndOK"),
            ("consecutive", 2, "imm", 2, 2, "ErrOK"), ("none", 0, "buffered", 1, 1, "RoomToRead"),
            ("none", 0, "buffered", 1, 1, "WorkBound")]
    for g, bud, gr, b, ms, inv in negs:
        jobs.append(lambda g=g, bud=bud, gr=gr, b=b, ms=ms, inv=inv: ("sneg", (g, bud, gr, b, inv), run.tlc(
            "ScannerStall", stall_cfg(3, b, ms, g, bud, gr, inv, None, small), workers=2, timeout=3000,
            label="ScannerStall Guard=%s Budget=%d GrowRule=%s BufSize=%d [%s] negative control: must be violated" % (g, bud, gr, b, inv))))
    # the same designs where they cannot fail: a consecutive guard beyond the environment's bound; the buffered rule at sizes >= 2
    for g, bud, gr, b, ms in [("consecutive", 3, "imm", 2, 2), ("none", 0, "buffered", 2, 1), ("none", 0, "buffered", 3, 1)]:
        jobs.append(lambda g=g, bud=bud, gr=gr, b=b, ms=ms: ("smc", (3, b, ms), run.tlc(
            "ScannerStall", stall_cfg(3, b, ms, g, bud, gr, alpha=small), workers=2, timeout=3000,
            label="ScannerStall Guard=%s Budget=%d GrowRule=%s BufSize=%d MaxStall=%d (harmless control: must pass)" % (g, bud, gr, b, ms))))
    # the plain models with runs of three stalls in a row
    sl = 4 if quick else 5
    for mod, b in (("ScannerImm", 2), ("ScannerBuf", 2)):
        jobs.append(lambda mod=mod, b=b: ("mc", (mod, -b), run.tlc(mod, mc_cfg(sl, b, 3), workers=3, timeout=3000,
                                                                  label="%s MaxLen=%d BufSize=%d MaxStall=3" % (mod, sl, b))))
    return jobs


def stall_model_result(run, kind, what, r):
    if kind == "sneg":
        if what[4] not in r.violated:
            raise Inconclusive("negative control passed: ScannerStall %s does not violate %s\n%s" % (what, what[4], r.out[-2000:]))
        return
    require_clean(run, r, "ScannerStall %s" % (what,))
    if r.coverage:
        zero = [a for a in ("SGrow", "SRead") if r.coverage.get("ScannerStall." + a, (0, 0))[0] == 0]
        if zero:
            raise Inconclusive("vacuous model: ScannerStall actions never taken: %s" % zero)


def batch_model_jobs(run, quick):
    """B3 for the batching layer on top of the scanner (ScannerBatch.tla) incl. negative controls."""
    jobs = []
    if quick:
        cfgs = [(4, 2, 2, True), (3, 1, 2, True), (3, 3, 2, True), (3, 2, 1, True), (3, 2, 3, True), (3, 2, 2, False), (4, 2, 3, False)]
    else:
        cfgs = [(5, b, pb, t) for b in (1, 2, 3) for pb in (1, 2, 3) for t in (True, False)] + \
               [(6, 2, 2, True), (6, 3, 3, True), (6, 2, 3, False)]
    for ml, b, pb, t in cfgs:
        # the largest models (MaxLen 6, 1-2 M states): invariants only; the action properties and liveness are
        # checked on every smaller configuration
        jobs.append(lambda ml=ml, b=b, pb=pb, t=t: ("bmc", (ml, b, pb, t), run.tlc(
            "ScannerBatch", bmc_cfg(ml, b, pb, t, props=("" if ml >= 6 and t else "BatchStable ScannerIsImm BTerminates")),
            workers=4, timeout=3000, coverage=(b == 2 and pb == 2 and ml < 6),
            label="ScannerBatch MaxLen=%d BufSize=%d PBatch=%d Timed=%s" % (ml, b, pb, t))))
    # negative controls: recycling the batch's backing array after a timer flush / a full flush must be
    # refuted on every statement of the batch lifetime; after the final flush it is harmless
    negs = [("timer", "BatchLifetime", None), ("timer", "BatchLinesOK", None), ("timer", "BTypeOK", "BatchStable"),
            ("full", "BatchLifetime", None)]
    if not quick:
        negs += [("full", "BatchLinesOK", None), ("full", "BTypeOK", "BatchStable")]
    for reuse, inv, prop in negs:
        jobs.append(lambda reuse=reuse, inv=inv, prop=prop: ("bneg", (reuse, prop or inv), run.tlc(
            "ScannerBatch", bmc_cfg(4, 2, 2, True, reuse, inv, prop), workers=2, timeout=3000,
            label="ScannerBatch ReuseOn=%s [%s] negative control: must be violated" % (reuse, prop or inv))))
    fl = 3 if quick else 5
    jobs.append(lambda: ("bmc", (fl, 2, 2, "final"), run.tlc(
        "ScannerBatch", bmc_cfg(fl, 2, 2, True, "final"), workers=4, timeout=3000,
        label="ScannerBatch ReuseOn=final (harmless control: must pass)")))
    return jobs


def batch_model_result(run, kind, what, r):
    if kind == "bneg":
        if what[1] not in r.violated:
            raise Inconclusive("negative control passed: ScannerBatch ReuseOn=%s does not violate %s\n%s" % (what[0], what[1], r.out[-2000:]))
        return
    require_clean(run, r, "ScannerBatch %s" % (what,))
    if r.coverage:
        acts = ["BScan", "BAppend", "FlushFull", "NoFlush", "FlushFinal", "Release"]
        if what[3] is True:
            acts += ["FlushTimer", "TickRead", "TickAny"]
        zero = [a for a in acts if r.coverage.get("ScannerBatch." + a, (0, 0))[0] == 0]
        if zero:
            raise Inconclusive("vacuous model: ScannerBatch actions never taken: %s" % zero)


def batch_gen_jobs(run, quick):
    gl = 4 if quick else 5
    jobs = []
    for pb in (1, 2, 3, 4, 100):
        for timed in (True, False):
            if quick and not timed and pb == 4:
                continue
            jobs.append(lambda pb=pb, timed=timed: ("bgen", (pb, timed), run.tlc(
                "ScannerBatch_Gen", bgen_cfg(gl, pb, timed), workers=2, timeout=3000,
                label="ScannerBatch_Gen MaxLen=%d PBatch=%d Timed=%s" % (gl, pb, timed))))
    return jobs


def batch_replay_report(run, res):
    """B1 for the batching layer: every complete behaviour of ScannerBatch_Gen replayed on the real batcher paths."""
    mism = res["mismatches"] or []
    stats = {k: v for k, v in res.items() if k not in ("mismatches", "samples")}
    if any(m["kind"] == "hang" for m in mism):
        raise Inconclusive("batcher replay: the harness timed out waiting for the batch channel to close")
    run.cov["traces_validated_against_impl"] += res["runs"]
    run.cov["evaluations"] += res["runs"]
    run.cov["distinct_nontrivial"] += res["distinct_nontrivial"]
    run.cov["b1_batch"] = stats
    for s in res["samples"] or []:
        run.sample({"b1_batch_vector": s})
    seen = {}
    for m in mism:
        sig = "b1:batch:%s:%s" % (m["path"], m["kind"])
        seen[sig] = seen.get(sig, 0) + 1
        if seen[sig] > 3:
            continue
        v = m["vector"] or {}
        run.violation(sig, "batcher (%s, batch size %s): %s on script %s: got %s; spec lines %s in batches %s%s" % (
            m["path"], v.get("pb"), m["kind"], [(b2s(x["d"]), x["e"], "pause" if x["p"] else "") for x in v.get("reads", [])],
            json.dumps(m["got"])[:400], [b2s(t) for t in v.get("toks", [])],
            [(b["start"], b["n"], b["kind"]) for b in v.get("batches", [])],
            "" if seen[sig] < 3 else " (%d more of this class not shown)" % (sum(1 for x in mism if "b1:batch:%s:%s" % (x["path"], x["kind"]) == sig) - 3)), m)
    # the schedules must really have exercised the timer path (partial batches flushed before the end)
    if not mism and (res["partial_batches_observed"] < 1000 or res["timed_realized"] * 2 < res["timed_runs"]):
        raise Inconclusive("batcher replay did not realise the schedules: %s" % stats)


def b2_report(run, tr, res, prefix, sample=False):
    """verdict of one recorded-trace file validated by Scanner_Trace: every rejected trace is a violation"""
    lines = open(tr).read().splitlines()
    resets = [json.loads(x) for x in lines if '"event":"reset"' in x]
    ntr = len(resets)
    last_tid = resets[-1]["t"] if resets else 0
    run.cov["traces_validated_against_impl"] += ntr
    run.cov["evaluations"] += ntr
    run.cov["distinct_nontrivial"] += ntr
    run.cov[prefix.replace(":", "_") + "_events"] = res["consumed"]
    if sample:
        run.sample({"b2_trace_head": [json.loads(x) for x in lines[:6]]})
    if not res["done"] and not any(b["t"] == last_tid for b in res["bad"]):
        raise Inconclusive("last trace incomplete")
    seen = {}
    for bad in res["bad"]:
        sl = trace_slice(tr, bad["t"])
        ev = lines[bad["l"] - 1]
        evj = json.loads(ev)
        variant = json.loads(sl.splitlines()[0])["variant"]
        sig = "%s:%s:%s" % (prefix, variant, evj["event"])
        seen[sig] = seen.get(sig, 0) + 1
        if seen[sig] > 5:
            continue
        path = run.save_replay("trace-%s-%d.ndjson" % (prefix.replace(":", "-"), bad["t"]), sl)
        what = "path" if variant.startswith("batcher-") else "scanner"
        if evj["event"] == "hang":
            text = ("%s scanner (buffer size %s): Scan() did not return (watchdog, confirmed by a second run alone; %s Read calls, "
                    "%s of them with an empty slice) on script %s" % (
                        variant, json.loads(sl.splitlines()[0])["size"], evj.get("read_calls"),
                        evj.get("read_calls_with_empty_slice"), json.dumps(evj.get("script"))[:300]))
        else:
            text = "recorded execution of the %s %s is not a behaviour of Scanner.tla: rejected event %s" % (variant, what, ev[:300])
        run.violation(sig, text, path)
    for sig, n in seen.items():
        if n > 5:
            print("note: %d more rejected traces of class %s not shown" % (n - 5, sig))


def check(run):
    quick = run.tier == "quick"
    run.assumptions += [
        "io.Reader contract: a reader returns n<=len(p); (0,nil) is allowed only finitely often (any finite number, in a row "
        "or spread: the unchanged scanners have no no-progress guard, the corpus holds runs of up to 12 000 stalls in a row - a "
        "guard that gives up on a healthy reader within that range is reported); a Read with an empty slice returns (0,nil)",
        "a scan that has not returned after 5 s and again, run alone, after 15 s (the scripts need microseconds) is a hang",
        "B3 bounds: alphabet {a,CR,LF}, total stream length and buffer sizes as listed in tlc_runs",
        "batching layer: the verdict binds to the lines (at hand-out and re-read at the end), BatchStart = running count, "
        "1 <= batch length <= batch size; WHERE a batch is cut is not demanded (time-dependent; reported as coverage only)",
    ]
    run.build_harness()
    jto = os.environ.get("JAVA_TOOL_OPTIONS")
    if quick:
        # ~30 short TLC runs: most of their CPU time is JIT compilation; C1 only for them
        # (measured: 8 s -> 2.7 s CPU per generator run); restored before the long trace validation
        os.environ["JAVA_TOOL_OPTIONS"] = ((jto or "") + " -XX:TieredStopAtLevel=1").strip()
    tr = os.path.join(run.scratch, "c04-trace.ndjson")
    # ---- all TLC model runs in one pool; the B2 recording (Go only) runs beside it
    # B3: exhaustive model check of the implementation-shaped models + refinement + liveness
    ml = 5 if quick else 7
    jobs = []
    for mod, bufs in (("ScannerImm", (1, 2, 3) if quick else (1, 2, 3, 4)),
                      ("ScannerBuf", (2, 3) if quick else (2, 3, 4, 5))):
        for b in bufs:
            jobs.append(lambda mod=mod, b=b: ("mc", (mod, b), run.tlc(mod, mc_cfg(ml, b), workers=4, label="%s MaxLen=%d BufSize=%d" % (mod, ml, b),
                                                                      coverage=(b == 2), timeout=3000)))
    jobs += batch_model_jobs(run, quick)
    jobs += stall_model_jobs(run, quick)
    # B1 generators: every complete behaviour of the models
    gl = 4 if quick else 5
    for mod, bufs in (("ScannerImm_Gen", (1, 2, 3)), ("ScannerBuf_Gen", (2, 3))):
        for b in bufs:
            jobs.append(lambda mod=mod, b=b: ("gen", (mod, b), run.tlc(mod, gen_cfg(gl, b), workers=4, timeout=3000,
                                                                       label="%s MaxLen=%d BufSize=%d" % (mod, gl, b))))
    jobs += batch_gen_jobs(run, quick)

    def record():
        return run.drv(["trace", "-out", tr, "-n", 400 if quick else 4000, "-maxlen", 300 if quick else 1500,
                        "-big", 1 if quick else 4, "-bt", 300 if quick else 3000, "-b250", 2 if quick else 12,
                        "-bfiles", 20 if quick else 200])
    str_path = os.path.join(run.scratch, "c04-stalltrace.ndjson")

    def record_stalls():
        return run.drv(["stalltrace", "-out", str_path] + ([] if quick else ["-thorough"]))
    try:
        results, _, _ = parallel([lambda: parallel(jobs, 4), record, record_stalls], 3)
    finally:
        if jto is None:
            os.environ.pop("JAVA_TOOL_OPTIONS", None)
        else:
            os.environ["JAVA_TOOL_OPTIONS"] = jto
    vec_path = os.path.join(run.scratch, "c04-vectors.ndjson")
    bvec_path = os.path.join(run.scratch, "c04-bvectors.ndjson")
    nvec, nbvec = 0, 0
    with open(vec_path, "w") as f, open(bvec_path, "w") as bf:
        for kind, what, r in results:
            if kind in ("smc", "sneg"):
                stall_model_result(run, kind, what, r)
            elif kind == "mc":
                mod, b = what
                require_clean(run, r, "%s buf=%d" % (mod, b))
                if b == 2:
                    zero = [a for a, (n, _) in r.coverage.items() if n == 0 and a.split(".")[1] in
                            ("Call", "Restart", "Grow", "Read", "OnErr", "Check", "Search", "Fill", "Again")]
                    if zero:
                        raise Inconclusive("vacuous model: actions never taken: %s" % zero)
            elif kind in ("bmc", "bneg"):
                batch_model_result(run, kind, what, r)
            else:
                if r.violated or r.errors:
                    raise Inconclusive("generator failed: %s" % r.out[-2000:])
                for v in vfj_lines(r.out):
                    if kind == "gen":
                        f.write(json.dumps(v, separators=(",", ":")) + "\n")
                        nvec += 1
                    else:
                        bf.write(json.dumps(v, separators=(",", ":")) + "\n")
                        nbvec += 1
    if nvec < 1000:
        raise Inconclusive("generator produced only %d vectors" % nvec)
    if nbvec < 5000:
        raise Inconclusive("batch generator produced only %d vectors" % nbvec)
    # ---- B1 replays (Go) and B2 validation (TLC) side by side
    res_path = os.path.join(run.scratch, "c04-replay.json")
    bres_path = os.path.join(run.scratch, "c04-breplay.json")
    _, _, (tres, tr_r), (sres, str_r) = parallel([
        lambda: run.drv(["replay", "-in", vec_path, "-out", res_path] + ([] if quick else ["-allstalls"])),
        lambda: run.drv(["breplay", "-in", bvec_path, "-out", bres_path, "-interval", 10, "-pause", 25, "-par", 512]),
        lambda: validate_traces(run, "Scanner_Trace", tr, invariants=("Final", "ErrOnce"), xmx="12g"),
        lambda: validate_traces(run, "Scanner_Trace", str_path, invariants=("Final", "ErrOnce"), xmx="4g",
                                label="Scanner_Trace (long stall histories)")], 4)
    # ---- B1: every complete behaviour of the models replayed on the real scanners
    res = json.load(open(res_path))
    run.cov["traces_validated_against_impl"] += res["runs"]
    run.cov["evaluations"] += res["runs"]
    run.cov["distinct_nontrivial"] += res["distinct_nontrivial"]
    for s in res["samples"] or []:
        run.sample({"b1_vector": s})
    run.cov["b1_scanner"] = {k: res.get(k) for k in ("runs", "stall_runs", "max_stalls_in_a_script", "hangs_confirmed",
                                                     "skipped_after_hangs", "slow_not_hung")}
    if not res["mismatches"] and (res.get("stall_runs", 0) < (20000 if quick else 100000) or res.get("max_stalls_in_a_script", 0) < 12000):
        raise Inconclusive("replay did not exercise long stall histories: %s" % run.cov["b1_scanner"])
    seen = {}
    for m in res["mismatches"] or []:
        v = m["vector"]
        sig = "b1:%s:%s" % (m["variant"], m["kind"])
        seen[sig] = seen.get(sig, 0) + 1
        if seen[sig] > 5:
            continue
        more = sum(1 for x in res["mismatches"] if "b1:%s:%s" % (x["variant"], x["kind"]) == sig) - 5
        run.violation(sig, "scanner %s: %s on script %s (buf %d%s): got %s, spec tokens %s%s%s" % (
            m["variant"], m["kind"], [(b2s(x["d"]), x["e"]) for x in v["reads"]], v["buf"],
            ", every stall of the script served %d times in a row" % m["got"]["stall_mul"]
            if isinstance(m["got"], dict) and m["got"].get("stall_mul", 1) > 1 else "",
            json.dumps(m["got"])[:400], [b2s(t) for t in v["toks"]],
            " - Scan() did not return (watchdog, confirmed by a second run alone)" if m["kind"] == "hang" else "",
            " (%d more of this class not shown)" % more if seen[sig] == 5 and more > 0 else ""), m)
    sk = res.get("skipped_after_hangs") or {}
    if sk:
        print("note: after 2 confirmed hangs per class the remaining scripts of the class were skipped: %s" % sk)
    batch_replay_report(run, json.load(open(bres_path)))
    # ---- B2: recorded random executions validated against the abstract Scanner
    b2_report(run, tr, tres, "b2", sample=True)
    # ---- B2: long stall histories validated against the abstract Scanner (a stall is a step that changes nothing)
    st = json.load(open(str_path + ".stats.json"))
    run.cov["b2_stalls"] = st
    if st["max_stalls_in_a_row"] < 12000 or st["total_stalls"] < 100000 or st["traces"] < 200:
        raise Inconclusive("stall corpus too small: %s" % st)
    b2_report(run, str_path, sres, "b2:stalls")
    run.cov["rule"] = ("B3: all behaviours of ScannerImm/ScannerBuf within bounds; B1: every complete model behaviour "
                       "(reader script) replayed on both real scanners, non-trivial = >1 token; "
                       "B2: seeded random streams/chunkings/failures, one trace each; stalls: B3 ScannerStall (design space guard x growth rule, "
                       "runs of stalls, Read without room) + controls, B1 every TLC vector with stalls again with the stalls stretched to "
                       ">= 150 / 1 100 / 12 000, B2 long stall histories (families run / each / random x 4 scanner variants x buffer sizes "
                       "1, 2, 3, 7, 64), all scans under a watchdog; batching layer: B3 all behaviours of "
                       "ScannerBatch (scanner x batch views x timer x release) within bounds + negative controls, B1 every "
                       "complete behaviour (script with pauses, batch size 1..4,100) on the real timed path (two consumer "
                       "disciplines, every batch held to the end) and the file path, non-trivial = >1 batch; B2 random "
                       "pausing sources through VerifOpenReaderToChan / OpenReaderToChan (250 ms) / OpenFilesToChan")

"""X03 (beyond the listed properties) - Ctrl-C during an aggregation: the program ends and shows exactly what it sampled.

Not registered in MANIFEST.json: properties.jsonl is fixed and does not mention the interrupt path. AggLoopInt.tla extends
AggLoop.tla (C05) with the signal channel of RunAggregationLoop; run with `bin/check X03`."""
import json
import os
from vf import Inconclusive, parallel, require_clean, validate_traces, vfj_lines

CLAIM = {
    "text": "AggLoopInt.tla adds the environment's SIGINT and the loop's `case <-exitSignal: break` to the C05 model of "
            "readers, workers, main loop, mutex and ticker; TLC checks over all interleavings and signal positions that the "
            "mutex discipline and the render/sample exclusion still hold, the final picture equals what was sampled, never "
            "shows more than the environment released, the matched total is not below it, one reader + one worker sample a "
            "prefix of the input, nothing changes without a signal, and that after a signal the program ends with fairness of "
            "the main loop and the ticker only (input may stall or never end); three designs (nobody listens, break with the "
            "mutex held, close instead of the rendezvous) are refuted. TLC-enumerated (input, signal position) scenarios and "
            "seeded stalling / never-ending / just-closed inputs are run through the real binary with a real SIGINT and "
            "every run is judged by AggLoopInt_Trace.",
    "note": "extra coverage, not a listed property",
    "technique": "TLA+ model checking (TLC, safety + liveness under partial fairness) + model-generated scenarios on the real binary + trace validation",
}
LEVEL = "model_checking"


def _cfg(files, w, r, design, spec, props, ticks=1):
    return ("SPECIFICATION %s\nCONSTANTS\n Files <- %s\n W = %d\n R = %d\n BCap = 1\n RCap = 1\n MaxTicks = %d\n EnvSteps = TRUE\n"
            " Fault = \"none\"\n IntDesign = \"%s\"\nINVARIANTS ISafe\n%sCHECK_DEADLOCK FALSE\n" % (
                spec, files, w, r, ticks, design, ("PROPERTIES %s\n" % props) if props else ""))


def check(run):
    quick = run.tier == "quick"
    rare = run.build_cli()
    run.build_harness()
    run.assumptions += [
        "the signal is sent at least 0.8 s after the process was started (a run that dies of the signal or does not end "
        "is repeated with 6 s / the full 20 s deadline; the second observation counts)",
        "lines held back in the reader's partial batch (the flush timer is only looked at when a line arrives) are not "
        "owed by the final picture: the laws are upper bounds, consistency and termination, plus exactness without a signal",
    ]
    # ---------------------------------------------------------------- B3
    jobs = []
    confs = [("InB", 1, 1), ("InF", 1, 1), ("InA", 2, 2)] if quick else [("InB", 1, 1), ("InF", 1, 1), ("InA", 2, 2), ("InD", 2, 2), ("InD", 2, 1)]
    for (f, w, r) in confs:
        for spec, props in (("ISpec", "Monotone Terminates2"), ("StallSpec", "IntTerminates")):
            jobs.append(lambda f=f, w=w, r=r, spec=spec, props=props: (
                "ok", run.tlc("AggLoopInt_MC", _cfg(f, w, r, "select", spec, props), workers=3, timeout=3000, xmx="3g",
                              coverage=(f == "InB" and spec == "ISpec"), label="AggLoopInt %s W=%d R=%d %s" % (f, w, r, spec))))
    for design, spec, props, want in (("nosig", "StallSpec", "IntTerminates", "IntTerminates"),
                                      ("lockedbreak", "ISpec", "", "ISafe"), ("closedone", "ISpec", "", "ISafe")):
        jobs.append(lambda design=design, spec=spec, props=props, want=want: (
            "neg:%s:%s" % (design, want), run.tlc("AggLoopInt_MC", _cfg("InB", 1, 1, design, spec, props), workers=1, timeout=900,
                                                  xmx="1g", label="AggLoopInt negative control: %s" % design)))
    gen_cfg = "INIT Init\nNEXT Next\nCONSTANTS MaxB = %d\nINVARIANTS Dump\nCHECK_DEADLOCK FALSE\n" % (2 if quick else 3)
    jobs.append(lambda: ("gen", run.tlc("AggLoopInt_Gen", gen_cfg, workers=1, timeout=900, label="AggLoopInt_Gen")))
    gen = None
    taken = {}
    for tag, r in parallel(jobs, 4):
        if tag.startswith("neg:"):
            _, design, want = tag.split(":")
            if want not in r.violated and not (want == "IntTerminates" and "<temporal>" in r.violated):
                raise Inconclusive("negative control %s not refuted (%s): %s" % (design, r.violated, r.out[-1500:]))
        elif tag == "gen":
            gen = r
        else:
            require_clean(run, r, "AggLoopInt")
            for a, (n, _) in (r.coverage or {}).items():
                taken[a] = taken.get(a, 0) + n
    need = ("Signal", "MInterrupt", "MRecv", "MClosed", "DoneRendezvous", "MFinalEnter", "TTick", "TRender")
    zero = [a for a, n in taken.items() if n == 0 and a.split(".")[-1] in need]
    if zero or not taken:
        raise Inconclusive("vacuous model: actions never taken: %s" % zero)
    if gen.violated or gen.errors:
        raise Inconclusive("generator failed: %s" % gen.out[-1500:])
    vectors = vfj_lines(gen.out)
    if len(vectors) < 500:
        raise Inconclusive("generator produced only %d scenarios" % len(vectors))
    # ---------------------------------------------------------------- B1 + B2 runs
    vpath = os.path.join(run.scratch, "x03-vectors.ndjson")
    with open(vpath, "w") as f:
        for v in vectors:
            f.write(json.dumps(v, separators=(",", ":")) + "\n")
    b1res, b1tr = os.path.join(run.scratch, "x03-b1.json"), os.path.join(run.scratch, "x03-b1-trace.ndjson")
    b2res, b2tr = os.path.join(run.scratch, "x03-b2.json"), os.path.join(run.scratch, "x03-b2-trace.ndjson")
    every = max(1, len(vectors) // (120 if quick else 1500))
    run.drv(["replay", "-rare", rare, "-in", vpath, "-every", every, "-out", b1res, "-trace", b1tr], timeout=3000)
    run.drv(["random", "-rare", rare, "-n", 60 if quick else 800, "-out", b2res, "-trace", b2tr], timeout=3000)
    res = json.load(open(b1res))
    res2 = json.load(open(b2res))
    run.cov["b1_runs"] = res["runs"]
    run.cov["evaluations"] += res["runs"] + res2["runs"]
    for m in res["mismatches"] or []:
        run.violation("b1:%s" % m["why"], "rare histo %s: final picture %s against the model's %s" % (
            m["cfg"], m["counts"], m.get("upper", m.get("total"))), m)
    for j in (res["junk"] or []) + (res2["junk"] or []):
        run.violation("junk", "rare histo %s: %s" % (j["cfg"], j["junk"]), j)
    # ---------------------------------------------------------------- B2 judge
    lines = open(b1tr).read().splitlines() + open(b2tr).read().splitlines()
    canary = []
    for k, ln in enumerate(lines[:: max(1, len(lines) // 25)]):
        c = json.loads(ln)
        c["t"] = -(k + 1)
        c["how"] = "exit"
        c["counts"][k % 3] += 1 + len(c["lines"])           # more than the input holds
        canary.append(json.dumps(c, separators=(",", ":")))
    both = os.path.join(run.scratch, "x03-trace.ndjson")
    with open(both, "w") as f:
        f.write("\n".join(lines + canary) + "\n")
    vres, r = validate_traces(run, "AggLoopInt_Trace", both)
    if vres["consumed"] != len(lines) + len(canary):
        raise Inconclusive("trace validation consumed %d of %d records" % (vres["consumed"], len(lines) + len(canary)))
    rejected = {b["t"] for b in vres["bad"] if b["t"] < 0}
    if len(canary) < 5 or len(rejected) != len(canary):
        raise Inconclusive("trace validation rejected %d of %d corrupted records" % (len(rejected), len(canary)))
    for b in vres["bad"]:
        if b["t"] < 0:
            continue
        rec = json.loads(lines[b["l"] - 1])
        for why in b["why"]:
            run.violation("b2:%s" % why, "rare histo %s: %d lines written (%d before the signal), picture %s, summary %s / %s, "
                          "exit %s, %s: AggLoopInt.tla rejects the run: %s" % (rec["cfg"], len(rec["lines"]), rec["upto"], rec["counts"],
                                                                               rec["matched"], rec["read"], rec["code"], rec["how"], why),
                          {k: v for k, v in rec.items() if k != "lines"} | {"lines": rec["lines"][:400]})
    run.cov["traces_validated_against_impl"] += len(lines)
    recs = [json.loads(ln) for ln in lines]
    run.cov["distinct_nontrivial"] = len({json.dumps(rc["cfg"]) for rc in recs if rc["signal"] and sum(rc["counts"]) < sum(1 for x in rc["lines"] if x)})
    run.cov["rule"] = "a run is non-trivial when a signal was sent and the final picture shows fewer matches than were written; distinct by scenario"
    run.cov["signal_runs"] = sum(1 for rc in recs if rc["signal"])
    run.sample({"vector": vectors[len(vectors) // 2]})
    run.sample({"run": {k: v for k, v in recs[-1].items() if k != "lines"}})

"""C08 - no template and no input line can crash expression compilation or evaluation."""
import array
import json
import os
import re
from vf import Inconclusive, parallel, require_clean, validate_traces, vfj_lines

LEVEL = "exploration"

CLAIM = {
    "category": "exploration",
    "text": "The oracle of this property is only 'Compile returns (an expression or errors) and every evaluation returns a string', so the "
            "level is exploration; what TLA+ contributes is the space and the behavioural model. ExprTotal.tla holds the signature table of "
            "all helpers registered in pkg/expressions/stdlib (name, arity range, kind of every argument position, positions that must be "
            "compile-time constants; cross-checked against the real registry on every run - a helper missing on either side makes the check "
            "inconclusive), boundary-value pools per kind (integers of every sign and magnitude up to beyond 2^64 as text, floats incl. NaN/Inf/"
            "denormals, empty/blank/NUL/non-UTF-8/70 kB strings, indices, NUL-separated arrays, sub-expressions with negative and huge group "
            "indices, time formats/zones/instants, printf formats, JSON paths, durations, paths, lookup tables, formulas), the resource "
            "exclusion (results of 10^7..10^18 elements for @range/@for/repeat/bar; overflow-sized counts stay in), the template printer over "
            "token sequences with the malformation operators (drop/duplicate/insert one of { } \" \\ blank, truncate, swap, trailing "
            "backslash), all byte strings over { } \\ \" blank a 1 ! NUL 0xff 0xc3, the {! ...} formula space, a funcs file, and the outcome "
            "class of every template (compiles / compile error / either). TLC enumerates the space exhaustively in groups (one position at a "
            "time through its whole pool in five spellings incl. inside @map, cross products of the core pools of up to three positions, pairs "
            "of constant positions, every malformation of every helper's call, formulas, funcs-file functions, histories of line kinds for "
            "stateful stages, whole lines through the real extractor with regex and dissect matchers) and draws random points of the full "
            "cross product in simulation mode. ExprScan.tla is the behavioural model - one compiled expression evaluated line after line, "
            "with the layout cache and pooled sub-contexts, panics and non-returning evaluations as forbidden environment faults; TLC proves "
            "'never aborted, every line a string, terminates' without faults and must find the violation with a fault enabled. Every "
            "generated scenario is a scan: the Go driver compiles the template with the real compiler (optimising and not) and evaluates ONE "
            "compiled expression on every line in order under recover() with a per-step deadline, in child processes (a hang, a memory "
            "blow-up or a fatal runtime error costs one child and is confirmed by a re-run alone before it is reported); a sample goes through "
            "`rare expression`, `rare filter -e` and `rare histogram -e`; a sample of the scans is recorded and validated by TLC against "
            "ExprScan (ExprScan_Trace). ExprScanPool.tla models what one evaluation leaves behind for a later one: the package-level LIFO pool "
            "of sub-contexts that the array helpers @map/@reduce/@filter/@for of ALL compiled expressions of a process share (5 objects, grows on "
            "demand), expressions as trees of nested helper calls, Get / parent-chain Lookup / Return as atomic actions of G goroutines that "
            "evaluate N lines with every expression in turn, the exit path of every activation (no element, elements, a sub-expression that "
            "answers a marker, @for's <INF> cap) chosen by the line. TLC proves Survives, Exclusive (no object handed out twice, none in the "
            "pool while held, no duplicate in the pool), ChainsOK, OwnLine, Conserved, Terminates for the discipline of the code (one deferred "
            "Return on every exit path, re-initialisation on every Get) and must refute each deviation: a double Return on one exit path (the "
            "counterexample is a HISTORY - the capped loop, then a nested evaluation whose inner context is its own parent: the lookup never "
            "ends), a missing re-initialisation, a leak (breaks only Conserved). ExprScanPool_Gen prints whole PROCESSES from those trees: an "
            "ignore expression, the extraction expression and a second KeyBuilder (two and three helpers deep, chains of six and seven beyond "
            "the pool's size, named keys / negative indices / formulas / funcs-file calls inside), a constant loop folded at Compile, and "
            "histories of lines that drive every exit path of every pooled helper, each followed by probe lines; every process is run in a "
            "child of its own - sequentially, from 3 goroutines at once, and through the real extractor (regex matcher, ignore set, 2 workers) "
            "- with a progress record written before every evaluation, so that a fatal runtime error (stack overflow, concurrent map access: "
            "no recoverable panic) is attributed to its evaluation, confirmed by a re-run alone and reported with the runtime's verdict in the "
            "signature; a sample runs through `rare filter` / `rare histogram` with -i and two -e of one invocation; all recorded process "
            "scans are validated by TLC against ExprScanPool_Trace. ExprText.tla / ExprSizes.tla / ExprSizesLaws.tla model the SIZES a helper is "
            "handed: a text as a sequence of character classes (ASCII, 2/3/4-byte letters, a letter whose upper case is longer, combining mark, "
            "invalid byte, truncated sequence, encoded surrogate, NUL) with its encoding and its length in bytes, runes, UTF-16 units, columns and "
            "array elements (the decoder of the Go runtime transcribed; TLC checks the table against it for every sequence), the window "
            "normalisation of substr transcribed (Norm), and a call's argument count against a staging buffer. ExprSizes is one evaluation: Clamp "
            "(in ClampUnit) / Cut (in CutUnit) and Alloc / Fill (buffer as long as the call, or fixed with/without fallback); TLC proves Survives, "
            "NormOK, Returns for the code's choices and for admissible refactorings (whole-value shortcut, fixed buffer with fallback) over all "
            "texts of <= L characters x all offsets around zero / the lengths / huge x all probed argument counts, and must refute 'clamp in "
            "bytes, cut a rune copy' (also behind a whole-value shortcut: the counterexample is then 'the last k' / 'all but the first') and 'a "
            "4- / 64-element buffer without fallback'. ExprSizesLaws proves that the pools replayed on the real code contain, for EVERY pair of "
            "units, a text on which they differ by more than any allocation slack (a crash needs the cut to pass the capacity, not only the "
            "length), with windows of every shape (suffix, inner, prefix beyond the shorter measure) among the offsets tried with it, texts of "
            "32/64 runes in 33/65 bytes, and for every helper without an argument limit every count up to 10, both sides of 16..128 and a count "
            "beyond every capacity up to 250. Those pools feed the generator: the texts are values of every string / array position of every "
            "helper (as match data and - through a placeholder the driver expands - as constants in the template, also next to malformed "
            "syntax), lines through the real extractor, group 'win' (substr in four spellings, select, @slice, @select, printf widths x texts x "
            "offsets around the text's length in every unit) and group 'ary' (every helper x the wide argument counts, all constant / all from "
            "the line / mixed); the driver compares the model's byte / rune / element counts of every pooled text with the real strings.",
    "note": "Exploration, not proof: the space is finite pools and bounded templates (value cross products for <= 5 arguments, plain calls up to "
            "257 (thorough 4097) arguments, nesting depth <= 3, byte strings <= 3 "
            "(quick) / 5 (thorough), formula token strings <= 3 / 4). Excluded as documented resource use: results of 10^7..10^18 elements "
            "(@range, @for, repeat, bar length), unbounded @for conditions with growing or long values. Outcome classes are only predicted for "
            "spellings without inner quotes/braces/backslashes. A deadline miss that is not reproduced alone is not reported. Concurrency of "
            "evaluations is checked for crashes only (values under concurrency are C10/C17's subject). Process scenarios use bounded loops "
            "except for the capped lines, whose loops keep a value of constant size and are not nested in another loop (10^12 rounds / a "
            "growing value are the documented resource class); an unguarded {@for x {lt {1} {key}} ..} costs 10^6 rounds inside Compile (the "
            "optimiser evaluates every stage once with empty keys and <BAD-TYPE> is truthy), nested in another loop it does not return in "
            "practice - noted, treated as that resource class. Trusted: TLC, the Go runtime, the operating system's process isolation.",
    "technique": "TLA+-defined input space (signature table, boundary pools, template grammar and malformation operators, resource exclusion) "
                 "enumerated and sampled by TLC, replayed as scans on the real compiler in watchdog-supervised child processes and the rare "
                 "binary; TLA+ scan state machine model-checked and used to validate recorded scans",
}


def check(run):
    try:
        _check(run)
    except Inconclusive:
        raise
    except Exception as e:  # infrastructure trouble is never a verdict
        import traceback
        raise Inconclusive("c08 check failed: %s\n%s" % (e, traceback.format_exc()))


def _gen_cfg(part, thorough):
    return ("INIT Init\nNEXT Next\nCONSTANTS Thorough = %s\n Part = \"%s\"\nINVARIANTS Dump\nCHECK_DEADLOCK FALSE\n"
            % ("TRUE" if thorough else "FALSE", part))


def _sim_cfg(thorough):
    return ("INIT SimInit\nNEXT SimStep\nCONSTANTS Thorough = %s\n Part = \"S\"\nCHECK_DEADLOCK FALSE\n"
            % ("TRUE" if thorough else "FALSE"))


def _scan_cfg(n, faults, props=True):
    return ("SPECIFICATION Spec\nCONSTANTS N = %d\n Faults = {%s}\nINVARIANTS TypeOK Survives EveryLineAString MarkersExplain PoolBalanced\n"
            "%sCHECK_DEADLOCK FALSE\n" % (n, ", ".join('"%s"' % f for f in faults), "PROPERTIES CacheSticky Terminates\n" if props else ""))


def _pool_cfg(which, g, n, p, maxobj, double=(), leak=(), noreset=(), invs=None, props=True):
    q = lambda xs: "{%s}" % ", ".join('"%s"' % x for x in xs)
    invs = invs or ("TypeOK", "Survives", "Exclusive", "ChainsOK", "OwnLine", "Conserved")
    return ("SPECIFICATION Spec\nCONSTANTS Which = \"%s\"\n Exprs <- MCExprs\n G = %d\n N = %d\n PoolSize = %d\n MaxObj = %d\n"
            " Double = %s\n Leak = %s\n NoReset = %s\nINVARIANTS %s\n%sCHECK_DEADLOCK FALSE\n"
            % (which, g, n, p, maxobj, q(double), q(leak), q(noreset), " ".join(invs), "PROPERTIES Terminates\n" if props else ""))


def _sizes_cfg(l, thorough, clamp="byte", cut="byte", shortcut=False, buf=0, fallback=False, invs=("TypeOK", "Survives", "NormOK", "Returns")):
    return ("INIT Init\nNEXT Next\nCONSTANTS L = %d\n ClampUnit = \"%s\"\n CutUnit = \"%s\"\n Shortcut = %s\n Buf = %d\n Fallback = %s\n Thorough = %s\n"
            "INVARIANTS %s\nCHECK_DEADLOCK FALSE\n" % (l, clamp, cut, "TRUE" if shortcut else "FALSE", buf, "TRUE" if fallback else "FALSE",
                                                       "TRUE" if thorough else "FALSE", " ".join(invs)))


def _helper(f):
    """helper name of a finding (mutation tags carry the argument count)."""
    return re.sub(r"\d+$", "", f) if f else "-"


def _norm(msg):
    msg = re.sub(r"0x[0-9a-f]+", "N", msg or "")
    msg = re.sub(r"-?\d+", "N", msg)
    return msg[:100]


def _check(run):
    quick = run.tier == "quick"
    run.assumptions += [
        "the oracle is totality only: Compile returns an expression or compile errors, BuildKey returns a string; values are not compared "
        "(C09-C11, C17-C19 do that)",
        "resource exclusion (ExprTotal.tla Admissible/RangeOK/ForCases, counting pools): argument combinations whose result has between 10^7 "
        "and 10^18 elements (@range, @for, repeat count, bar length) are outside the space, as the documentation warns; counts that overflow "
        "int32/int64 are inside",
        "a template that Compile rejects is still evaluated (Compile hands back what it built): it must return strings as well",
        "outcome classes (compiles / compile error) are cross-checks of the signature table; a disagreement means the table is out of date "
        "and makes the run inconclusive, it is not a violation of this property",
        "a per-step deadline of %d s (three times that in the confirming re-run, alone in a fresh process); a miss that is not reproduced is "
        "listed as unconfirmed and not reported" % (15 if quick else 30),
        "evaluations from several goroutines at once (process scenarios in mode par / extract) are checked for crashes only; their values are C10/C17's",
        "process scenarios run with a goroutine stack limit of 64 MiB (Go's default is 1 GiB): their templates nest at most 7 helpers, so an "
        "evaluation that needs more stack is a runaway recursion; the runtime's verdict (fatal error: stack overflow) is the same, only sooner",
        "a cut beyond a value's length (or a store beyond a buffer's) is observable on the real code only as a crash, i.e. beyond the "
        "allocation's capacity; assumed of the Go runtime: a buffer of n units has a capacity of at most max(32, n + n/4) units (ExprText "
        "SlackBound); a helper that merely reads slack returns a string and is not this property's subject (values are C11's)",
        "once 6 deaths of process scenarios of one class (runtime verdict + innermost frames) are confirmed by a re-run alone, further deaths of "
        "that class are counted but not re-run",
    ]
    run.build_harness()
    sc = run.scratch
    deadline = 15000 if quick else 30000

    # ---------------------------------------------------------------- registry cross-check material
    reg_path = os.path.join(sc, "c08-registry.json")
    run.drv(["registry", "-out", reg_path])
    registry = json.load(open(reg_path))

    state = {"values": None, "hashes": set(), "replays": [], "trace": None, "cli": None, "vecA": None, "proc": None}

    def write_vectors(r, path, values_row=None):
        seen = set()
        n = 0
        vals = None
        with open(path, "w") as f:
            for v in vfj_lines(r.out):
                if v["id"] in seen:
                    continue
                seen.add(v["id"])
                if v["g"] == "values":
                    vals = v
                f.write(json.dumps(v, separators=(",", ":")) + "\n")
                n += 1
            if vals is None and values_row is not None:
                f.write(json.dumps(values_row, separators=(",", ":")) + "\n")
        return n, vals

    def replay(tag, vec_path, tracemod=0, workers=4, ptrace=None):
        res_path = os.path.join(sc, "c08-replay-%s.json" % tag)
        hash_path = os.path.join(sc, "c08-hashes-%s.bin" % tag)
        args = ["replay", "-in", vec_path, "-out", res_path, "-workers", workers, "-deadline", deadline, "-hashes", hash_path]
        trace_path = None
        if tracemod:
            trace_path = os.path.join(sc, "c08-trace-%s.ndjson" % tag)
            args += ["-trace", trace_path, "-tracemod", tracemod]
        if ptrace:
            args += ["-ptrace", ptrace]
        run.drv(args, timeout=3000)
        res = json.load(open(res_path))
        res["tag"] = tag
        if os.path.exists(hash_path):
            a = array.array("Q")
            with open(hash_path, "rb") as f:
                a.frombytes(f.read())
            state["hashes"].update(a)
        state["replays"].append(res)
        return res, trace_path

    # ---------------------------------------------------------------- B3: the scan machine, and its negative controls
    def scan_mc():
        n = 3 if quick else 5
        r = run.tlc("ExprScan", _scan_cfg(n, []), workers=1, timeout=900, label="ExprScan N=%d no faults" % n, coverage=True)
        require_clean(run, r, "ExprScan (no faults)")
        dead = [a for a, (cnt, _) in r.coverage.items() if cnt == 0 and a.split(".")[1] in ("CompileOK", "CompileErr", "EvalLine", "Finish")]
        if dead:
            raise Inconclusive("ExprScan: actions never taken: %s" % dead)
        for fault, expect in (("panic", "Survives"), ("compile-panic", "Survives"), ("hang", "<temporal>")):
            rn = run.tlc("ExprScan", _scan_cfg(2, [fault]), workers=1, timeout=900, label="ExprScan negative control: %s" % fault)
            if expect not in rn.violated:
                raise Inconclusive("ExprScan with fault %s enabled: expected %s to be violated, got %s" % (fault, expect, rn.violated))
        run.cov["scan_model"] = "N=%d: %d states; faults panic/compile-panic/hang each rejected" % (n, r.distinct)

    # ---------------------------------------------------------------- B3: the shared pool of several expressions / goroutines
    def pool_mc():
        if quick:
            good = [("set3", 1, 2, 5, 8), ("setw", 1, 2, 5, 9), ("set2", 2, 1, 2, 6)]
        else:
            good = [("set3", 1, 3, 5, 8), ("setw", 1, 3, 5, 9), ("set2", 2, 2, 2, 6), ("setw", 2, 1, 2, 8), ("set3", 2, 1, 3, 9)]
        total = 0
        for which, g, n, p, mo in good:
            label = "ExprScanPool %s G=%d N=%d pool=%d" % (which, g, n, p)
            r = run.tlc("ExprScanPool_MC", _pool_cfg(which, g, n, p, mo), workers=1 if quick else 4, timeout=2400, label=label, coverage=(which == "set3" and g == 1))
            require_clean(run, r, label)
            total += r.distinct
            if r.coverage:
                dead = [a for a, (cnt, _) in r.coverage.items() if cnt == 0 and a.split(".")[1] in ("StartExpr", "EnterKid", "Lookup", "Exit")]
                if dead:
                    raise Inconclusive("ExprScanPool: actions never taken: %s" % dead)
        # negative controls: a deviation from the Get/Return discipline on ONE exit path must be found, and only through a history
        controls = [
            ("double Return on @for's <INF> path", dict(double=["for/inf"]), ("set2", 1, 2, 5, 9), "Survives"),
            ("double Return on @for's <INF> path", dict(double=["for/inf"]), ("set2", 1, 2, 5, 9), "Exclusive"),
            ("double Return on @filter's marker path", dict(double=["filter/err"]), ("set2", 1, 2, 5, 9), "Survives"),
            ("@map does not re-initialise its object", dict(noreset=["map"]), ("set2", 1, 2, 5, 9), "Survives"),
            ("@map does not re-initialise its object, two goroutines", dict(noreset=["map"]), ("set2", 2, 1, 2, 6), "OwnLine"),
            ("no Return on @filter's marker path", dict(leak=["filter/err"]), ("set2", 1, 2, 5, 9), "Conserved"),
        ]
        if quick:   # (the thorough tier runs all of them)
            controls = [c for k, c in enumerate(controls) if k not in (1, 4)]

        def control(c):
            what, dev, (which, g, n, p, mo), expect = c
            rn = run.tlc("ExprScanPool_MC", _pool_cfg(which, g, n, p, mo, invs=(expect,), props=False, **dev), workers=1, timeout=900,
                         label="ExprScanPool negative control: %s (%s)" % (what, expect))
            if expect not in rn.violated:
                raise Inconclusive("ExprScanPool with %s: expected %s to be violated, got %s" % (what, expect, rn.violated))

        def leak_ok():
            # ... while a leak alone (harmless for this property) leaves the crash-related invariants intact
            rl = run.tlc("ExprScanPool_MC", _pool_cfg("set2", 1, 2, 5, 9, leak=["filter/err"], invs=("Survives", "Exclusive", "ChainsOK", "OwnLine"), props=False),
                         workers=1, timeout=900, label="ExprScanPool: a leak does not break Survives/Exclusive/ChainsOK/OwnLine")
            require_clean(run, rl, "ExprScanPool with a leaking path")

        parallel([(lambda c=c: control(c)) for c in controls] + [leak_ok], 3)
        run.cov["pool_model"] = ("%d configurations, %d states without deviations; %d deviations (double Return on an exit path, missing "
                                 "re-initialisation, leak) each refuted" % (len(good), total, len(controls)))

    # ---------------------------------------------------------------- B3: sizes - the length of a text in every unit, the number of arguments
    def sizes_mc():
        th = not quick
        rl = run.tlc("ExprSizesLaws", "INIT Init\nNEXT Next\nCONSTANTS Thorough = %s\nINVARIANTS TableOK TextAdequate WindowAdequate BoundaryTexts "
                     "ArityAdequate\nCHECK_DEADLOCK FALSE\n" % ("TRUE" if th else "FALSE"), workers=1, timeout=900,
                     label="ExprSizesLaws (measure table vs encoding and decoder; pools adequate for every pair of units and every capacity)")
        require_clean(run, rl, "ExprSizesLaws")
        l = 2 if quick else 3
        good = [("code: clamp and cut in bytes, buffer as long as the call", dict()),
                ("refactoring: whole-value shortcut, 4-element buffer with fallback", dict(shortcut=True, buf=4, fallback=True))]
        if th:
            good.append(("clamp and cut in runes", dict(clamp="rune", cut="rune")))
            good.append(("clamp in runes, cut in bytes (never longer than the value: no crash)", dict(clamp="rune", cut="byte")))
        total = 0
        for what, kw in good:
            ll = l if kw == {} else l - 1
            r = run.tlc("ExprSizes", _sizes_cfg(ll, th, **kw), workers=1 if quick else 3, timeout=2400, label="ExprSizes L=%d %s" % (ll, what), coverage=(kw == {}))
            require_clean(run, r, "ExprSizes (%s)" % what)
            total += r.distinct
            if r.coverage:
                dead = [a for a, (cnt, _) in r.coverage.items() if cnt == 0 and a.split(".")[1] in ("Clamp", "Cut", "Alloc", "Fill")]
                if dead:
                    raise Inconclusive("ExprSizes: actions never taken: %s" % dead)
        controls = [("clamp in bytes, cut in runes", dict(clamp="byte", cut="rune")),
                    ("clamp in bytes, cut in runes, whole-value shortcut (the window of the counterexample is not the whole value)",
                     dict(clamp="byte", cut="rune", shortcut=True)),
                    ("4-element staging buffer without fallback", dict(buf=4)),
                    ("64-element staging buffer without fallback", dict(buf=64))]
        if th:
            controls += [("clamp in UTF-16 units, cut in runes", dict(clamp="u16", cut="rune")),
                         ("clamp in bytes, cut in columns", dict(clamp="byte", cut="col"))]

        def control(c):
            what, kw = c
            rn = run.tlc("ExprSizes", _sizes_cfg(1 if quick else 2, th, invs=("Survives",), **kw), workers=1, timeout=900, label="ExprSizes negative control: %s" % what)
            if "Survives" not in rn.violated:
                raise Inconclusive("ExprSizes with %s: expected Survives to be violated, got %s" % (what, rn.violated))
        parallel([(lambda c=c: control(c)) for c in controls], 2)
        run.cov["sizes_model"] = ("L=%d: %d states without deviations (code; shortcut + fixed buffer with fallback); %d deviations (unit confusion, "
                                  "fixed buffer without fallback) each refuted; pool laws hold" % (l, total, len(controls)))

    # ---------------------------------------------------------------- process scenarios: several expressions, histories, goroutines, extractor
    def part_proc():
        r = run.tlc("ExprScanPool_Gen", "INIT Init\nNEXT Next\nCONSTANTS Thorough = %s\nINVARIANTS Dump\nCHECK_DEADLOCK FALSE\n" % ("FALSE" if quick else "TRUE"),
                    workers=2, timeout=2400, xmx="6g", label="ExprScanPool_Gen (process scenarios)")
        require_clean(run, r, "ExprScanPool_Gen")
        path = os.path.join(sc, "c08-vec-P.ndjson")
        n, vals = write_vectors(r, path)
        if vals is None or n < 300:
            raise Inconclusive("generator of process scenarios produced %d vectors" % n)
        ptrace = os.path.join(sc, "c08-ptrace.ndjson")
        res, _ = replay("P", path, workers=6, ptrace=ptrace)
        modes = res.get("proc_modes") or {}
        if any(modes.get(m, 0) == 0 for m in ("seq", "par", "extract")) and not res.get("findings"):
            raise Inconclusive("process scenarios did not run in every mode: %s" % modes)
        if not res.get("inf_results") and not res.get("findings"):
            raise Inconclusive("no evaluation of the process scenarios ran into @for's iteration cap (<INF>): the early-exit path is not driven")
        # ---- the recorded process scans against ExprScanPool_Trace, with corrupted copies that must be rejected
        lines = open(ptrace).read().splitlines()
        nreal = len(lines)
        scans, cur = [], []
        for ln in lines:
            if '"event":"reset"' in ln and cur:
                scans.append(cur)
                cur = []
            cur.append(ln)
        if cur:
            scans.append(cur)
        canary_ids, tid, made = set(), 2000000000, 0
        for s in scans[::max(1, len(scans) // 80)]:
            evs = [json.loads(x) for x in s]
            li = [k for k, e in enumerate(evs) if e["event"] == "line"]
            if len(li) < 4 or evs[-1]["event"] != "end" or any(e["res"] != "string" for e in evs if e["event"] == "line"):
                continue
            kind = made % 4
            if kind == 0:      # the process died in an evaluation
                evs[li[len(li) // 2]]["res"] = "fatal"
                evs = evs[:li[len(li) // 2] + 1]
            elif kind == 1:    # an evaluation is missing
                del evs[li[1]]
            elif kind == 2:    # the scan claims more lines than it read
                evs[-1]["lines"] += 1
            else:              # an expression was evaluated twice on a line
                evs.insert(li[1], dict(evs[li[1]]))
            tid += 1
            for e in evs:
                e["t"] = tid
            canary_ids.add(tid)
            lines += [json.dumps(e, separators=(",", ":")) for e in evs]
            made += 1
        if made < 8:
            raise Inconclusive("too few recorded process scans to build canaries (%d scans)" % len(scans))
        tpath = os.path.join(sc, "c08-ptrace-all.ndjson")
        with open(tpath, "w") as f:
            f.write("\n".join(lines) + "\n")
        tres, _ = validate_traces(run, "ExprScanPool_Trace", tpath, label="ExprScanPool_Trace", timeout=2400, xmx="4g")
        if tres["consumed"] != len(lines) or not tres["done"]:
            raise Inconclusive("process trace validation consumed %d of %d events (done=%s)" % (tres["consumed"], len(lines), tres["done"]))
        rejected = {b["t"] for b in tres["bad"] if b["t"] in canary_ids}
        if rejected != canary_ids:
            raise Inconclusive("process trace validation rejected only %d of %d corrupted scans" % (len(rejected), len(canary_ids)))
        state["proc"] = {"res": res, "bad": [b for b in tres["bad"] if b["t"] not in canary_ids], "lines": lines, "nreal": nreal,
                         "scans": tres["scans"] - len(canary_ids), "canaries": len(canary_ids), "vec": path}

    # ---------------------------------------------------------------- generators + replay
    def part_a():
        r = run.tlc("ExprTotal_Gen", _gen_cfg("A", not quick), workers=3, timeout=2400, xmx="6g", label="ExprTotal_Gen part A (oat, for, hist, scan)")
        require_clean(run, r, "ExprTotal_Gen part A")
        path = os.path.join(sc, "c08-vec-A.ndjson")
        n, vals = write_vectors(r, path)
        if vals is None or n < 5000:
            raise Inconclusive("generator part A produced %d vectors / no value table" % n)
        state["values"] = vals
        state["vecA"] = path
        res, trace = replay("A", path, tracemod=7 if quick else 5)
        state["trace"] = trace
        return res

    def other(part, label, workers):
        r = run.tlc("ExprTotal_Gen", _gen_cfg(part, not quick), workers=workers, timeout=2400, xmx="6g", label="ExprTotal_Gen part %s (%s)" % (part, label))
        require_clean(run, r, "ExprTotal_Gen part " + part)
        path = os.path.join(sc, "c08-vec-%s.ndjson" % part)
        n, vals = write_vectors(r, path)
        if vals is None or n < 1000:
            raise Inconclusive("generator part %s produced %d vectors" % (part, n))
        return replay(part, path)[0]

    def part_sim():
        num = 4000 if quick else 100000
        r = run.tlc("ExprTotal_Gen", _sim_cfg(not quick), workers=2, timeout=2400, simulate="num=%d" % num, depth=10, deadlock=False,
                    label="ExprTotal_Gen simulation num=%d x 2 workers" % num)
        if r.errors:
            raise Inconclusive("simulation failed: %s\n%s" % (r.errors[:3], r.out[-2000:]))
        vr = run.tlc("ExprTotal_Gen", "INIT Init\nNEXT Next\nCONSTANTS Thorough = FALSE\n Part = \"V\"\nINVARIANTS Dump\nCHECK_DEADLOCK FALSE\n",
                     workers=1, timeout=600, label="ExprTotal_Gen value table")
        vals = [v for v in vfj_lines(vr.out) if v.get("g") == "values"]
        if not vals:
            raise Inconclusive("no value table")
        path = os.path.join(sc, "c08-vec-S.ndjson")
        n, _ = write_vectors(r, path, values_row=vals[0])
        if n < num // 2:
            raise Inconclusive("simulation produced only %d scenarios" % n)
        return replay("S", path)[0]

    def cli():
        rare = run.build_cli()
        return rare

    def lane1():
        scan_mc()
        pool_mc()
        return cli()

    def lane_bc():
        other("B", "full, cc, mut, raw, ff", 2)
        other("C", "math", 2)

    def lane_d():
        sizes_mc()
        res = other("D", "ary, win", 1 if quick else 2)
        pg = res.get("per_group") or {}
        if pg.get("ary", 0) < 1000 or pg.get("win", 0) < 400 or not res.get("texts_measured"):
            raise Inconclusive("part D replayed %s scenarios, %s texts measured" % (pg, res.get("texts_measured")))
        run.cov["texts_measured_against_runtime"] = res.get("texts_measured")

    rare, _, _, _, _, _ = parallel([lane1, part_a, lane_bc, part_sim, part_proc, lane_d], 6)

    # ---------------------------------------------------------------- CLI sample (needs part A's vectors and the binary)
    cli_path = os.path.join(sc, "c08-cli.json")
    run.drv(["cli", "-in", state["vecA"], "-rare", rare, "-out", cli_path, "-n", 240 if quick else 3000,
             "-nscan", 10 if quick else 60, "-timeout", 2 * deadline], timeout=3000)
    cli_res = json.load(open(cli_path))
    # ... and process scenarios: the ignore expression and the extraction expressions of ONE rare invocation (filter, histogram)
    pcli = os.path.join(sc, "c08-cli-proc.json")
    run.drv(["cli", "-in", state["proc"]["vec"], "-rare", rare, "-out", pcli, "-n", 0, "-nscan", 0, "-nproc", 12 if quick else 80,
             "-timeout", 2 * deadline], timeout=3000)
    pcli_res = json.load(open(pcli))
    cli_res["findings"] = (cli_res.get("findings") or []) + (pcli_res.get("findings") or [])
    cli_res["runs"] += pcli_res["runs"]
    cli_res["kinds"].update(pcli_res["kinds"])
    cli_res["unconfirmed_timeouts"] = cli_res.get("unconfirmed_timeouts", 0) + pcli_res.get("unconfirmed_timeouts", 0)
    cli_res["samples"] = (cli_res.get("samples") or [])[:2] + (pcli_res.get("samples") or [])[:1]

    # ---------------------------------------------------------------- B2: recorded scans against ExprScan
    trace = state["trace"]
    lines = open(trace).read().splitlines()
    nreal = len(lines)
    # canaries: corrupted copies of real scans must be rejected
    scans, cur = [], []
    for ln in lines:
        if '"event":"reset"' in ln and cur:
            scans.append(cur)
            cur = []
        cur.append(ln)
    if cur:
        scans.append(cur)
    canary_ids = set()
    tid = 2000000000
    made = 0
    for s in scans:
        evs = [json.loads(x) for x in s]
        if len(evs) < 4 or evs[1]["res"] != "ok" or evs[-1]["event"] != "end":
            continue
        kind = made % 3
        if kind == 0:      # a line panicked
            evs[2]["res"] = "panic"
        elif kind == 1:    # a line was never evaluated
            del evs[2]
        else:              # the scan ended early / claims more lines
            evs[-1]["lines"] += 1
        tid += 1
        for e in evs:
            e["t"] = tid
        canary_ids.add(tid)
        lines += [json.dumps(e, separators=(",", ":")) for e in evs]
        made += 1
        if made >= 60:
            break
    if made < 10:
        raise Inconclusive("too few recorded scans to build canaries (%d scans)" % len(scans))
    tpath = os.path.join(sc, "c08-trace-all.ndjson")
    with open(tpath, "w") as f:
        f.write("\n".join(lines) + "\n")
    tres, _ = validate_traces(run, "ExprScan_Trace", tpath, label="ExprScan_Trace", timeout=2400, xmx="4g")
    if tres["consumed"] != len(lines) or not tres["done"]:
        raise Inconclusive("trace validation consumed %d of %d events (done=%s)" % (tres["consumed"], len(lines), tres["done"]))
    rejected_canaries = set()
    b2_bad = []
    for bad in tres["bad"]:
        if bad["t"] in canary_ids:
            rejected_canaries.add(bad["t"])
        else:
            b2_bad.append(bad)
    if rejected_canaries != canary_ids:
        raise Inconclusive("trace validation rejected only %d of %d corrupted scans" % (len(rejected_canaries), len(canary_ids)))
    run.cov["b2_corrupted_scans_rejected"] = "%d of %d" % (len(rejected_canaries), len(canary_ids))
    run.cov["b2_scans_validated"] = tres["scans"] - len(canary_ids)
    run.cov["b2_events"] = nreal

    # ---------------------------------------------------------------- verdicts
    infra, mism, unconf = [], [], []
    tot = {"scenarios": 0, "compiles": 0, "evals": 0, "lines": 0, "markers": 0, "children": 0, "child_deaths": 0}
    per_group = {}
    for res in state["replays"]:
        infra += res.get("infra") or []
        if res["scenarios"] + len([f for f in res.get("findings") or [] if f["kind"] in ("hang", "oom", "fatal")]) + res.get("same_class_not_rerun", 0) < res["expected"]:
            infra.append("replay %s: %d of %d scenarios completed" % (res["tag"], res["scenarios"], res["expected"]))
        for k in tot:
            tot[k] += res.get(k, 0)
        for g, n in (res.get("per_group") or {}).items():
            per_group[g] = per_group.get(g, 0) + n
        mism += res.get("mismatches") or []
        unconf += res.get("unconfirmed") or []
        for s in (res.get("samples") or [])[:3]:
            run.sample(s)
        for f in res.get("findings") or []:
            helper = _helper(f["f"]) if f["g"] not in ("raw", "scan", "hist", "proc") else f["g"]
            # the class of a finding is where it happens: the innermost frame of rare (or of a library it calls) when there is a
            # stack, else the helper of the scenario - the same defect reached through different templates is one class
            site = (f.get("where") or "").split(" < ")[0] or helper
            sig = "%s:%s:%s:%s" % (f["kind"], f["phase"], site, _norm(f["msg"]))
            where = (" in " + f["where"]) if f.get("where") else ""
            run.violation(sig, "template %r (%s) %s during %s%s%s: %s%s" % (
                f["text"], f["id"], {"panic": "panics", "hang": "does not return", "oom": "exhausts memory", "fatal": "kills the process",
                                     "nilexpr": "yields neither an expression nor an error", "scan": "loses lines"}.get(f["kind"], f["kind"]),
                f["phase"], " (optimising)" if f.get("opt") else "", (" on line %d" % f["line"]) if f.get("line") else "", f["msg"], where), f)
    for f in cli_res.get("findings") or []:
        f.setdefault("where", "")
        sig = "cli:%s:%s:%s:%s" % (f["kind"], f["cmd"], _helper(f["f"]) if f["g"] not in ("raw", "scan", "hist", "proc") else f["g"], _norm(f["msg"]))
        run.violation(sig, "`rare %s` with template %r %s (exit status %s): %s %s" % (
            f["cmd"], f["text"], "does not return" if f["kind"] == "hang" else "crashes", f["status"], f["msg"], f["where"]), f)
    for bad in b2_bad:
        run.violation("b2:scan:%s:%s" % (bad["event"], bad["class"]),
                      "recorded scan %s is not a behaviour of ExprScan: event %d (%s) gives %s" % (bad["t"], bad["l"], bad["event"], bad["class"]),
                      {"bad": bad, "events": lines[max(0, bad["l"] - 6):bad["l"] + 1]})

    pr = state["proc"]
    for bad in pr["bad"]:
        run.violation("b2:proc:%s:%s" % (bad["event"], bad["class"]),
                      "recorded process scan %s is not a behaviour of ExprScanPool: event %d (%s) gives %s" % (bad["t"], bad["l"], bad["event"], bad["class"]),
                      {"bad": bad, "events": pr["lines"][max(0, bad["l"] - 8):bad["l"] + 1]})
    run.cov["process_scenarios"] = pr["res"]["scenarios"]
    run.cov["process_scenarios_per_mode"] = pr["res"].get("proc_modes")
    run.cov["process_evaluations"] = pr["res"].get("proc_evals")
    run.cov["process_results_inf"] = pr["res"].get("inf_results")
    run.cov["b2_process_scans_validated"] = pr["scans"]
    run.cov["b2_process_events"] = pr["nreal"]
    run.cov["b2_corrupted_process_scans_rejected"] = pr["canaries"]
    run.cov["traces_validated_against_impl"] += pr["scans"]
    run.cov["cli_runs"] = cli_res["runs"]
    run.cov["cli_kinds"] = cli_res["kinds"]
    run.cov["cli_unconfirmed_timeouts"] = cli_res.get("unconfirmed_timeouts", 0)
    for s in (cli_res.get("samples") or [])[:2]:
        run.sample({"cli": s})
    run.cov["scenarios"] = tot["scenarios"]
    run.cov["scenarios_per_group"] = per_group
    run.cov["compilations"] = tot["compiles"]
    run.cov["line_evaluations"] = tot["evals"]
    run.cov["results_with_error_marker"] = tot["markers"]
    run.cov["child_processes"] = tot["children"]
    run.cov["child_deaths"] = tot["child_deaths"]
    run.cov["unconfirmed"] = unconf[:10]
    run.cov["class_disagreements"] = len(mism)
    run.cov["evaluations"] += tot["compiles"] + tot["evals"] + cli_res["runs"]
    run.cov["traces_validated_against_impl"] += run.cov["b2_scans_validated"]
    run.cov["distinct_nontrivial"] += len(state["hashes"])
    run.cov["rule"] = ("cases are generated by TLC from ExprTotal.tla (exhaustive groups oat/oatc/oatm/full/cc/for/mut/raw/math/ff/hist/scan/ary/win and "
                       "random draws in simulation mode); an evaluation is one Compile or one BuildKey / one line through the extractor; a case is "
                       "(template text, matcher, line values) evaluated with the optimising compiler; it is non-trivial when the template "
                       "contains a statement ('{'); distinct cases are counted by a 64-bit FNV hash of the template text and the line's value ids")

    # ---------------------------------------------------------------- the table against the registry
    vals = state["values"]
    spec_names = set(vals["names"])
    real = set(registry["stdlib"])
    if set(registry["builtins"]) != real:
        infra.append("funclib.Builtins differs from stdlib.StandardFunctions: %s" % sorted(set(registry["builtins"]) ^ real))
    missing = sorted(real - spec_names)
    extra = sorted(spec_names - real)
    run.cov["helpers_in_table"] = len(spec_names)
    run.cov["helpers_registered"] = len(real)
    problems = []
    if missing:
        problems.append("registered helpers missing from ExprTotal.tla Sig (unexplored): %s" % missing)
    if extra:
        problems.append("ExprTotal.tla Sig lists helpers that are not registered: %s" % extra)
    if mism:
        by = {}
        for m in mism:
            by.setdefault((m["f"], m["cls"]), m)
        problems.append("outcome class disagreements (signature table out of date?): " + "; ".join(
            "%s expected %s but %r %s%s" % (f, "to compile" if c == "ok" else "a compile error", m["text"][:120],
                                            "gives " + repr(m["errText"][:100]) if c == "ok" else "compiles", "")
            for (f, c), m in sorted(by.items())[:12]))
    if infra:
        problems.append("driver trouble: " + " | ".join(infra[:5]))
    if problems and not run.violations:
        raise Inconclusive("; ".join(problems))
    if problems:
        run.cov["spec_out_of_date"] = problems
    if tot["scenarios"] < 20000 or tot["evals"] < 200000:
        raise Inconclusive("too little explored: %d scenarios, %d evaluations" % (tot["scenarios"], tot["evals"]))

"""C11 - scalar helper functions follow their documented semantics."""
import json
import os
import time
from vf import Inconclusive, parallel, require_clean, validate_traces, vfj_lines, b2s

CLAIM = {
    "text": "ExprScalar.tla transcribes the documented semantics of 60 scalar expression helpers (integer/float arithmetic, floor/ceil/round, comparison and logic, string helpers, bucket/bucketrange/clamp/expbucket, csv with an RFC 4180 decoder (Csv.tla), hi/hf/percent/bytesize/bytesizesi/downscale, lookup/haskey, path helpers, format) with explicit domains; TLC proves the property's laws on that model over ranges (bucket is the multiple b of s with b<=v<b+s, clamp returns v iff min<=v<=max, Decode(csv(args))=args for every CSV special character, hi only inserts separators at every third digit, truncating divi/modi, order laws of lt..gte, rounding within half a unit, ...). Text is UTF-8 (ExprScalarText.tla: decoder/encoder, the Unicode property White_Space, a set of certainly visible characters): 'False is an empty value (or only whitespace)' holds for every White_Space code point (no-break space, next line, U+1680, U+2000-U+200A, line/paragraph separator, U+202F, U+205F, ideographic space), alone or mixed with the ASCII blanks, for if/unless/switch. floor/ceil/round are defined beyond the 9-digit model by exact digit-sequence arithmetic (ExprScalarBig.tla) on every decimal that binary64 holds exactly (2^63, 10^19, 10^22, 2^52-0.5, ...), a rounding tie is either neighbour, scientific notation is the plain decimal or the error marker, an infinity/NaN never yields a numeral; ExprScalarImpl_MC.tla checks implementation-shaped designs against that (the code's: rune-wise TrimSpace, exact formatting of the float with ties to even or away) and refutes the negative controls (byte loops that know only the ASCII or Latin-1 blanks; conversion of the rounded float through int64, with and without a guard for non-finite values). TLC enumerates exhaustive small argument ranges per helper and arity with the expected result, the real compiler evaluates each call with every argument both as a template constant and as a match group (optimised and unoptimised), on a fresh compiled expression and again as evaluation histories (one compiled expression evaluated over sequences of contexts that differ in one dynamic argument at a time, with revisits and error values, and from 2-4 goroutines), so a compiled expression is checked to be a function of its current context. ExprScalarHist.tla models the compiled call as an object with a life - instances (their template constants), contexts, evaluations that Begin, Read their dynamic arguments one context read at a time and Finish, interleaved serially, nested with stack discipline (re-entrant use on one goroutine, as a funcs-file function used inside its own argument) or freely (worker goroutines) - with the law Isolated: every finished evaluation holds Expect(f, its own arguments); TLC proves it for the designs 'nothing carried between evaluations' and 'memo keyed on all dynamic arguments' under every schedule and refutes the negative controls (memo keyed on the first dynamic argument, memo shared by instances with different constants, sticky error: by serial histories; argument slots owned by the instance: passes every serial history, refuted by two overlapping or nested evaluations). TLC enumerates the behaviours of that machine as evaluation shapes (which instance on which context, order of advance from context read to context read); the driver realises every shape on pools of 2 compiled instances x 3 contexts drawn from the TLC vectors of every helper, arity and position pattern - serially, with every evaluation in a goroutine whose context reads wait for their grant (deterministic interleavings), and nested on one goroutine from inside a pending context read - and compares each evaluation with TLC's expectation for its own arguments; every distinct recorded observation (incl. seeded random shapes), plus seeded random histories with values up to +-10^9, is validated by TLC against the specification.",
    "note": "Bounded: TLC integers are 32 bit, so outside floor/ceil/round values beyond 9 digits and int64 boundaries are outside the specified domain (only 'returns'), as are decimals binary64 cannot hold exactly when longer than 9 significant digits, hex spellings, non-ASCII case mapping and log10/log2/ln; which neighbour a rounding tie goes to and the sign of a zero result are not documented (both accepted / not demanded). Values made of characters that are neither White_Space nor certainly visible (controls, format characters, zero width space, U+180E) and ill-formed UTF-8 have no specified truthiness. Whitespace-only arguments of and/or/not are outside the domain (the docs contradict themselves). Evaluations can be suspended only at their context reads (state that is shared between the last read and the return is visible only to the free-running goroutine runs, which are timing dependent); a helper that holds a lock across its argument reads would stall the gated realisation (reported as inconclusive, not as a violation); shapes have at most 3 evaluations, 2 instances, 3 contexts. Trusted: TLC, the Go runtime, the template encoding of constants (checked with a transparent function).",
    "technique": "TLA+ functional specification model-checked with TLC (laws over ranges) + TLA+ state machine of evaluation histories / interleavings with negative controls + model-generated vectors and behaviours (shapes) replayed on the real code with gated contexts + TLC validation of recorded evaluations",
}


def _cfg(inv, thorough):
    return ("INIT Init\nNEXT Next\nCONSTANTS Thorough = %s\nINVARIANTS %s\nCHECK_DEADLOCK FALSE\n"
            % ("TRUE" if thorough else "FALSE", inv))


def _text(a):
    return b2s(a)


def _hist_cfg(design, sched, maxev, pool):
    return ("SPECIFICATION Spec\nCONSTANTS Scenarios <- MCScenarios\n MaxEvals = %d\n Design = \"%s\"\n Sched = \"%s\"\n"
            " Pool = \"%s\"\nINVARIANTS TypeOK Isolated\nCHECK_DEADLOCK FALSE\n" % (maxev, design, sched, pool))


def _impl_cfg(truth, num, grps, thorough):
    return ("INIT Init\nNEXT Next\nCONSTANTS Thorough = %s\n TruthDesign = \"%s\"\n NumDesign = \"%s\"\n Grps = {%s}\nINVARIANTS Conforms\nCHECK_DEADLOCK FALSE\n"
            % ("TRUE" if thorough else "FALSE", truth, num, ", ".join('"%s"' % g for g in grps)))


def _shape_cfg(sched, maxev, ks):
    return ("SPECIFICATION GSpec\nCONSTANTS Scenarios <- AbsScen1\n MaxEvals = %d\n Design = \"fresh\"\n Sched = \"%s\"\n"
            " Ks = {%s}\n NI = 2\n NC = 3\nINVARIANTS Dump\nCHECK_DEADLOCK FALSE\n" % (maxev, sched, ks))


def check(run):
    try:
        _check(run)
    except Inconclusive:
        raise
    except Exception as e:  # infrastructure trouble is never a verdict
        import traceback
        raise Inconclusive("c11 check failed: %s\n%s" % (e, traceback.format_exc()))


def _check(run):
    quick = run.tier == "quick"
    run.assumptions += [
        "domains (ExprScalar.tla): integers of at most 9 digits and guarded intermediate results; finite decimals of at most 9 significant digits; "
        "negative zero, hex spellings, non-ASCII case mapping, log10/log2/ln, fmt verbs other than %s %v %d %% %Ns %-Ns: only 'returns'; "
        "floor/ceil/round additionally on decimals of up to 40+20 digits that binary64 holds exactly (the value ParseFloat must return is then the decimal itself: strconv is documented as correctly rounded), "
        "a rounding tie may go to either neighbour, scientific notation (exponent of at most 2 digits) is the plain decimal or <BAD-TYPE>, inf/nan spellings must not yield a decimal numeral",
        "values are UTF-8 text: whitespace = Unicode White_Space (25 code points); ill-formed UTF-8 and values of blanks plus unclassified characters (controls, format characters, zero width space, ...) have no specified truthiness",
        "whitespace-only arguments of and/or/not, negative substr positions, select on values with quotes or leading/trailing blanks, "
        "dirname without a directory part, duplicate keys in lookup tables: undocumented, outside the domain",
        "documented compile-time arguments supplied from the match context must yield an error marker (any documented marker)",
        "humanize.Enabled = true (the default)",
    ]
    run.build_harness()
    vec_path = os.path.join(run.scratch, "c11-vectors.ndjson")
    res_path = os.path.join(run.scratch, "c11-replay.json")
    b1_trace = os.path.join(run.scratch, "c11-b1-trace.ndjson")
    b2_trace = os.path.join(run.scratch, "c11-b2-trace.ndjson")
    b2_stats = os.path.join(run.scratch, "c11-b2-stats.json")

    import threading
    b3_done = threading.Event()

    # ---- B3: the property's laws on the model, over ranges
    def b3():
        try:
            r = run.tlc("ExprScalar_MC", _cfg("LawOK", not quick), workers=2 if quick else 3, timeout=3000,
                        label="ExprScalar_MC laws Thorough=%s" % (not quick))
        finally:
            b3_done.set()
        require_clean(run, r, "ExprScalar_MC (laws)")
        if r.distinct < 200000:
            raise Inconclusive("law check explored only %d cases" % r.distinct)
        return r

    # ---- implementation-shaped designs of truthiness (if/unless/switch/not) and of float -> numeral (floor/ceil/round) against the
    # documented semantics: the code's designs conform, the negative controls (ASCII-only / Latin-1 byte loops; conversion through
    # int64) are refuted
    def impl():
        def passes(truth, num, grps):
            r = run.tlc("ExprScalarImpl_MC", _impl_cfg(truth, num, grps, not quick), workers=1, timeout=3000,
                        label="ExprScalarImpl %s / %s conforms (%s)" % (truth, num, "+".join(grps)))
            require_clean(run, r, "ExprScalarImpl %s/%s" % (truth, num))
            if r.distinct < 2500:
                raise Inconclusive("ExprScalarImpl %s/%s explored only %d cases" % (truth, num, r.distinct))

        def refuted(truth, num, grps):
            r = run.tlc("ExprScalarImpl_MC", _impl_cfg(truth, num, grps, not quick), workers=1, timeout=3000,
                        label="ExprScalarImpl %s / %s (negative control: Conforms must be refuted)" % (truth, num))
            if list(r.violated) != ["Conforms"]:
                raise Inconclusive("negative control %s/%s was not refuted as expected (violated=%s)\n%s" % (
                    truth, num, r.violated, r.out[-2000:]))

        jobs = [lambda: passes("trimspace", "format", ["cond", "num"]), lambda: passes("trimspace", "away", ["num"]),
                lambda: refuted("ascii_bytes", "format", ["cond"]), lambda: refuted("latin1_bytes", "format", ["cond"]),
                lambda: refuted("trimspace", "int64", ["num"]), lambda: refuted("trimspace", "int64_finite", ["num"])]
        parallel(jobs, 2)

    # ---- history layer (ExprScalarHist): shapes for B1, then the law and the negative controls (B3)
    shapes_path = os.path.join(run.scratch, "c11-shapes.ndjson")
    shapes_ready = threading.Event()
    shapes_info = {}

    def hist():
        try:
            # serial histories of up to 3 evaluations are the non-overlapping behaviours of the nested run
            plan = [("any", 2, "1,2,3"), ("nested", 3, "1,2")]
            if not quick:
                plan += [("serial", 4, "1"), ("nested", 3, "3"), ("any", 3, "1")]
            def gen(sched, maxev, k):
                r = run.tlc("ExprScalarHist_Gen", _shape_cfg(sched, maxev, k), workers=1, timeout=1500,
                            label="ExprScalarHist_Gen shapes Sched=%s MaxEvals=%d K in {%s}" % (sched, maxev, k))
                if r.violated or r.errors or not r.finished:
                    raise Inconclusive("shape generator failed: %s" % r.out[-2000:])
                return vfj_lines(r.out)
            n = 0
            with open(shapes_path, "w") as f:
                for vs in parallel([lambda a=a: gen(*a) for a in plan], 2):
                    for v in vs:
                        f.write(json.dumps(v, separators=(",", ":")) + "\n")
                        n += 1
            if n < 3000:
                raise Inconclusive("shape generator produced only %d shapes" % n)
            shapes_info["n"] = n
        finally:
            shapes_ready.set()
        pool = "quick" if quick else "thorough"
        big = 3 if quick else 4

        # admissible designs: Isolated under every schedule (shared_slots only when evaluations never overlap)
        def passes(design, sched, maxev):
            r = run.tlc("ExprScalarHist_MC", _hist_cfg(design, sched, maxev, pool), workers=1 if quick else 2, timeout=3000,
                        label="ExprScalarHist %s / %s, MaxEvals=%d" % (design, sched, maxev))
            require_clean(run, r, "ExprScalarHist %s/%s" % (design, sched))
            if r.distinct < 1000:
                raise Inconclusive("ExprScalarHist %s/%s explored only %d states" % (design, sched, r.distinct))

        # negative controls: each must be refuted, with the least schedule that can show it
        def refuted(design, sched, maxev):
            r = run.tlc("ExprScalarHist_MC", _hist_cfg(design, sched, maxev, pool), workers=1, timeout=3000,
                        label="ExprScalarHist %s / %s (negative control: Isolated must be refuted)" % (design, sched))
            if list(r.violated) != ["Isolated"]:
                raise Inconclusive("negative control %s/%s was not refuted as expected (violated=%s)\n%s" % (
                    design, sched, r.violated, r.out[-2000:]))

        jobs = [lambda a=a: passes(*a) for a in [("fresh", "any", 3), ("memo_all", "any", 3), ("shared_slots", "serial", big)]
                + ([] if quick else [("fresh", "nested", 4), ("fresh", "serial", 4)])]
        jobs += [lambda a=a: refuted(*a) for a in [("memo_first", "serial", 2), ("global_memo", "serial", 2), ("sticky_error", "serial", 2),
                                                   ("shared_slots", "any", 2), ("shared_slots", "nested", 2)]]
        parallel(jobs, 2)
        return shapes_info

    # ---- B1: TLC enumerates calls with expectations; the real compiler evaluates them
    # ---- B2: TLC validates every recorded evaluation (B1 replays + seeded random calls)
    def b12():
        time.sleep(0.5)
        r = run.tlc("ExprScalar_Gen", _cfg("Dump", not quick), workers=2, timeout=3000,
                    label="ExprScalar_Gen Thorough=%s" % (not quick))
        if r.violated or r.errors or not r.finished:
            raise Inconclusive("generator failed: %s" % r.out[-2000:])
        n = 0
        with open(vec_path, "w") as f:
            for v in vfj_lines(r.out):
                f.write(json.dumps(v, separators=(",", ":")) + "\n")
                n += 1
        if n < 20000:
            raise Inconclusive("generator produced only %d vectors" % n)
        newg = {}
        with open(vec_path) as f:
            for ln in f:
                v = json.loads(ln)
                if v["g"] in ("condws", "bignum") and v["exp"]["k"] != "any":
                    newg[v["g"]] = newg.get(v["g"], 0) + 1
        if newg.get("condws", 0) < 1000 or newg.get("bignum", 0) < 1500:
            raise Inconclusive("too few demanding Unicode-whitespace / big-number vectors: %s" % newg)
        run.cov["b1_vectors_unicode_whitespace_and_big_numbers"] = newg
        shapes_ready.wait()
        if "n" not in shapes_info:
            raise Inconclusive("no evaluation shapes")
        run.drv(["replay", "-in", vec_path, "-out", res_path, "-trace", b1_trace, "-shapes", shapes_path,
                 "-pools", 2 if quick else 5, "-nest3", 150 if quick else 500])
        run.drv(["trace", "-out", b2_trace, "-n", 30000 if quick else 1000000, "-stats", b2_stats])
        b2_lines = open(b2_trace).read().splitlines()
        lines = open(b1_trace).read().splitlines() + b2_lines
        # canary: corrupted copies of real records; TLC must reject most of them (guards against a vacuous validation)
        for ln in b2_lines[:300]:
            rec = json.loads(ln)
            rec["got"] = rec["got"] + [48]
            rec["canary"] = True
            lines.append(json.dumps(rec, separators=(",", ":")))
        k = 4 if quick else 8
        if not quick:
            b3_done.wait()      # at most 8 TLC workers at a time
        per = (len(lines) + k - 1) // k
        chunks = []
        for i in range(k):
            part = lines[i * per:(i + 1) * per]
            if not part:
                continue
            p = os.path.join(run.scratch, "c11-chunk-%d.ndjson" % i)
            with open(p, "w") as f:
                f.write("\n".join(part) + "\n")
            chunks.append((i, p, part))

        def val(i, p):
            time.sleep(0.4 * i)   # run.tlc numbers its working directories without a lock
            return validate_traces(run, "ExprScalar_Trace", p, label="ExprScalar_Trace chunk %d" % i, timeout=3000,
                                   xmx="3g" if quick else "4g")

        return chunks, parallel([lambda i=i, p=p: val(i, p) for i, p, _ in chunks], k)

    _, (chunks, results), _, _ = parallel([b3, b12, hist, impl], 4)
    res = json.load(open(res_path))
    run.cov["b1_vectors"] = res["vectors"]
    run.cov["b1_evaluations"] = res["runs"]
    run.cov["b1_per_helper"] = res["per_func"]
    run.cov["b1_history_expressions"] = res["history_expressions"]
    run.cov["b1_history_steps"] = res["history_steps"]
    run.cov["b1_goroutine_observations"] = res["goroutine_observations"]
    run.cov["b1_shapes"] = ("%d evaluation shapes from TLC (ExprScalarHist_Gen) realised on %d pools of calls (2 compiled instances x 3 contexts): "
                            "%d serial, %d gated (goroutines, context reads wait for their grant), %d nested (re-entrant on one goroutine) runs, %d evaluations" % (
                                res["shapes"], res["shape_pools"], res["shape_serial_runs"], res["shape_gated_runs"],
                                res["shape_nested_runs"], res["shape_evaluations"]))
    if res["shape_pools"] < 300 or res["shape_gated_runs"] < 50000 or res["shape_nested_runs"] < 10000:
        raise Inconclusive("evaluation shapes were realised on too few calls: %s" % run.cov["b1_shapes"])
    run.cov["b1_records_for_tlc"] = "%d distinct observations (%d further evaluations gave an identical record)" % (
        res["records_written"], res["records_identical"])
    run.cov["traces_validated_against_impl"] += res["runs"]
    run.cov["evaluations"] += res["runs"]
    run.cov["distinct_nontrivial"] += res["distinct_nontrivial"]
    for s in res["samples"] or []:
        run.sample({"b1": s})
    for m in res["mismatches"] or []:
        run.violation("%s:%s" % (m["f"], m["class"]),
                      "template %s%s with context %s (optimise=%s) evaluates to %r%s%s; the specification expects %s %r" % (
                          m["template"],
                          (" (evaluation %s of shape %s realised %s: evaluations [instance, context] %s with contexts %s advance in the order %s; "
                           "the compiled instances had been evaluated before)" % (
                               m["eval"], m["shape"], m["mode"], m["evs"], m["ctxs"], m["grants"]) if "shape" in m else
                           " (one compiled expression, history %s step %s, previous context %s)" % (m["hist"], m.get("step"), m.get("prev"))
                           if "hist" in m and "goroutines" not in m else
                           " (one compiled expression evaluated from %s goroutines)" % m["goroutines"] if "goroutines" in m else ""),
                          m["args"], m["opt"], m["got"],
                          " (compile error)" if m["cerr"] else "", " PANIC " + m["panic"] if m["panic"] else "",
                          m["expect"]["k"], m["expect_text"] or [_text(a) for a in m["expect"]["alts"] or []]), m)

    st = json.load(open(b2_stats))
    nb2 = st["evaluations"] + st["goroutine_observations"] + st["shape_evaluations"]
    run.cov["b2_history_expressions"] = st["expressions"]
    run.cov["b2_goroutine_expressions"] = st["goroutine_expressions"]
    run.cov["b2_random_shapes"] = "%d runs, %d evaluations" % (st["shape_runs"], st["shape_evaluations"])
    run.cov["b2_records_for_tlc"] = "%d distinct observations (%d further evaluations gave an identical record)" % (
        st["records_written"], st["records_identical"])
    consumed = nontrivial = canary = canary_rejected = 0
    for (i, p, part), (r, _) in zip(chunks, results):
        canary += sum(1 for ln in part if '"canary":true' in ln)
        if r["consumed"] != len(part) or not r["done"]:
            raise Inconclusive("trace chunk %d: consumed %d of %d records" % (i, r["consumed"], len(part)))
        consumed += r["consumed"]
        nontrivial += r["nontrivial"]
        for bad in r["bad"]:
            rec = json.loads(part[bad["l"] - 1])
            if rec.get("canary"):
                canary_rejected += 1
                continue
            args = [bytes(a).decode("latin1") for a in rec["args"]]
            run.violation("%s:%s" % (bad["f"], bad["class"]),
                          "recorded evaluation {%s %s}%s (positions %s, optimise=%s) = %s%s%s is rejected by ExprScalar.tla (%s)" % (
                              rec["f"], " ".join(repr(a) for a in args),
                              (" [evaluation %s of a shape of overlapping / nested evaluations of one compiled expression]" % rec.get("eval") if "shape" in rec else
                               " [%s goroutines on one compiled expression]" % rec["goroutines"] if "goroutines" in rec else
                               " [step %s of history %s on one compiled expression]" % (rec.get("step"), rec["hist"]) if "hist" in rec else ""),
                              "".join(rec["pos"]), rec.get("opt"),
                              _text(rec["got"]), " (compile error)" if rec["cerr"] else "",
                              " PANIC" if rec["panic"] else "", bad["class"]), rec)
    if canary_rejected * 5 < canary * 2:
        raise Inconclusive("trace validation rejected only %d of %d deliberately corrupted records" % (canary_rejected, canary))
    run.cov["b2_corrupted_records_rejected"] = "%d of %d" % (canary_rejected, canary)
    consumed -= canary
    run.cov["b2_records"] = consumed
    run.cov["b2_random_evaluations"] = nb2
    run.cov["b2_records_inside_domain"] = nontrivial
    run.cov["traces_validated_against_impl"] += nb2
    run.cov["evaluations"] += nb2
    with open(b2_trace) as f:
        run.sample({"b2_records": [json.loads(next(f)) for _ in range(3)]})
    if nontrivial * 2 < consumed:
        raise Inconclusive("only %d of %d recorded evaluations are inside the specified domain" % (nontrivial, consumed))
    run.cov["rule"] = ("B3: every case of every law in ExprScalar_MC; B1: every generated call x every constant/dynamic position pattern "
                       "(x unoptimised compiler on a third), non-trivial = the specification demands something (expectation kind other than 'any'); "
                       "B2: random evaluation histories (>= 6 contexts per compiled expression, one dynamic argument changed per step, revisits, error values, 2-4 goroutines on a sample), %d evaluations; identical observations are validated once" % nb2)

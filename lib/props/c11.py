"""C11 - scalar helper functions follow their documented semantics."""
import json
import os
import time
from vf import Inconclusive, parallel, require_clean, validate_traces, vfj_lines, b2s

CLAIM = {
    "text": "ExprScalar.tla transcribes the documented semantics of 60 scalar expression helpers (integer/float arithmetic, floor/ceil/round, comparison and logic, string helpers, bucket/bucketrange/clamp/expbucket, csv with an RFC 4180 decoder (Csv.tla), hi/hf/percent/bytesize/bytesizesi/downscale, lookup/haskey, path helpers, format) with explicit domains; TLC proves the property's laws on that model over ranges (bucket is the multiple b of s with b<=v<b+s, clamp returns v iff min<=v<=max, Decode(csv(args))=args for every CSV special character, hi only inserts separators at every third digit, truncating divi/modi, order laws of lt..gte, rounding within half a unit, ...); TLC enumerates exhaustive small argument ranges per helper and arity with the expected result, the real compiler evaluates each call with every argument both as a template constant and as a match group (optimised and unoptimised), on a fresh compiled expression and again as evaluation histories (one compiled expression evaluated over sequences of contexts that differ in one dynamic argument at a time, with revisits and error values, and from 2-4 goroutines), so a compiled expression is checked to be a function of its current context; every distinct recorded observation, plus seeded random histories with values up to +-10^9, is validated by TLC against the specification.",
    "note": "Bounded: TLC integers are 32 bit, so values beyond 9 digits, int64/float64 boundaries, binary rounding ties, exponent/hex/inf/nan spellings, non-ASCII case mapping and log10/log2/ln are outside the specified domain (only 'returns'). Whitespace-only arguments of and/or/not are outside the domain (the docs contradict themselves). Trusted: TLC, the Go runtime, the template encoding of constants (checked with a transparent function).",
    "technique": "TLA+ functional specification model-checked with TLC (laws over ranges) + model-generated vectors replayed on the real code + TLC validation of recorded evaluations",
}


def _cfg(inv, thorough):
    return ("INIT Init\nNEXT Next\nCONSTANTS Thorough = %s\nINVARIANTS %s\nCHECK_DEADLOCK FALSE\n"
            % ("TRUE" if thorough else "FALSE", inv))


def _text(a):
    return b2s(a)


def check(run):
    try:
        _check(run)
    except Inconclusive:
        raise
    except Exception as e:  # infrastructure trouble is never a verdict
        import traceback
        raise Inconclusive("c11 check failed: %s\n%s" % (e, traceback.format_exc()))


def _check(run):
    quick = run.tier == "quick"
    run.assumptions += [
        "domains (ExprScalar.tla): integers of at most 9 digits and guarded intermediate results; finite decimals of at most 9 significant digits; "
        "rounding ties, negative zero, exponent/hex/inf/nan spellings, non-ASCII case mapping, log10/log2/ln, fmt verbs other than %s %v %d %% %Ns %-Ns: only 'returns'",
        "whitespace-only arguments of and/or/not, negative substr positions, select on values with quotes or leading/trailing blanks, "
        "dirname without a directory part, duplicate keys in lookup tables: undocumented, outside the domain",
        "documented compile-time arguments supplied from the match context must yield an error marker (any documented marker)",
        "humanize.Enabled = true (the default)",
    ]
    run.build_harness()
    vec_path = os.path.join(run.scratch, "c11-vectors.ndjson")
    res_path = os.path.join(run.scratch, "c11-replay.json")
    b1_trace = os.path.join(run.scratch, "c11-b1-trace.ndjson")
    b2_trace = os.path.join(run.scratch, "c11-b2-trace.ndjson")
    b2_stats = os.path.join(run.scratch, "c11-b2-stats.json")

    import threading
    b3_done = threading.Event()

    # ---- B3: the property's laws on the model, over ranges
    def b3():
        try:
            r = run.tlc("ExprScalar_MC", _cfg("LawOK", not quick), workers=4, timeout=3000,
                        label="ExprScalar_MC laws Thorough=%s" % (not quick))
        finally:
            b3_done.set()
        require_clean(run, r, "ExprScalar_MC (laws)")
        if r.distinct < 100000:
            raise Inconclusive("law check explored only %d cases" % r.distinct)
        return r

    # ---- B1: TLC enumerates calls with expectations; the real compiler evaluates them
    # ---- B2: TLC validates every recorded evaluation (B1 replays + seeded random calls)
    def b12():
        time.sleep(0.5)
        r = run.tlc("ExprScalar_Gen", _cfg("Dump", not quick), workers=4, timeout=3000,
                    label="ExprScalar_Gen Thorough=%s" % (not quick))
        if r.violated or r.errors or not r.finished:
            raise Inconclusive("generator failed: %s" % r.out[-2000:])
        n = 0
        with open(vec_path, "w") as f:
            for v in vfj_lines(r.out):
                f.write(json.dumps(v, separators=(",", ":")) + "\n")
                n += 1
        if n < 15000:
            raise Inconclusive("generator produced only %d vectors" % n)
        run.drv(["replay", "-in", vec_path, "-out", res_path, "-trace", b1_trace])
        run.drv(["trace", "-out", b2_trace, "-n", 30000 if quick else 1000000, "-stats", b2_stats])
        b2_lines = open(b2_trace).read().splitlines()
        lines = open(b1_trace).read().splitlines() + b2_lines
        # canary: corrupted copies of real records; TLC must reject most of them (guards against a vacuous validation)
        for ln in b2_lines[:300]:
            rec = json.loads(ln)
            rec["got"] = rec["got"] + [48]
            rec["canary"] = True
            lines.append(json.dumps(rec, separators=(",", ":")))
        k = 4 if quick else 8
        if not quick:
            b3_done.wait()      # at most 8 TLC workers at a time
        per = (len(lines) + k - 1) // k
        chunks = []
        for i in range(k):
            part = lines[i * per:(i + 1) * per]
            if not part:
                continue
            p = os.path.join(run.scratch, "c11-chunk-%d.ndjson" % i)
            with open(p, "w") as f:
                f.write("\n".join(part) + "\n")
            chunks.append((i, p, part))

        def val(i, p):
            time.sleep(0.4 * i)   # run.tlc numbers its working directories without a lock
            return validate_traces(run, "ExprScalar_Trace", p, label="ExprScalar_Trace chunk %d" % i, timeout=3000,
                                   xmx="3g" if quick else "4g")

        return chunks, parallel([lambda i=i, p=p: val(i, p) for i, p, _ in chunks], k)

    _, (chunks, results) = parallel([b3, b12], 2)
    res = json.load(open(res_path))
    run.cov["b1_vectors"] = res["vectors"]
    run.cov["b1_evaluations"] = res["runs"]
    run.cov["b1_per_helper"] = res["per_func"]
    run.cov["b1_history_expressions"] = res["history_expressions"]
    run.cov["b1_history_steps"] = res["history_steps"]
    run.cov["b1_goroutine_observations"] = res["goroutine_observations"]
    run.cov["b1_records_for_tlc"] = "%d distinct observations (%d further evaluations gave an identical record)" % (
        res["records_written"], res["records_identical"])
    run.cov["traces_validated_against_impl"] += res["runs"]
    run.cov["evaluations"] += res["runs"]
    run.cov["distinct_nontrivial"] += res["distinct_nontrivial"]
    for s in res["samples"] or []:
        run.sample({"b1": s})
    for m in res["mismatches"] or []:
        run.violation("%s:%s" % (m["f"], m["class"]),
                      "template %s%s with context %s (optimise=%s) evaluates to %r%s%s; the specification expects %s %r" % (
                          m["template"],
                          (" (one compiled expression, history %s step %s, previous context %s)" % (m["hist"], m.get("step"), m.get("prev"))
                           if "hist" in m and "goroutines" not in m else
                           " (one compiled expression evaluated from %s goroutines)" % m["goroutines"] if "goroutines" in m else ""),
                          m["args"], m["opt"], m["got"],
                          " (compile error)" if m["cerr"] else "", " PANIC " + m["panic"] if m["panic"] else "",
                          m["expect"]["k"], m["expect_text"] or [_text(a) for a in m["expect"]["alts"] or []]), m)

    st = json.load(open(b2_stats))
    nb2 = st["evaluations"] + st["goroutine_observations"]
    run.cov["b2_history_expressions"] = st["expressions"]
    run.cov["b2_goroutine_expressions"] = st["goroutine_expressions"]
    run.cov["b2_records_for_tlc"] = "%d distinct observations (%d further evaluations gave an identical record)" % (
        st["records_written"], st["records_identical"])
    consumed = nontrivial = canary = canary_rejected = 0
    for (i, p, part), (r, _) in zip(chunks, results):
        canary += sum(1 for ln in part if '"canary":true' in ln)
        if r["consumed"] != len(part) or not r["done"]:
            raise Inconclusive("trace chunk %d: consumed %d of %d records" % (i, r["consumed"], len(part)))
        consumed += r["consumed"]
        nontrivial += r["nontrivial"]
        for bad in r["bad"]:
            rec = json.loads(part[bad["l"] - 1])
            if rec.get("canary"):
                canary_rejected += 1
                continue
            args = [bytes(a).decode("latin1") for a in rec["args"]]
            run.violation("%s:%s" % (bad["f"], bad["class"]),
                          "recorded evaluation {%s %s}%s (positions %s, optimise=%s) = %s%s%s is rejected by ExprScalar.tla (%s)" % (
                              rec["f"], " ".join(repr(a) for a in args),
                              (" [%s goroutines on one compiled expression]" % rec["goroutines"] if "goroutines" in rec else
                               " [step %s of history %s on one compiled expression]" % (rec.get("step"), rec["hist"]) if "hist" in rec else ""),
                              "".join(rec["pos"]), rec.get("opt"),
                              _text(rec["got"]), " (compile error)" if rec["cerr"] else "",
                              " PANIC" if rec["panic"] else "", bad["class"]), rec)
    if canary_rejected * 5 < canary * 2:
        raise Inconclusive("trace validation rejected only %d of %d deliberately corrupted records" % (canary_rejected, canary))
    run.cov["b2_corrupted_records_rejected"] = "%d of %d" % (canary_rejected, canary)
    consumed -= canary
    run.cov["b2_records"] = consumed
    run.cov["b2_random_evaluations"] = nb2
    run.cov["b2_records_inside_domain"] = nontrivial
    run.cov["traces_validated_against_impl"] += nb2
    run.cov["evaluations"] += nb2
    with open(b2_trace) as f:
        run.sample({"b2_records": [json.loads(next(f)) for _ in range(3)]})
    if nontrivial * 2 < consumed:
        raise Inconclusive("only %d of %d recorded evaluations are inside the specified domain" % (nontrivial, consumed))
    run.cov["rule"] = ("B3: every case of every law in ExprScalar_MC; B1: every generated call x every constant/dynamic position pattern "
                       "(x unoptimised compiler on a third), non-trivial = the specification demands something (expectation kind other than 'any'); "
                       "B2: random evaluation histories (>= 6 contexts per compiled expression, one dynamic argument changed per step, revisits, error values, 2-4 goroutines on a sample), %d evaluations; identical observations are validated once" % nb2)

"""C07 - aggregators compute the exact fold of their sample history."""
import json
import os
from vf import Inconclusive, parallel, require_clean, trace_slice, vfj_lines

CLAIM = {
    "text": "Aggregators.tla states what the histogram counter, sub-key counter, table (incl. Trim), accumulating group and numerical aggregator hold after a history, once as an order-free bag fold and once as a state machine; AggregatorsImpl.tla transcribes the Go data structures (sorted sub-key list with re-indexed row vectors, cells with redundant row/column totals, Trim's nested map loops in every iteration order, sorted value list). TLC checks over all histories within the bounds: state machine = bag fold, permutation invariance, commutation of any two samples, totals = sums of cells, min/max with absent cells as 0, Trim post-condition, the simulation relation implementation-shaped => abstract, rank definitions = sorted-list indices, and that the mean/stddev tolerances accept the exact value and reject neighbours. Every enumerated history (every prefix is a vector) is replayed on the real aggregators comparing every public accessor with the value TLC computed; seeded long random histories over large alphabets are recorded from the real aggregators and validated by TLC (exact BigInt moments, rank order statistics).",
    "note": "Bounded: exhaustive only for the listed alphabets/lengths, random beyond. Increments are limited to 9 digits and totals to +-10^9 (TLC integers), int64 overflow is outside the model. Mean is accepted within 10^-3 absolute, the sample standard deviation within 10^-3 absolute + 10^-6 relative; median = rank floor(n/2)+1, quantile(p) = rank min(floor(n*p)+1, n) of the (optionally reversed) ordered series, checked where floor(n*p) is not at the mercy of binary rounding (p a multiple of 1/8 or n*p not an integer); any most frequent value is accepted as mode. After a Trim only cells, rows, columns and min/max are specified (the row/column totals kept by the implementation are not part of the property). Sorted order of SubKeys() is a model invariant, not a verdict. Trusted: Go strconv, the expression engine for the accumulator's helper functions (sumi/maxi/mini semantics are modelled), TLC.",
    "technique": "TLA+ model checking (TLC) with simulation-relation refinement + model-history replay + trace validation with exact rational arithmetic",
}

CONST = ("CONSTANTS Which = \"%s\"\n Profile = %d\n MaxLen = %d\n TrimFixed = TRUE\n"
         " Elems <- MCElems\n Preds <- MCPreds\n AccCfg <- MCAccCfg\n")


def mc_cfg(which, prof, maxlen, invs):
    return "SPECIFICATION Spec\n" + CONST % (which, prof, maxlen) + "INVARIANTS %s\nCHECK_DEADLOCK FALSE\n" % invs


def gen_cfg(which, prof, maxlen, invs="FoldOK PermInv Dump"):
    return "INIT GInit\nNEXT GNext\n" + CONST % (which, prof, maxlen) + "INVARIANTS %s\nCHECK_DEADLOCK FALSE\n" % invs


TRACE_CFG = ("SPECIFICATION TSpec\nCONSTANTS Elems <- TrNone\n Preds <- TrNone\n AccCfg <- TrCfg\n"
             "INVARIANTS Final\nCHECK_DEADLOCK FALSE\n")


def check(run):
    quick = run.tier == "quick"
    run.assumptions += [
        "increments of at most 9 digits, totals within +-10^9 (TLC integers are 32 bit); int64 overflow not modelled",
        "numerical samples: decimal texts with <= 3 fraction digits (exact in units of 10^-3); exponents, hex floats, inf/nan are outside the domain",
        "mean within 10^-3; stddev within 10^-3 + 10^-6 relative; median = rank floor(n/2)+1; quantile(p) = rank min(floor(n*p)+1, n); any most frequent value is a mode",
        "after Trim only cells / rows / columns / min / max are specified; Trim's return value only bounded (>= selected existing cells, <= rows x columns)",
        "B3/B1 bounds: alphabets and history lengths as listed in tlc_runs",
    ]
    run.build_harness()
    # ---- B3: implementation-shaped layer in lock step with the abstract machine, no history variable
    S, C, T = "Sim", "Sim Commute", "Sim TotalsOK TrimOK"
    # (longest jobs first: four TLC processes with two workers each run at a time)
    if quick:
        gen = [("sub", 2, 4), ("num", 1, 4), ("sub", 1, 3), ("tbl", 2, 4), ("tbl", 1, 3), ("ctr", 1, 3),
               ("ctr", 2, 4), ("acc", 1, 4), ("acc", 2, 4), ("acc", 3, 3)]
        mc = [("num", 1, 5, "Sim OrderStats MomentsOK"), ("sub", 2, 4, C), ("ctr", 1, 3, S), ("ctr", 2, 5, C),
              ("sub", 1, 3, "Sim TotalsOK"), ("tbl", 1, 3, T), ("tbl", 2, 4, T + " Commute"), ("num", 1, 3, "Commute")]
    else:
        gen = [("sub", 2, 5), ("tbl", 2, 5), ("num", 1, 5), ("ctr", 2, 5), ("sub", 1, 3), ("tbl", 1, 3), ("ctr", 1, 3),
               ("acc", 1, 5), ("acc", 2, 5), ("acc", 3, 5)]
        mc = [("num", 1, 6, "Sim OrderStats MomentsOK"), ("sub", 2, 5, C), ("sub", 1, 4, "Sim TotalsOK"), ("ctr", 1, 5, S),
              ("ctr", 2, 7, C), ("tbl", 1, 4, T), ("tbl", 2, 5, T + " Commute"), ("num", 1, 5, "Commute")]
    jobs = []
    # ---- B3 with history (fold = bag fold, permutation invariance) + B1 generator
    for which, prof, ml in gen:
        jobs.append(lambda which=which, prof=prof, ml=ml: ("gen", which, prof, run.tlc(
            "Aggregators_Gen", gen_cfg(which, prof, ml), workers=2, xmx="3g", timeout=3000,
            label="Aggregators_Gen %s profile=%d MaxLen=%d [FoldOK PermInv Dump]" % (which, prof, ml))))
    for which, prof, ml, invs in mc:
        jobs.append(lambda which=which, prof=prof, ml=ml, invs=invs: ("mc", which, prof, run.tlc(
            "AggregatorsImpl", mc_cfg(which, prof, ml, invs), workers=2, xmx="3g", timeout=3000,
            label="AggregatorsImpl %s profile=%d MaxLen=%d [%s]" % (which, prof, ml, invs))))
    vec_path = os.path.join(run.scratch, "c07-vectors.ndjson")
    nvec, ntrim, per = 0, 0, {}
    acccfg = {}
    with open(vec_path, "w") as f:
        for kind, which, prof, r in parallel(jobs, 4):
            require_clean(run, r, "%s %s profile %d" % (kind, which, prof))
            if kind != "gen":
                continue
            for v in vfj_lines(r.out):
                f.write(json.dumps(v, separators=(",", ":")) + "\n")
                nvec += 1
                per[which] = per.get(which, 0) + 1
                if which == "tbl" and any(s["op"] == "t" for s in v["h"]):
                    ntrim += 1
                if which == "acc" and str(prof) not in acccfg:
                    acccfg[str(prof)] = {"groups": v["exp"]["groups"], "cols": v["exp"]["cols"]}
    if nvec < 20000 or ntrim < 1000 or len(per) < 5 or len(acccfg) < 3:
        raise Inconclusive("generator produced too little: %d vectors %s, %d with trims" % (nvec, per, ntrim))
    # ---- B1: every enumerated history replayed on the real aggregators
    res_path = os.path.join(run.scratch, "c07-replay.json")
    run.drv(["replay", "-in", vec_path, "-out", res_path])
    res = json.load(open(res_path))
    if res["runs"] != nvec:
        raise Inconclusive("replay ran %d of %d vectors" % (res["runs"], nvec))
    run.cov["traces_validated_against_impl"] += res["runs"]
    run.cov["evaluations"] += res["runs"]
    run.cov["distinct_nontrivial"] += res["distinct_nontrivial"]
    run.cov["b1_vectors_per_aggregator"] = res["per_agg"]
    for s in res["samples"] or []:
        run.sample({"b1_replay": s})
    for m in res["mismatches"] or []:
        v = m.pop("vector")
        run.violation("b1:%s:%s" % (m["agg"], m["kind"]),
                      "%s after history %s: accessor group '%s' returned %s, the specification says %s" % (
                          m["agg"], m["hist"], m["kind"], json.dumps(m["got"])[:400], json.dumps(m["exp"])[:400]),
                      {"mismatch": m, "vector": v})
    # ---- B2: long seeded random histories recorded from the real aggregators, validated by TLC
    cfgp = os.path.join(run.scratch, "c07-acccfg.json")
    json.dump(acccfg, open(cfgp, "w"))
    tr = os.path.join(run.scratch, "c07-trace.ndjson")
    run.drv(["trace", "-out", tr, "-acccfg", cfgp, "-scale", 1 if quick else 4])
    r = run.tlc("Aggregators_Trace", TRACE_CFG, files=[("trace.ndjson", tr)], workers=1, timeout=3000,
                xmx="8g", label="Aggregators_Trace")
    if r.violated or r.errors:
        raise Inconclusive("trace validation failed to run: %s %s\n%s" % (r.violated, r.errors[:3], r.out[-3000:]))
    tres = r.json_out("bad.json")
    if tres is None:
        raise Inconclusive("trace validation wrote no result\n%s" % r.out[-3000:])
    lines = open(tr).read().splitlines()
    ntr = sum(1 for x in lines if '"event":"reset"' in x)
    nobs = sum(1 for x in lines if '"event":"obs"' in x)
    run.cov["traces_validated_against_impl"] += ntr
    run.cov["evaluations"] += nobs
    run.cov["distinct_nontrivial"] += nobs
    run.cov["b2_events"] = tres["consumed"]
    run.cov["b2_observations"] = nobs
    if tres["consumed"] != len(lines):
        raise Inconclusive("trace validation consumed %d of %d events" % (tres["consumed"], len(lines)))
    run.sample({"b2_trace_head": [json.loads(x) for x in lines[:4]]})
    for bad in tres["bad"]:
        sl = trace_slice(tr, bad["t"])
        ev = json.loads(lines[bad["l"] - 1])
        agg = json.loads(sl.splitlines()[0])["agg"]
        nsteps = sum(1 for x in lines[:bad["l"]] if True) - [i for i, x in enumerate(lines) if '"event":"reset"' in x and json.loads(x)["t"] == bad["t"]][0]
        path = run.save_replay("trace-%d.ndjson" % bad["t"], sl)
        run.violation("b2:%s:%s" % (agg, ev["event"]),
                      "recorded execution of the real %s aggregator is not a behaviour of Aggregators.tla: event %d of trace %d rejected: %s" % (
                          agg, nsteps, bad["t"], json.dumps(ev)[:500]), path)
    run.cov["rule"] = ("B3: all histories within the bounds; B1: one vector per enumerated history (every prefix is its own "
                       "vector), all accessors compared, non-trivial = history of >= 2 steps; B2: seeded random histories "
                       "(15 traces, 10^2..10^4 samples each), non-trivial = every recorded observation (all accessors)")

"""C07 - aggregators compute the exact fold of their sample history."""
import json
import os
from vf import Inconclusive, parallel, require_clean, trace_slice

CLAIM = {
    "text": "Aggregators.tla states what the histogram counter, sub-key counter, table (incl. Trim), accumulating group and numerical aggregator hold after a history, a sample being split on the aggregator's delimiter - NUL, for the table the byte SEQUENCE (any length >= 1) it was constructed with, at its leftmost non-overlapping occurrences (AggSplit.tla: recursive and declarative definition of the cuts, Join o Split = id, Split o Join = id exactly on field lists whose joined text shows the delimiter only at the joints, fields never contain the delimiter, one-byte case = byte split; the Splitter object with Next / NextOk / Done written like the code, an equivalent rewrite, and three defective designs - first byte only, advance by one byte, delimiter as a byte set - that are invisible under one-byte delimiters and refuted by TLC under longer ones) - once as an order-free bag fold and once as a state machine in which reading the aggregator (any accessor, any time) is an explicit stuttering step; AggregatorsImpl.tla transcribes the Go data structures (sorted sub-key list with re-indexed row vectors, cells with redundant row/column totals, Trim's nested map loops in every iteration order, value list sorted in place by Analyze, optionally a memoising ComputeMinMax, the accumulating group's ONE evaluation context shared by all Sample calls - match, current value, key lookup bound to the row written last - as the code resets and re-binds it, as a per-call context, and as three defective variants: lookup not cleared, current not cleared, memoising GetKey). Numerical values up to 10^11 are read into exact big integers and folded relative to a base (shift law: count, order statistics, min, max and mean shift with the base, the variance does not). TLC checks over all histories within the bounds - samples, trims and observation steps interleaved in every order: state machine = bag fold, permutation invariance, commutation of any two samples, totals = sums of cells, min/max with absent cells as 0, Trim post-condition, the simulation relation implementation-shaped => abstract after every interleaving (a memo dropped by SampleItem and Trim passes, one that Trim does not drop must fail: negative control; for the accumulating group the reset and the per-call context pass and whatever the context is left holding, the next sample's group is a function of that sample alone (AccKeyPure), while a stale lookup, a stale current value and a memoising GetKey must fail on configurations whose group expressions name a data column / {.} / an unknown key and whose data expressions read a column before and after its update: negative controls), rank definitions = sorted-list indices, exact moments of the full large values = shifted moments of the deltas, text <-> value round trip, and that the mean/stddev tolerances accept the exact value and reject neighbours. Every (string, delimiter) pair of the splitter model is run on the real stringSplitter.Splitter under four call patterns (every answer of Next / NextOk / Done compared, two calls beyond exhaustion). Every enumerated history (every prefix is a vector; table histories under the delimiters NUL, '::', ', ', 'aab' and U+2192 with keys holding the delimiter's first bytes alone) is replayed on ONE long-lived real aggregator instance, reading every public accessor at each observation step and at the end and comparing with the value TLC computed, once feeding the samples as text and once through the typed entry points with the arguments the specification decoded; seeded long random histories over large alphabets and large numerical offsets, with observations and trims interleaved at random, are recorded from the real aggregators and validated by TLC (exact BigInt moments, rank order statistics).",
    "note": "The table delimiter is any byte sequence of length >= 1 (an empty --delim is outside the specification); a sample is read as TEXT (a key that ends in the delimiter's first byte moves the cut), not as the field list it may have been joined from. Bounded: exhaustive only for the listed alphabets/lengths, random beyond. Increments are limited to 9 digits and totals to +-10^9 (TLC integers), int64 overflow is outside the model. Numerical samples: decimal texts with <= 11 integer and <= 3 fraction digits, all values of one history within +-10^6 of its base. Mean is accepted within 10^-3 absolute, the sample standard deviation within 10^-3 absolute + 10^-6 relative, both plus a floating-point allowance of about 4*n*|base|*2^-52 (0 for base 0; 10^-3 at n = 588 for base 1.7*10^9); median = rank floor(n/2)+1, quantile(p) = rank min(floor(n*p)+1, n) of the (optionally reversed) ordered series, checked where floor(n*p) is not at the mercy of binary rounding (p a multiple of 1/8 or n*p not an integer); any most frequent value is accepted as mode. After a Trim only cells, rows, columns and min/max are specified (the row/column totals kept by the implementation are not part of the property). Sorted order of SubKeys() is a model invariant, not a verdict. A StatisticalAnalysis handle obtained before later samples is not specified (a fresh Analyze() is taken at every observation). Trusted: Go strconv, the expression engine for the accumulator's helper functions (sumi/maxi/mini semantics are modelled), TLC.",
    "technique": "TLA+ model checking (TLC) with simulation-relation refinement and a negative control + model-history replay on long-lived instances + trace validation with exact rational arithmetic",
}

# TLC runs at a time x workers each (a loaded machine: C07_TLC_PAR=3 C07_TLC_WORKERS=1)
PAR = int(os.environ.get("C07_TLC_PAR", "3"))
TW = int(os.environ.get("C07_TLC_WORKERS", "2"))

CONST = ("CONSTANTS Which = \"%s\"\n Profile = %d\n MaxLen = %d\n Memo = \"%s\"\n TrimFixed = %s\n AccCtx = \"%s\"\n Search = \"%s\"\n"
         " Elems <- MCElems\n Preds <- MCPreds\n AccCfg <- MCAccCfg\n")
# field splitter variants of AggSplit.tla: the code is "index"; "cut" is an equivalent rewrite; the others are
# negative controls (equal to the code for one-byte delimiters, refuted under a multi-byte delimiter)
SPLITTERS = ("cut", "firstbyte", "advance1", "anybyte")


def mc_cfg(which, prof, maxlen, invs, memo="none"):
    # Memo = "oldtrim": the negative control for Trim as it was before fix 1000522
    # which = "acc": the field selects the treatment of the shared evaluation context (AccCtx)
    # Memo in SPLITTERS: the field selects the splitter variant (Search)
    tf = "FALSE" if memo == "oldtrim" else "TRUE"
    search = memo if memo in SPLITTERS else "index"
    accctx = memo if which == "acc" and memo != "none" and memo not in SPLITTERS else "reset"
    memo = "none" if memo == "oldtrim" or which == "acc" or memo in SPLITTERS else memo
    return "SPECIFICATION Spec\n" + CONST % (which, prof, maxlen, memo, tf, accctx, search) + "INVARIANTS %s\nCHECK_DEADLOCK FALSE\n" % invs


def gen_cfg(which, prof, maxlen, invs, obs_repeat):
    return ("INIT GInit\nNEXT GNext\n" + CONST % (which, prof, maxlen, "none", "TRUE", "reset", "index") + " ObsRepeat = %s\n" % ("TRUE" if obs_repeat else "FALSE")
            + "INVARIANTS %s\nCHECK_DEADLOCK FALSE\n" % invs)


def split_cfg(variant, maxs, maxd, maxf, invs):
    return ("SPECIFICATION SSpec\nCONSTANTS Search = \"%s\"\n MaxS = %d\n MaxD = %d\n MaxF = %d\nINVARIANTS %s\nCHECK_DEADLOCK FALSE\n"
            % (variant, maxs, maxd, maxf, invs))


TRACE_CFG = ("SPECIFICATION TSpec\nCONSTANTS Elems <- TrNone\n Preds <- TrNone\n AccCfg <- TrCfg\n"
             "INVARIANTS Final\nCHECK_DEADLOCK FALSE\n")


def check(run):
    quick = run.tier == "quick"
    run.assumptions += [
        "increments of at most 9 digits, totals within +-10^9 (TLC integers are 32 bit); int64 overflow not modelled",
        "numerical samples: decimal texts with <= 11 integer and <= 3 fraction digits (exact in units of 10^-3), every value of a history within +-10^6 of the history's base; exponents, hex floats, inf/nan are outside the domain",
        "mean within 10^-3; stddev within 10^-3 + 10^-6 relative; both plus floor(n*(floor(|base|/10^5)+1)/10^7)*10^-3 for floating-point summation at a large base; median = rank floor(n/2)+1; quantile(p) = rank min(floor(n*p)+1, n); any most frequent value is a mode",
        "accessors are specified as pure reads: Observe steps (all public accessors) may be interleaved anywhere; a StatisticalAnalysis handle kept across later samples is not specified",
        "after Trim only cells / rows / columns / min / max are specified; Trim's return value only bounded (>= selected existing cells, <= rows x columns)",
        "accumulating group: while the group of a sample is determined, data columns, {.} and unknown keys read as empty (the group is a function of the sample alone); in data expressions a group name or an unknown key reads as empty; the --sort expression is set and evaluated by Groups() but the ORDER of the listing is left to C13",
        "table delimiter: a byte sequence of length >= 1, fixed at construction; samples are split at its leftmost non-overlapping occurrences; the empty delimiter is outside the domain; splitter model: all strings / delimiters over a two-letter alphabet within the listed lengths (random longer ones over other alphabets in B2)",
        "B3/B1 bounds: alphabets and history lengths as listed in tlc_runs",
    ]
    run.build_harness()
    # ---- B3 + B1 generator.  Aggregators_Gen: every history (samples, trims and observation steps in every
    # order) is a state; fold laws, simulation relation, one vector per history.  AggregatorsImpl: no history
    # variable, deeper; costly laws.  (gen/mc, aggregator, profile, MaxLen, invariants, Memo, consecutive "o")
    G = "FoldOK PermInv Sim Dump"
    T = "Sim TotalsOK TrimOK"
    # accumulating group: profiles 4-6 put the shared evaluation context under test (group expressions naming a
    # column / {.} / an unknown key; a column read before and after its update).  For which = "acc" the Memo field
    # of a plan entry selects AccCtx (treatment of the context): reset (the code), fresh (refactoring), and the
    # negative controls stalelook / stalecur / memokey.
    GA = G + " AccKeyPure"
    GT = G + " TotalsOK TrimOK"
    SL = "SplitterOK DrainOK SplitLaw JoinLaw"
    A = "Sim AccKeyPure AccGroupsOK"
    if quick:
        plan = [
            ("gen", "sub", 2, 4, G, "none", False), ("gen", "tbl", 2, 4, G, "none", False),
            ("mc", "num", 1, 5, "Sim OrderStats MomentsOK ShiftLawLe3 TextLaw CommuteLe3", "none", True), ("mc", "sub", 2, 4, "Sim CommuteB", "none", True),
            ("gen", "num", 1, 4, G, "none", False), ("gen", "sub", 1, 3, G + " TotalsOK", "none", True),
            ("gen", "tbl", 1, 3, G + " TotalsOK TrimOK", "none", True), ("gen", "ctr", 1, 3, G, "none", True),
            ("gen", "num", 2, 3, G + " NumLawsLe3 TextLaw", "none", True), ("gen", "ctr", 2, 4, G, "none", True),
            ("mc", "tbl", 2, 4, T + " CommuteB", "none", True), ("mc", "ctr", 2, 5, "Sim CommuteB", "none", True),
            ("gen", "acc", 1, 4, G, "none", False), ("gen", "acc", 2, 4, G, "none", False), ("gen", "acc", 3, 3, G, "none", True),
            ("mc", "tbl", 2, 4, T, "ok", True), ("neg", "tbl", 2, 4, "Sim", "stale", True),
            ("gen", "acc", 4, 4, GA, "none", False), ("gen", "acc", 5, 4, GA, "none", False), ("gen", "acc", 6, 3, GA, "none", True),
            ("mc", "acc", 4, 5, A, "reset", True), ("mc", "acc", 5, 5, A, "fresh", True),
            ("neg", "acc", 4, 3, "Sim", "stalelook", True), ("neg", "acc", 5, 3, "Sim", "stalecur", True),
            ("neg", "acc", 4, 3, "Sim", "memokey", True),
            # tables constructed with a multi-byte delimiter ("::", ", ", "aab", U+2192): the fold laws with the
            # delimiter as a sequence, the splitter as written and as an equivalent rewrite, and the three defective
            # splitters, which are invisible under NUL (sub profile 2) and must break Sim here
            ("gen", "tbl", 3, 3, GT, "none", False), ("gen", "tbl", 4, 3, GT, "none", False),
            ("gen", "tbl", 5, 3, GT, "none", False), ("gen", "tbl", 6, 3, GT, "none", False),
            ("mc", "tbl", 3, 3, T + " CommuteB", "cut", True), ("mc", "tbl", 5, 3, T + " CommuteB", "none", True),
            ("mc", "sub", 2, 3, "Sim", "firstbyte", True),
            ("neg", "tbl", 3, 2, "Sim", "firstbyte", True), ("neg", "tbl", 5, 2, "Sim", "advance1", True),
            ("neg", "tbl", 4, 2, "Sim", "anybyte", True),
        ]
        # the splitter itself (AggSplit_MC): (kind, variant, MaxS, MaxD, MaxF, invariants, the one that must fail)
        splits = [
            ("split", "index", 5, 3, 3, SL + " Dump", None), ("split", "cut", 5, 3, 1, "SplitterOK DrainOK", None),
            ("split", "firstbyte", 5, 1, 1, "SplitterOK DrainOK", None),
            ("splitneg", "firstbyte", 4, 2, 1, "SplitterOK", "SplitterOK"), ("splitneg", "advance1", 4, 2, 1, "SplitterOK", "SplitterOK"),
            ("splitneg", "anybyte", 4, 2, 1, "SplitterOK", "SplitterOK"), ("splitneg", "index", 1, 2, 2, "NaiveJoinLaw", "NaiveJoinLaw"),
        ]
    else:
        plan = [
            ("gen", "sub", 2, 5, G, "none", False), ("gen", "tbl", 2, 5, G, "none", False), ("gen", "num", 1, 5, G, "none", False),
            ("mc", "num", 1, 6, "Sim OrderStats MomentsOK ShiftLawLe3 TextLaw CommuteLe3", "none", True), ("mc", "sub", 2, 5, "Sim CommuteB", "none", True),
            ("gen", "ctr", 2, 5, G, "none", True), ("gen", "sub", 1, 3, G + " TotalsOK", "none", True),
            ("gen", "tbl", 1, 3, G + " TotalsOK TrimOK", "none", True), ("gen", "ctr", 1, 3, G, "none", True),
            ("gen", "num", 2, 5, G + " NumLawsLe3 TextLaw", "none", True),
            ("gen", "num", 3, 4, G + " NumLawsLe3 TextLaw", "none", True), ("gen", "num", 4, 4, G + " NumLawsLe3 TextLaw", "none", True),
            ("gen", "num", 5, 4, G + " NumLawsLe3 TextLaw", "none", True),
            ("mc", "sub", 1, 4, "Sim TotalsOK", "none", True), ("mc", "ctr", 1, 5, "Sim", "none", True),
            ("mc", "ctr", 2, 7, "Sim CommuteB", "none", True), ("mc", "tbl", 1, 4, T, "none", True),
            ("mc", "tbl", 2, 5, T + " CommuteB", "none", True),
            ("gen", "acc", 1, 5, G, "none", False), ("gen", "acc", 2, 5, G, "none", False), ("gen", "acc", 3, 5, G, "none", True),
            ("mc", "tbl", 2, 5, T, "ok", True), ("mc", "tbl", 1, 4, T, "ok", True),
            ("neg", "tbl", 2, 4, "Sim", "stale", True), ("neg", "tbl", 1, 3, "Sim", "stale", True),
            ("neg", "tbl", 1, 3, "Sim", "oldtrim", True),
            ("gen", "acc", 4, 5, GA, "none", False), ("gen", "acc", 5, 5, GA, "none", False), ("gen", "acc", 6, 5, GA, "none", True),
            ("mc", "acc", 4, 6, A, "reset", True), ("mc", "acc", 5, 6, A, "reset", True), ("mc", "acc", 6, 6, A, "reset", True),
            ("mc", "acc", 1, 6, A, "reset", True), ("mc", "acc", 2, 6, A, "reset", True), ("mc", "acc", 3, 6, A, "reset", True),
            ("mc", "acc", 4, 6, A, "fresh", True), ("mc", "acc", 5, 6, A, "fresh", True), ("mc", "acc", 6, 6, A, "fresh", True),
            ("neg", "acc", 4, 3, "Sim", "stalelook", True), ("neg", "acc", 5, 3, "Sim", "stalelook", True),
            ("neg", "acc", 6, 3, "Sim", "stalelook", True), ("neg", "acc", 5, 3, "Sim", "stalecur", True),
            ("neg", "acc", 6, 3, "Sim", "stalecur", True), ("neg", "acc", 4, 3, "Sim", "memokey", True),
            ("gen", "tbl", 3, 4, GT, "none", False), ("gen", "tbl", 4, 3, GT, "none", True),
            ("gen", "tbl", 5, 4, GT, "none", False), ("gen", "tbl", 6, 3, GT, "none", True),
            ("mc", "tbl", 3, 5, T + " CommuteB", "cut", True), ("mc", "tbl", 4, 4, T + " CommuteB", "cut", True),
            ("mc", "tbl", 5, 5, T + " CommuteB", "none", True), ("mc", "tbl", 6, 4, T + " CommuteB", "none", True),
            ("mc", "sub", 2, 4, "Sim", "firstbyte", True), ("mc", "tbl", 2, 4, "Sim", "advance1", True),
            ("mc", "ctr", 2, 4, "Sim", "anybyte", True),
        ] + [("neg", "tbl", pr, 2, "Sim", v, True) for pr in (3, 4, 5, 6) for v in ("firstbyte", "advance1", "anybyte")]
        splits = [
            ("split", "index", 7, 4, 3, SL + " Dump", None), ("split", "cut", 7, 4, 1, "SplitterOK DrainOK", None),
            ("split", "firstbyte", 7, 1, 1, "SplitterOK DrainOK", None), ("split", "advance1", 7, 1, 1, "SplitterOK DrainOK", None),
            ("split", "anybyte", 7, 1, 1, "SplitterOK DrainOK", None),
            ("splitneg", "firstbyte", 5, 3, 1, "SplitterOK", "SplitterOK"), ("splitneg", "advance1", 5, 3, 1, "SplitterOK", "SplitterOK"),
            ("splitneg", "anybyte", 5, 3, 1, "SplitterOK", "SplitterOK"), ("splitneg", "index", 1, 3, 3, "NaiveJoinLaw", "NaiveJoinLaw"),
        ]
    jobs = []
    for kind, which, prof, ml, invs, memo, rep in plan:
        if kind == "gen":
            jobs.append(lambda kind=kind, which=which, prof=prof, ml=ml, invs=invs, rep=rep: (kind, which, prof, run.tlc(
                "Aggregators_Gen", gen_cfg(which, prof, ml, invs, rep), workers=TW, xmx="3g", timeout=3000,
                label="Aggregators_Gen %s profile=%d MaxLen=%d%s [%s]" % (which, prof, ml, "" if rep else " (no o-o)", invs))))
        else:
            jobs.append(lambda kind=kind, which=which, prof=prof, ml=ml, invs=invs, memo=memo: (kind, which, prof, run.tlc(
                "AggregatorsImpl", mc_cfg(which, prof, ml, invs, memo), workers=TW, xmx="3g", timeout=3000,
                label="AggregatorsImpl %s profile=%d MaxLen=%d %s=%s [%s]%s" % (
                    which, prof, ml, "Search" if memo in SPLITTERS else "AccCtx" if which == "acc" else "Memo", memo, invs, " negative control: must be violated" if kind == "neg" else ""))))
    for kind, variant, maxs, maxd, maxf, invs, must in splits:
        jobs.append(lambda kind=kind, variant=variant, maxs=maxs, maxd=maxd, maxf=maxf, invs=invs, must=must: (kind, "split", must, run.tlc(
            "AggSplit_MC", split_cfg(variant, maxs, maxd, maxf, invs), workers=TW, xmx="2g", timeout=3000,
            label="AggSplit_MC splitter=%s strings<=%d delimiters<=%d [%s]%s" % (
                variant, maxs, maxd, invs, " negative control: must be violated" if must else ""))))
    vec_path = os.path.join(run.scratch, "c07-vectors.ndjson")
    nvec, ntrim, nobsv, per = 0, 0, 0, {}
    acccfg = {}
    with open(vec_path, "w") as f:
        for kind, which, prof, r in parallel(jobs, PAR):
            if kind == "splitneg":
                # a splitter that looks for the delimiter's first byte only, advances by one byte, or reads the
                # delimiter as a set of bytes must be refuted as soon as delimiters have two bytes; "fields without
                # the delimiter read back after Join" is NOT a law of multi-byte delimiters
                if prof not in r.violated:
                    raise Inconclusive("negative control passed (AggSplit_MC): %s not violated\n%s" % (prof, r.out[-2000:]))
                continue
            if kind == "neg":
                # a ComputeMinMax memo that Trim does not drop must break the simulation relation
                # (sample, observe, trim, observe), and so must Trim as it was before fix 1000522, and an
                # accumulating group whose shared context keeps the key lookup / the current value of the
                # previous sample, or remembers a key across the column's update;
                # otherwise the model would not see that class of defect
                if "Sim" not in r.violated:
                    raise Inconclusive("negative control passed (%s profile %d): Sim not violated\n%s" % (which, prof, r.out[-2000:]))
                continue
            require_clean(run, r, "%s %s profile %s" % (kind, which, prof))
            if kind != "gen" and not (kind == "split" and "VFJ " in r.out):
                continue
            for line in r.out.splitlines():
                if not line.startswith('"VFJ '):
                    continue
                text = json.loads(line)[4:]          # the vector as JSON text, passed on as it is
                f.write(text + "\n")
                nvec += 1
                per[which] = per.get(which, 0) + 1
                if which == "tbl" and '"op":"t"' in text:
                    ntrim += 1
                if '"op":"o"' in text:
                    nobsv += 1
                if which == "acc" and str(prof) not in acccfg:
                    acccfg[str(prof)] = json.loads(text)["cfg"]
    if nvec < 20000 or ntrim < 1000 or nobsv < 5000 or len(per) < 6 or len(acccfg) < 6 or per.get("split", 0) < 500:
        raise Inconclusive("generator produced too little: %d vectors %s, %d with trims, %d with observation steps" % (
            nvec, per, ntrim, nobsv))
    run.cov["b1_vectors_with_observation_steps"] = nobsv
    # ---- B1: every enumerated history replayed on the real aggregators
    res_path = os.path.join(run.scratch, "c07-replay.json")
    run.drv(["replay", "-in", vec_path, "-out", res_path])
    res = json.load(open(res_path))
    if res["runs"] != nvec or res["executions"] < nvec:
        raise Inconclusive("replay ran %d of %d vectors" % (res["runs"], nvec))
    run.cov["traces_validated_against_impl"] += res["executions"]
    run.cov["b1_executions"] = res["executions"]
    run.cov["evaluations"] += res["observations"]
    run.cov["b1_observations"] = res["observations"]
    run.cov["distinct_nontrivial"] += res["distinct_nontrivial"]
    run.cov["b1_vectors_per_aggregator"] = res["per_agg"]
    for s in res["samples"] or []:
        run.sample({"b1_replay": s})
    for m in res["mismatches"] or []:
        v = m.pop("vector")
        run.violation("b1:%s:%s" % (m["agg"], m["kind"]),
                      "%s after history %s: accessor group '%s' returned %s, the specification says %s" % (
                          m["agg"], m["hist"], m["kind"], json.dumps(m["got"])[:400], json.dumps(m["exp"])[:400]),
                      {"mismatch": m, "vector": v})
    # ---- B2: long seeded random histories recorded from the real aggregators, validated by TLC
    cfgp = os.path.join(run.scratch, "c07-acccfg.json")
    json.dump(acccfg, open(cfgp, "w"))
    if os.environ.get("C07_SAVE_DIR"):      # development aid: keep the TLC-generated inputs of the drivers
        import shutil
        os.makedirs(os.environ["C07_SAVE_DIR"], exist_ok=True)
        shutil.copy(vec_path, os.environ["C07_SAVE_DIR"])
        shutil.copy(cfgp, os.environ["C07_SAVE_DIR"])
    tr = os.path.join(run.scratch, "c07-trace.ndjson")
    run.drv(["trace", "-out", tr, "-acccfg", cfgp, "-scale", 1 if quick else 4])
    r = run.tlc("Aggregators_Trace", TRACE_CFG, files=[("trace.ndjson", tr)], workers=1, timeout=3000,
                xmx="8g", label="Aggregators_Trace")
    if r.violated or r.errors:
        raise Inconclusive("trace validation failed to run: %s %s\n%s" % (r.violated, r.errors[:3], r.out[-3000:]))
    tres = r.json_out("bad.json")
    if tres is None:
        raise Inconclusive("trace validation wrote no result\n%s" % r.out[-3000:])
    lines = open(tr).read().splitlines()
    ntr = sum(1 for x in lines if '"event":"reset"' in x)
    nobs = sum(1 for x in lines if '"event":"obs"' in x)
    run.cov["traces_validated_against_impl"] += ntr
    run.cov["evaluations"] += nobs
    run.cov["distinct_nontrivial"] += nobs
    run.cov["b2_events"] = tres["consumed"]
    run.cov["b2_observations"] = nobs
    if tres["consumed"] != len(lines):
        raise Inconclusive("trace validation consumed %d of %d events" % (tres["consumed"], len(lines)))
    run.sample({"b2_trace_head": [json.loads(x) for x in lines[:4]]})
    for bad in tres["bad"]:
        sl = trace_slice(tr, bad["t"])
        ev = json.loads(lines[bad["l"] - 1])
        agg = json.loads(sl.splitlines()[0])["agg"]
        nsteps = sum(1 for x in lines[:bad["l"]] if True) - [i for i, x in enumerate(lines) if '"event":"reset"' in x and json.loads(x)["t"] == bad["t"]][0]
        path = run.save_replay("trace-%d.ndjson" % bad["t"], sl)
        run.violation("b2:%s:%s" % (agg, ev["event"]),
                      "recorded execution of the real %s aggregator is not a behaviour of Aggregators.tla: event %d of trace %d rejected: %s" % (
                          agg, nsteps, bad["t"], json.dumps(ev)[:500]), path)
    run.cov["rule"] = ("B3: all histories within the bounds; B1: one vector per enumerated history of samples / trims / "
                       "observation steps (every prefix is its own vector), replayed on one long-lived instance per entry "
                       "point (text, typed), all accessors compared at every observation step and at the end, non-trivial = "
                       "history of >= 2 steps (splitter vectors: >= 2 fields); B2: 4 batches of 60 random Splitter{S, Delim} runs and seeded random histories (%d traces, 7..10^4 samples each, numerical bases up "
                       "to 10^10), non-trivial = every recorded observation (all accessors)" % ntr)

"""X02 (beyond the listed properties) - pkg/logger: deferred log lines reach stderr exactly once, in call order, and
only when they may.

Not registered in MANIFEST.json: properties.jsonl is fixed and says nothing about the log controller. LogDefer.tla extends
the system model with the DeferLogs / ImmediateLogs protocol that RunAggregationLoop and the command's After hook use to
keep `[Log]` lines off the screen while an aggregator draws; run with `bin/check X02`."""
import json
import os
from vf import Inconclusive, parallel, require_clean, tlaps, validate_traces, vfj_lines

CLAIM = {
    "text": "LogDefer.tla: the package-level logger with its two sinks (stderr / buffer), the RWMutex with Go's writer "
            "preference, printers (RLock; read sink; write; RUnlock) and the controller (Lock; DeferLogs or the two steps "
            "of ImmediateLogs; Unlock) as separate steps; TLC checks over all interleavings that no line is lost or "
            "doubled, every printer's lines keep their order, nothing stays behind after the closing ImmediateLogs, calls "
            "terminate, and that the model's own call history satisfies the user-level laws of LogDeferLaws.tla (stderr "
            "order is a linearisation of the calls, deferred lines are invisible until the next ImmediateLogs begins, "
            "immediate lines are visible at return); the lock protocol itself (LogLock.tla: the controller's critical section "
            "excludes every printer's, printers inside hold the read lock) is PROVED with TLAPS for any number of printers; four designs (no read lock, no flush, a new buffer at every "
            "DeferLogs, flush after unlock) are refuted. TLC-enumerated call sequences are replayed on the real package "
            "and seeded concurrent histories of the real package are judged by the same laws (LogDefer_Trace).",
    "note": "extra coverage, not a listed property",
    "technique": "TLA+ model checking (TLC) + TLAPS proof of the lock protocol + model-generated call sequences replayed on the real package + history validation by TLC",
}
LEVEL = "model_checking"

INVS = "TypeOK Mutex NoLoss ExactlyOnce WriterOrder FinalOK HistoryOK PrefixOK"


def _cfg(script, nw, nmsg, design, live=True):
    return ("SPECIFICATION Spec\nCONSTANTS\n Writers <- MCWriters\n Script <- MCScript\n NMsg = %d\n NW = %d\n ScriptId = %d\n"
            " Design = \"%s\"\nINVARIANTS %s\n%sCHECK_DEADLOCK FALSE\n" % (nmsg, nw, script, design, INVS,
                                                                         "PROPERTIES Terminates\n" if live else ""))


def check(run):
    quick = run.tier == "quick"
    run.build_harness()
    run.assumptions += [
        "stderr is a file opened with O_APPEND (one write per line, as log.Logger does); what is on stderr is what a "
        "reader of that file sees",
        "the laws speak about calls that do not overlap (return stamp before call stamp); overlapping calls may land "
        "in either order",
        "Fatal* (print, then exit) is used by the commands only before DeferLogs and is not part of the model",
    ]
    # ---------------------------------------------------------------- B3
    jobs = []
    # (script, writers, lines per writer)
    confs = [(1, 2, 2), (2, 2, 1), (3, 2, 1), (4, 2, 1), (6, 2, 2), (5, 1, 2)] if quick else \
            [(1, 2, 2), (2, 2, 2), (3, 2, 2), (4, 2, 2), (6, 3, 1), (5, 2, 1), (1, 3, 1), (5, 1, 3)]
    for (sid, nw, nm) in confs:
        jobs.append(lambda sid=sid, nw=nw, nm=nm: (
            "ok", run.tlc("LogDefer_MC", _cfg(sid, nw, nm, "rwlock"), workers=2 if quick else 4, timeout=1800,
                          coverage=(sid == 2), label="LogDefer script=%d W=%d K=%d" % (sid, nw, nm))))
    for design, sid in (("nolock", 1), ("noflush", 1), ("newbuf", 2), ("lateflush", 1)):
        jobs.append(lambda design=design, sid=sid: (
            "neg:" + design, run.tlc("LogDefer_MC", _cfg(sid, 2, 1, design, live=False), workers=1, timeout=900,
                                     label="LogDefer negative control: %s" % design)))
    gen_cfg = "INIT Init\nNEXT Next\nCONSTANTS MaxLen = %d\nINVARIANTS Lawful Dump\nCHECK_DEADLOCK FALSE\n" % (5 if quick else 7)
    jobs.append(lambda: ("gen", run.tlc("LogDefer_Gen", gen_cfg, workers=1, timeout=900, label="LogDefer_Gen")))
    gen = None
    taken = {}
    refuted = {}
    for tag, r in parallel(jobs, 5):
        if tag.startswith("neg:"):
            if not r.violated:
                raise Inconclusive("negative control %s not refuted: %s" % (tag, r.out[-1500:]))
            refuted[tag[4:]] = sorted(r.violated)
        elif tag == "gen":
            gen = r
        else:
            require_clean(run, r, "LogDefer")
            for a, (n, _) in (r.coverage or {}).items():
                taken[a] = taken.get(a, 0) + n
    zero = [a for a, n in taken.items() if n == 0 and "CLate" not in a]
    if zero or not taken:
        raise Inconclusive("vacuous model: actions never taken: %s" % zero)
    run.cov["negative_controls"] = refuted
    if gen.violated or gen.errors:
        raise Inconclusive("generator failed: %s" % gen.out[-1500:])
    vectors = vfj_lines(gen.out)
    if len(vectors) < 1000:
        raise Inconclusive("generator produced only %d call sequences" % len(vectors))
    # ---------------------------------------------------------------- TLAPS: the lock protocol for ANY number of printers
    run.cov["tlaps_obligations_proved"] = tlaps(run, "LogLock")
    # ---------------------------------------------------------------- B1
    vpath = os.path.join(run.scratch, "x02-vectors.ndjson")
    with open(vpath, "w") as f:
        for v in vectors:
            f.write(json.dumps(v, separators=(",", ":")) + "\n")
    b1res = os.path.join(run.scratch, "x02-b1.json")
    b2res = os.path.join(run.scratch, "x02-b2.json")
    b2tr = os.path.join(run.scratch, "x02-b2-trace.ndjson")
    parallel([lambda: run.drv(["replay", "-in", vpath, "-out", b1res], timeout=2400),
              lambda: run.drv(["random", "-n", 300 if quick else 4000, "-out", b2res, "-trace", b2tr], timeout=2400)], 2)
    res = json.load(open(b1res))
    run.cov["b1_sequences"] = res["runs"]
    run.cov["evaluations"] += res["steps"]
    for m in res["mismatches"] or []:
        run.violation("b1:%s" % m["why"], "calls %s: after call %d stderr holds %s, LogDefer.tla says %s" % (
            " ".join(m["ops"]), m["step"], m["got"], m["want"]), m)
    # ---------------------------------------------------------------- B2
    lines = open(b2tr).read().splitlines()
    canary = []
    for k, ln in enumerate(lines[:: max(1, len(lines) // 30)]):
        c = json.loads(ln)
        if len(c["err"]) >= 2:
            c["t"] = -(k + 1)
            if k % 3 == 0:
                c["err"] = c["err"][1:]                       # a lost line
            elif k % 3 == 1:
                c["err"] = c["err"] + [c["err"][0]]           # a doubled line
            else:
                w = c["err"][0][0]                            # a printer's first two lines change places
                idx = [i for i, e in enumerate(c["err"]) if e[0] == w]
                if len(idx) < 2:
                    c["err"] = c["err"][1:]
                else:
                    c["err"][idx[0]], c["err"][idx[1]] = c["err"][idx[1]], c["err"][idx[0]]
            canary.append(json.dumps(c, separators=(",", ":")))
    both = os.path.join(run.scratch, "x02-trace.ndjson")
    with open(both, "w") as f:
        f.write("\n".join(lines + canary) + "\n")
    vres, r = validate_traces(run, "LogDefer_Trace", both)
    if vres["consumed"] != len(lines) + len(canary):
        raise Inconclusive("history validation consumed %d of %d records" % (vres["consumed"], len(lines) + len(canary)))
    rejected = {b["t"] for b in vres["bad"] if b["t"] < 0}
    if len(canary) < 5 or len(rejected) != len(canary):
        raise Inconclusive("history validation rejected %d of %d corrupted records" % (len(rejected), len(canary)))
    for b in vres["bad"]:
        if b["t"] < 0:
            continue
        rec = json.loads(lines[b["l"] - 1])
        for why in b["why"]:
            run.violation("b2:%s" % why, "history %s (%d calls): stderr %s... is not what LogDefer.tla allows: %s" % (
                rec["cfg"], len(rec["h"]), rec["err"][:8], why), rec)
    run.cov["traces_validated_against_impl"] += len(lines)
    recs = [json.loads(ln) for ln in lines]
    run.cov["distinct_nontrivial"] = len({json.dumps([(c["op"], c["w"], c["k"], c["vis"]) for c in sorted(rc["h"], key=lambda c: c["s"])])
                                          for rc in recs if any(c["op"] == "P" and not c["vis"] for c in rc["h"])})
    run.cov["rule"] = "a history is non-trivial when at least one line was printed while deferred; distinct by call order"
    run.sample({"vector": vectors[len(vectors) // 2]})
    run.sample({"history": {"cfg": recs[-1]["cfg"], "calls": len(recs[-1]["h"]), "err": recs[-1]["err"][:10]}})

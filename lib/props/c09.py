"""C09 - template syntax: literals, escapes, quotes and nesting parse as documented."""
import json
import os
import time
from vf import Inconclusive, parallel, require_clean, validate_traces, vfj_lines

CLAIM = {
    "text": "ExprSyntax.tla gives the documented template syntax as a printer over annotated trees Lit | Grp | Key | Call(f, args) "
            "(every admissible choice of 1-2 blanks from {space, tab} between arguments, blanks inside the braces, optional quotes, "
            "mandatory quotes for empty or blank-containing arguments, nested calls in any argument position, quoted sub-templates such as \"{0}\", escaped literal "
            "text around statements) and a parse model that transcribes the three cooperating scanners of pkg/expressions (Compile, "
            "splitTokenizedArguments, stageSimpleVariable). TLC proves on the model that parsing any printed tree (depth <= 3, <= 3 arguments, "
            "all variants) returns the tree, that the escaped rendering of every string over {a { } \\ \" space n t \\n \\t \\r} evaluates to the "
            "string, and that a dropped closing brace, an empty statement and an unregistered function yield the classes unterminated, empty, "
            "unknownFunc. Every enumerated case is compiled by the real compiler (optimising and not) into a fresh key builder with transparent "
            "functions and evaluated against a recording context: the rendering must spell the abstract tree. Seeded random trees (depth <= 4, "
            "<= 4 arguments, multi-byte alphabets), random malformations and wild edits are recorded and validated by TLC; a sample goes "
            "through `rare expression`.",
    "note": "Outside the documented domain (only 'returns, no panic' is demanded): escapes inside braces (multi-level in the code), arguments "
            "containing \" { } \\, quoted keys, adjacent quoted/bare pieces, integers with sign/leading zeros or more than 9 digits, a lone "
            "trailing backslash, error offsets and the partial output of a template with compile errors. Trusted: TLC, the Go runtime.",
    "technique": "TLA+ functional specification (printer + parser transcription) model-checked with TLC + model-generated vectors replayed "
                 "on the real compiler + TLC validation of recorded compilations",
}

CLASSES = {"unterminated", "empty", "unknownFunc"}


def _cfg(invs, thorough):
    return ("INIT Init\nNEXT Next\nCONSTANTS Thorough = %s\nINVARIANTS %s\nCHECK_DEADLOCK FALSE\n"
            % ("TRUE" if thorough else "FALSE", invs))


def check(run):
    try:
        _check(run)
    except Inconclusive:
        raise
    except Exception as e:  # infrastructure trouble is never a verdict
        import traceback
        raise Inconclusive("c09 check failed: %s\n%s" % (e, traceback.format_exc()))


def _txt(cps):
    try:
        return "".join(chr(c) for c in cps)
    except Exception:
        return repr(cps)


def _check(run):
    quick = run.tier == "quick"
    run.assumptions += [
        "domain (ExprSyntax.tla WFTpl): arguments are bare words without \" { } \\ and blanks, or double-quoted strings without \" { } \\; "
        "keys are words with at least one character that is not a digit or sign; groups are 0..999999999 written without sign or leading "
        "zeros; separators are 1..n blanks from {space, tab}; top-level text escapes { and \\ and never n t r",
        "escapes inside braces, quoted keys, text glued to a nested statement inside an argument, a lone trailing backslash: undocumented, "
        "outside the domain (the compiler only has to return)",
        "for a malformed template only the error classes are demanded (must-report set <= reported <= may-report set), not offsets or output; "
        "statements nested in the arguments of an unknown function need not be diagnosed",
        "the test functions f g h1 λx are registered through the public KeyBuilder.Func and only concatenate their evaluated arguments",
    ]
    run.build_harness()
    vec_path = os.path.join(run.scratch, "c09-vectors.ndjson")
    res_path = os.path.join(run.scratch, "c09-replay.json")
    cli_path = os.path.join(run.scratch, "c09-cli.json")
    trace = os.path.join(run.scratch, "c09-trace.ndjson")

    # ---- B3 (laws on the model) and the B1 generator explore the same case space; in the quick tier one TLC run does both
    def gen():
        r = run.tlc("ExprSyntax_Gen", _cfg("LawOK Dump", False), workers=4 if quick else 2, timeout=3000,
                    label="ExprSyntax_Gen (laws + vectors)")
        require_clean(run, r, "ExprSyntax_Gen (laws on the quick case space)")
        n = 0
        with open(vec_path, "w") as f:
            for v in vfj_lines(r.out):
                f.write(json.dumps(v, separators=(",", ":")) + "\n")
                n += 1
        if n < 50000:
            raise Inconclusive("generator produced only %d vectors" % n)
        run.drv(["replay", "-in", vec_path, "-out", res_path])
        rare = run.build_cli()
        run.drv(["cli", "-in", vec_path, "-rare", rare, "-out", cli_path, "-n", 160 if quick else 1500])
        return r

    def b3_thorough():
        r = run.tlc("ExprSyntax_MC", _cfg("LawOK", True), workers=6, timeout=3000, xmx="8g",
                    label="ExprSyntax_MC laws Thorough=TRUE")
        require_clean(run, r, "ExprSyntax_MC (laws)")
        if r.distinct < 400000:
            raise Inconclusive("law check explored only %d cases" % r.distinct)
        return r

    # ---- B2: random trees / malformations / wild edits on the real compiler, validated by TLC
    def b2():
        run.drv(["trace", "-out", trace, "-n", 12000 if quick else 300000])
        lines = open(trace).read().splitlines()
        nreal = len(lines)
        # canaries: corrupted copies of real records must be rejected (guards against a vacuous validation)
        canary = 0
        for ln in lines[:2000]:
            rec = json.loads(ln)
            if rec["kind"] != "tree" or rec["panic"]:
                continue
            if rec["errs"]:
                rec["errs"] = []
            else:
                rec["out"] = rec["out"] + [33]
            rec["canary"] = True
            lines.append(json.dumps(rec, separators=(",", ":")))
            canary += 1
            if canary >= 200:
                break
        k = 2 if quick else 8
        per = (len(lines) + k - 1) // k
        chunks = []
        for i in range(k):
            part = lines[i * per:(i + 1) * per]
            if part:
                p = os.path.join(run.scratch, "c09-chunk-%d.ndjson" % i)
                with open(p, "w") as f:
                    f.write("\n".join(part) + "\n")
                chunks.append((i, p, part))

        def val(i, p):
            time.sleep(0.4 * i)
            return validate_traces(run, "ExprSyntax_Trace", p, label="ExprSyntax_Trace chunk %d" % i, timeout=3000, xmx="3g")

        return nreal, canary, chunks, parallel([lambda i=i, p=p: val(i, p) for i, p, _ in chunks], k)

    if quick:
        _, (nreal, canary, chunks, results) = parallel([gen, b2], 2)
    else:
        parallel([gen, b3_thorough], 2)
        nreal, canary, chunks, results = b2()

    # ---- B1 verdicts
    res = json.load(open(res_path))
    run.cov["b1_vectors"] = res["vectors"]
    run.cov["b1_compilations"] = res["runs"]
    run.cov["b1_per_group"] = res["per_group"]
    run.cov["traces_validated_against_impl"] += res["runs"]
    run.cov["evaluations"] += res["runs"]
    run.cov["distinct_nontrivial"] += res["distinct_nontrivial"]
    for s in res["samples"] or []:
        run.sample({"b1": s})
    for m in res["mismatches"] or []:
        if m["kind"] == "err":
            exp = "the error classes %s (at most %s)" % (m["lo"], m["hi"])
        elif m["kind"] == "any":
            exp = "a result"
        else:
            exp = "no error and the rendering %r" % m["expect"]
        run.violation("b1:%s:%s" % (m["kind"], m["class"]),
                      "template %r (group %s, optimise=%s) gives %r errors=%s%s; ExprSyntax.tla expects %s" % (
                          m["text"], m["g"], m["opt"], m["got"], m["errs"], " PANIC " + m["panic"] if m["panic"] else "", exp), m)

    cli = json.load(open(cli_path))
    run.cov["cli_runs"] = cli["runs"]
    run.cov["cli_kinds"] = cli["kinds"]
    run.cov["traces_validated_against_impl"] += cli["runs"]
    if cli["runs"] < 100:
        raise Inconclusive("only %d command line runs" % cli["runs"])
    for s in cli["samples"] or []:
        run.sample({"cli": s})
    for m in cli["mismatches"] or []:
        run.violation("cli:%s:%s" % (m["kind"], m["class"]),
                      "`rare expression` on %r prints %r (stderr %r); expected %s" % (
                          m["text"], m["stdout"], m["stderr"][:300],
                          ("a compile error mentioning %s" % m["lo"]) if m["kind"] == "err" else repr(m["want"])), m)

    # ---- B2 verdicts
    consumed = nontrivial = canary_rejected = 0
    for (i, p, part), (r, _) in zip(chunks, results):
        if r["consumed"] != len(part) or not r["done"]:
            raise Inconclusive("trace chunk %d: consumed %d of %d records" % (i, r["consumed"], len(part)))
        consumed += r["consumed"]
        nontrivial += r["nontrivial"]
        for bad in r["bad"]:
            rec = json.loads(part[bad["l"] - 1])
            if rec.get("canary"):
                canary_rejected += 1
                continue
            if bad["class"] in ("harness-wf", "harness-print", "model"):
                raise Inconclusive("trace record rejected for a reason that is not the compiler's (%s): %s" % (
                    bad["class"], json.dumps(rec)[:1500]))
            run.violation("b2:%s:%s" % (rec["kind"], bad["class"]),
                          "recorded compilation of %r: optimised -> %r errors=%s, unoptimised -> %r errors=%s%s is rejected by "
                          "ExprSyntax.tla (%s)" % (_txt(rec["text"]), _txt(rec["out"]), rec["errs"], _txt(rec["out2"]), rec["errs2"],
                                                   " PANIC " + rec.get("pmsg", "") if rec["panic"] else "", bad["class"]), rec)
    if canary_rejected != canary:
        raise Inconclusive("trace validation rejected only %d of %d deliberately corrupted records" % (canary_rejected, canary))
    run.cov["b2_corrupted_records_rejected"] = "%d of %d" % (canary_rejected, canary)
    run.cov["b2_records"] = consumed - canary
    run.cov["b2_records_inside_domain"] = nontrivial - canary
    run.cov["traces_validated_against_impl"] += 2 * nreal
    run.cov["evaluations"] += 2 * nreal
    run.cov["distinct_nontrivial"] += nontrivial - canary
    with open(trace) as f:
        for _ in range(2):
            rec = json.loads(next(f))
            run.sample({"b2": {"kind": rec["kind"], "text": _txt(rec["text"]), "out": _txt(rec["out"]), "errs": rec["errs"]}})
    if (nontrivial - canary) * 2 < nreal:
        raise Inconclusive("only %d of %d recorded compilations are inside the documented domain" % (nontrivial - canary, nreal))
    run.cov["rule"] = ("B3: every case of every group of ExprSyntaxCases (law per kind); B1: every case compiled twice (optimising / not), "
                       "non-trivial = distinct template text whose kind demands a rendering or error classes (not 'any'); "
                       "B2: one record per random template (compiled twice), non-trivial = kind 'tree' (inside the documented domain)")

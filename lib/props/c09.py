"""C09 - template syntax: literals, escapes, quotes and nesting parse as documented."""
import json
import os
import threading
import time
from vf import Inconclusive, parallel, require_clean, vfj_lines
import vf

CLAIM = {
    "text": "ExprSyntax.tla gives the documented template syntax as a printer over annotated trees Lit | Grp | Key | Call(f, args) "
            "(every admissible choice of 1-2 blanks from {space, tab} between arguments, blanks inside the braces, optional quotes, "
            "mandatory quotes for empty or blank-containing arguments, nested calls in any argument position, quoted sub-templates such as \"{0}\", escaped literal "
            "text around statements) and a parse model that transcribes the three cooperating scanners of pkg/expressions (Compile, "
            "splitTokenizedArguments, stageSimpleVariable). TLC proves on the model that parsing any printed tree (depth <= 3, <= 3 arguments, "
            "all variants) returns the tree, that the escaped rendering of every string over {a { } \\ \" space n t \\n \\t \\r} evaluates to the "
            "string, and that a dropped closing brace, an empty statement and an unregistered function yield the classes unterminated, empty, "
            "unknownFunc. Every enumerated case is compiled by the real compiler (optimising and not) into a fresh key builder with transparent "
            "functions and evaluated against a recording context: the rendering must spell the abstract tree. Seeded random trees (depth <= 4, "
            "<= 4 arguments, multi-byte alphabets), random malformations and wild edits are recorded and validated by TLC; a sample goes "
            "through `rare expression`. ExprSyntaxHist.tla models the key builder as an object with a history (function table, "
            "memory between calls, the compiled templates handed out): TLC proves for every history of Func registrations and Compile "
            "calls of its pools that the outcome of a Compile is a function of the template text and the registered functions only and "
            "that compiled templates keep their value (a behaviour-preserving memoisation satisfies this, five history-dependent "
            "variants - memoised arguments that swallow their errors, a memory that survives Func, a memory keyed by trimmed text, late "
            "function binding, a leaking error list - are rejected); every enumerated history is replayed on ONE long-lived real key "
            "builder (optimising and not), every compiled template re-evaluated after every later step; seeded random histories over a "
            "shared pool of well-formed and malformed arguments are recorded and validated by TLC. Every empty statement / unregistered "
            "function has to be reported as an error of its own (error counts, not only classes). "
            "White space is every Unicode White_Space character (the class the tokenizer separates on): each of the 25 characters is used "
            "as the only separator and padding of whole statements (groups ws / wserr), and the random generators draw a white-space style per "
            "template. ExprSyntaxIdx.tla decides 'integer or key' for digit strings of any length by decimal digit arithmetic with the index "
            "range as an explicit width (abstract range test, the strconv.Atoi transcription, refuted: a wrapping accumulator, a saturating "
            "one); the boundaries 2^63 / 2^64 +- k, multiples, leading zeros, minus signs are replayed on the compiler and the command line. "
            "ExprSyntaxEval.tla models the evaluation of ONE compiled template as a machine of frames (per-evaluation stack and accumulators "
            "versus state owned by a compiled stage): TLC proves for every interleaving of 2-3 workers and for funcs-file functions applied "
            "to themselves that each evaluation returns the denotation of the tree in its own context, rejects joined argument stages / "
            "BuildKey sharing one scratch buffer, and exports every schedule for replay on the real code with gated contexts; free-running "
            "goroutines on random self-applications are recorded and validated by TLC.",
    "note": "Outside the documented domain (only 'returns, no panic' is demanded): escapes inside braces (multi-level in the code), arguments "
            "containing \" { } \\, quoted keys, adjacent quoted/bare pieces, integers with a plus sign, a lone "
            "trailing backslash, error offsets and the partial output of a template with compile errors. Trusted: TLC, the Go runtime.",
    "technique": "TLA+ functional specification (printer + parser transcription) model-checked with TLC + model-generated vectors replayed "
                 "on the real compiler + TLC validation of recorded compilations",
}

CLASSES = {"unterminated", "empty", "unknownFunc"}


class _Budget:
    """at most `n` TLC workers of this check at a time (the machine is shared): a TLC run waits for its share."""

    def __init__(self, n):
        self.free, self.cv = n, threading.Condition()

    def run(self, workers, fn):
        with self.cv:
            while self.free < workers:
                self.cv.wait()
            self.free -= workers
        try:
            return fn()
        finally:
            with self.cv:
                self.free += workers
                self.cv.notify_all()


def _cfg(invs, thorough):
    return ("INIT Init\nNEXT Next\nCONSTANTS Thorough = %s\nINVARIANTS %s\nCHECK_DEADLOCK FALSE\n"
            % ("TRUE" if thorough else "FALSE", invs))


def check(run):
    try:
        _check(run)
    except Inconclusive:
        raise
    except Exception as e:  # infrastructure trouble is never a verdict
        import traceback
        raise Inconclusive("c09 check failed: %s\n%s" % (e, traceback.format_exc()))


def _txt(cps):
    try:
        return "".join(chr(c) for c in cps)
    except Exception:
        return repr(cps)


def _check(run):
    quick = run.tier == "quick"
    budget = _Budget(8)

    def tlc(module, cfg, workers=1, **kw):
        return budget.run(workers, lambda: run.tlc(module, cfg, workers=workers, **kw))

    def validate_traces(run_, module, path, **kw):
        return budget.run(1, lambda: vf.validate_traces(run_, module, path, **kw))

    run.assumptions += [
        "domain (ExprSyntax.tla WFTpl): arguments are bare words without \" { } \\ and blanks, or double-quoted strings without \" { } \\; "
        "keys are words with at least one character that is not a digit or sign; a lone integer (digits, optional minus sign, leading zeros, "
        "any length) is the group of that number when the number fits the index type (Go int, 64 bits: -2^63 .. 2^63-1) and a key lookup by "
        "its text otherwise - never a different group; separators and padding inside braces are 1..n white-space characters (Unicode "
        "White_Space = unicode.IsSpace, the class the unchanged tokenizer separates on); top-level text escapes { and \\ and never n t r",
        "evaluation layer: a compiled template may be evaluated by any number of goroutines at once, each with its own context, and a "
        "funcs-file function may be applied to its own result; every evaluation returns what the tree dictates in its context. The "
        "gated replay controls the workers only at their context lookups; a schedule that does not fit the lookups the real code makes is "
        "no verdict (the workers run on), only the returned strings are compared",
        "escapes inside braces, quoted keys, text glued to a nested statement inside an argument, a lone trailing backslash: undocumented, "
        "outside the domain (the compiler only has to return)",
        "for a malformed template only the error classes are demanded (must-report set <= reported <= may-report set), not offsets or output; "
        "statements nested in the arguments of an unknown function need not be diagnosed",
        "the test functions f g h1 λx are registered through the public KeyBuilder.Func and only concatenate their evaluated arguments",
        "history layer: a key builder may be used for any number of Compile calls with Func registrations in between; a Compile sees the "
        "functions registered at that moment, a compiled template stays bound to the functions it was compiled with; re-evaluation is "
        "demanded only for templates that compiled without error",
        "error counts: at least one error per empty statement / call of an unregistered function that is not hidden below an unknown "
        "function or behind a missing closing brace; no upper bound on the count",
    ]
    run.build_harness()
    vec_path = os.path.join(run.scratch, "c09-vectors.ndjson")
    res_path = os.path.join(run.scratch, "c09-replay.json")
    cli_path = os.path.join(run.scratch, "c09-cli.json")
    trace = os.path.join(run.scratch, "c09-trace.ndjson")
    hist_path = os.path.join(run.scratch, "c09-histories.ndjson")
    hres_path = os.path.join(run.scratch, "c09-replayhist.json")
    htrace = os.path.join(run.scratch, "c09-histtrace.ndjson")
    # negative controls: mode, the law it has to violate, the pool whose theme exposes it (quick tier; thorough searches every pool)
    NEG = (("memoNoErr", "HistIndep", 4), ("memoStale", "HistIndep", 8), ("memoTrim", "HistIndep", 1), ("lateBind", "EvalStable", 1),
           ("errLeak", "HistIndep", 4))

    def hcfg(init, nxt, mode, maxops, invs, thorough=False, pool=0):
        return ("INIT %s\nNEXT %s\nCONSTANTS Thorough = %s\nMode = \"%s\"\nMaxOps = %d\nPoolSel = %d\nINVARIANTS %s\n"
                "CHECK_DEADLOCK FALSE\n" % (init, nxt, "TRUE" if thorough else "FALSE", mode, maxops, pool, invs))

    # ---- history layer: B3 (laws over every history, positive and negative controls) + B1 (histories replayed on one builder)
    def hist():
        def collect(r, f):
            k = 0
            for v in vfj_lines(r.out):
                f.write(json.dumps(v, separators=(",", ":")) + "\n")
                k += 1
            return k

        def bfs():
            r = tlc("ExprSyntaxHist_Gen", hcfg("GInit", "GNext", "plain", 3, "HistLawsOK Dump", thorough=not quick),
                        workers=2, timeout=3000, label="ExprSyntaxHist_Gen (history laws + histories, <= 3 operations)")
            require_clean(run, r, "ExprSyntaxHist_Gen (history laws, code as it is)")
            run.cov["hist_b3_states"] = r.distinct
            return r

        def walk():  # deeper histories by random walks through the same machine
            r = tlc("ExprSyntaxHist_Gen", hcfg("GInit", "GNext", "plain", 7, "HistLawsOK Dump", thorough=not quick),
                        workers=1 if quick else 2, timeout=3000, simulate="num=%d" % (60 if quick else 1200), depth=9,
                        label="ExprSyntaxHist_Gen (random histories of 7 operations)")
            require_clean(run, r, "ExprSyntaxHist_Gen (history laws, deep random histories)")
            return r

        def memo():  # a behaviour-preserving memoisation satisfies the laws ...
            r = tlc("ExprSyntaxHist_MC", hcfg("HInit", "HNext", "memo", 2 if quick else 3, "HistIndep EvalStable StepLawOK"),
                        workers=1 if quick else 2, timeout=3000, label="ExprSyntaxHist_MC Mode=memo (sound memoisation)")
            require_clean(run, r, "ExprSyntaxHist_MC Mode=memo")

        def neg(mode, inv, pool):  # ... and every history-dependent variant is rejected by the model
            r = tlc("ExprSyntaxHist_MC", hcfg("HInit", "HNext", mode, 3, "HistIndep EvalStable", pool=pool if quick else 0),
                        workers=1 if quick else 2, timeout=3000, label="ExprSyntaxHist_MC Mode=%s (negative control)" % mode)
            if inv not in r.violated:
                raise Inconclusive("negative control %s does not violate %s (violated=%s)\n%s" % (mode, inv, r.violated, r.out[-2000:]))
            return "%s violates %s" % (mode, inv)

        def b1():
            rs = parallel([bfs, walk], 2) if not quick else [bfs(), walk()]
            with open(hist_path, "w") as f:
                nh = sum(collect(r, f) for r in rs)
            if nh < (20000 if quick else 100000):
                raise Inconclusive("history generator produced only %d histories" % nh)
            run.drv(["replayhist", "-in", hist_path, "-out", hres_path])
            return nh

        def bfs4():  # thorough: the laws over every history of <= 4 operations (model only)
            r = tlc("ExprSyntaxHist_MC", hcfg("HInit", "HNext", "plain", 4, "HistLawsOK"), workers=2, timeout=3000,
                        label="ExprSyntaxHist_MC Mode=plain, <= 4 operations")
            require_clean(run, r, "ExprSyntaxHist_MC (history laws, <= 4 operations)")
            run.cov["hist_b3_states_4_operations"] = r.distinct

        def controls():
            memo()
            rej = [neg(*x) for x in NEG]
            bfs4()
            return rej

        if quick:
            def late():  # starts when the first TLC runs of the other threads are over
                time.sleep(18)
                return parallel([memo] + [lambda x=x: neg(*x) for x in NEG], 2)[1:]
            nh, rej = parallel([b1, late], 2)
        else:
            nh, rej = parallel([b1, controls], 2)
        run.cov["hist_negative_controls"] = rej
        return nh

    # ---- history layer B2: random histories on long-lived real key builders, validated by TLC
    hcanary_compiles = 0

    def hist_b2():
        run.drv(["histtrace", "-out", htrace, "-n", 700 if quick else 30000])
        lines = open(htrace).read().splitlines()
        # split into histories; canaries = copies of real histories with one observed field corrupted
        hs, cur = [], []
        for ln in lines:
            if '"op":"new"' in ln and cur:
                hs.append(cur)
                cur = []
            cur.append(ln)
        if cur:
            hs.append(cur)
        canaries = []
        for h in hs[:400]:
            recs = [json.loads(x) for x in h]
            idx = [i for i, x in enumerate(recs) if x["op"] == "compile" and not x["panic"]]
            if not idx:
                continue
            i = idx[len(idx) // 2]
            if len(canaries) % 3 == 2 and any(not recs[q]["errs"] and not recs[q]["errs2"] for q in idx):
                fld = ("re", "re3")[len(canaries) % 2]
                recs[-1][fld] = [o + [33] for o in recs[-1][fld]]      # every re-evaluation differs
                recs[-1]["canary"] = True
            elif recs[i]["errs"]:
                recs[i]["errs"], recs[i]["errn"] = [], {k: 0 for k in recs[i]["errn"]}
                recs[i]["canary"] = True
            else:
                recs[i]["out2"] = recs[i]["out2"] + [33]
                recs[i]["canary"] = True
            canaries.append([json.dumps(x, separators=(",", ":")) for x in recs])
            if len(canaries) >= 60:
                break
        k = 1 if quick else 8
        per = (len(hs) + k - 1) // k
        groups = [hs[i * per:(i + 1) * per] for i in range(k)]
        groups[0] = groups[0] + canaries
        nonlocal hcanary_compiles
        hcanary_compiles = sum(1 for c in canaries for ln in c if '"op":"compile"' in ln)
        chunks = []
        for i, g in enumerate(groups):
            part = [ln for h in g for ln in h]
            if part:
                p = os.path.join(run.scratch, "c09-hchunk-%d.ndjson" % i)
                with open(p, "w") as f:
                    f.write("\n".join(part) + "\n")
                chunks.append((i, p, part))
        res = parallel([lambda i=i, p=p: validate_traces(run, "ExprSyntaxHist_Trace", p, label="ExprSyntaxHist_Trace chunk %d" % i,
                                                         timeout=3000, xmx="3g") for i, p, _ in chunks], min(k, 6))
        return len(hs), len(canaries), chunks, res

    # ---- B3 (laws on the model) and the B1 generator explore the same case space; in the quick tier one TLC run does both
    def gen():
        r = tlc("ExprSyntax_Gen", _cfg("LawOK Dump", False), workers=4 if quick else 2, timeout=3000,
                    label="ExprSyntax_Gen (laws + vectors)")
        require_clean(run, r, "ExprSyntax_Gen (laws on the quick case space)")
        n = 0
        with open(vec_path, "w") as f:
            for v in vfj_lines(r.out):
                f.write(json.dumps(v, separators=(",", ":")) + "\n")
                n += 1
        if n < 50000:
            raise Inconclusive("generator produced only %d vectors" % n)
        run.drv(["replay", "-in", vec_path, "-out", res_path])
        rare = run.build_cli()
        run.drv(["cli", "-in", vec_path, "-rare", rare, "-out", cli_path, "-n", 160 if quick else 1500])
        return r

    def b3_thorough():
        r = tlc("ExprSyntax_MC", _cfg("LawOK", True), workers=4, timeout=3000, xmx="8g",
                    label="ExprSyntax_MC laws Thorough=TRUE")
        require_clean(run, r, "ExprSyntax_MC (laws)")
        if r.distinct < 400000:
            raise Inconclusive("law check explored only %d cases" % r.distinct)
        return r

    # ---- B2: random trees / malformations / wild edits on the real compiler, validated by TLC
    def b2():
        run.drv(["trace", "-out", trace, "-n", 12000 if quick else 300000])
        lines = open(trace).read().splitlines()
        nreal = len(lines)
        # canaries: corrupted copies of real records must be rejected (guards against a vacuous validation)
        canary = 0
        for ln in lines[:2000]:
            rec = json.loads(ln)
            if rec["kind"] != "tree" or rec["panic"]:
                continue
            if rec["errs"]:
                rec["errs"] = []
            else:
                rec["out"] = rec["out"] + [33]
            rec["canary"] = True
            lines.append(json.dumps(rec, separators=(",", ":")))
            canary += 1
            if canary >= 200:
                break
        k = 2 if quick else 8
        per = (len(lines) + k - 1) // k
        chunks = []
        for i in range(k):
            part = lines[i * per:(i + 1) * per]
            if part:
                p = os.path.join(run.scratch, "c09-chunk-%d.ndjson" % i)
                with open(p, "w") as f:
                    f.write("\n".join(part) + "\n")
                chunks.append((i, p, part))

        def val(i, p):
            time.sleep(0.4 * i)
            return validate_traces(run, "ExprSyntax_Trace", p, label="ExprSyntax_Trace chunk %d" % i, timeout=3000, xmx="3g")

        return nreal, canary, chunks, parallel([lambda i=i, p=p: val(i, p) for i, p, _ in chunks], k)

    def b2_both():
        a = b2()
        return a, hist_b2()

    # ---- integer-versus-key decision (ExprSyntaxIdx) and evaluation layer (ExprSyntaxEval): B3 with negative controls, B1, B2
    sched_path = os.path.join(run.scratch, "c09-schedules.ndjson")
    sres_path = os.path.join(run.scratch, "c09-evalsched.json")
    etrace = os.path.join(run.scratch, "c09-evaltrace.ndjson")

    def ecfg(init, nxt, shared, grain, invs, case=0):
        return ("INIT %s\nNEXT %s\nCONSTANTS Shared = {%s}\nGrain = \"%s\"\nCaseSel = %d\nINVARIANTS %s\nCHECK_DEADLOCK FALSE\n"
                % (init, nxt, shared, grain, case, invs))

    wvec_path = os.path.join(run.scratch, "c09-wsvectors.ndjson")
    wres_path = os.path.join(run.scratch, "c09-wsreplay.json")
    wcli_path = os.path.join(run.scratch, "c09-wscli.json")

    def idx_eval():
        out = {}
        # white space and written integers in whole templates: laws + vectors, replayed on the compiler and the command line
        r = tlc("ExprSyntax_Gen", _cfg("LawOK Dump", not quick).replace("INIT Init", "INIT WsInit"), workers=1 if quick else 2, timeout=3000,
                label="ExprSyntax_Gen WsInit (white-space characters, written integers: laws + vectors)")
        require_clean(run, r, "ExprSyntax_Gen WsInit")
        nw = 0
        with open(wvec_path, "w") as f:
            for v in vfj_lines(r.out):
                f.write(json.dumps(v, separators=(",", ":")) + "\n")
                nw += 1
        if nw < 6000:
            raise Inconclusive("white-space / index generator produced only %d vectors" % nw)
        run.drv(["replay", "-in", wvec_path, "-out", wres_path])
        run.drv(["cli", "-in", wvec_path, "-rare", run.build_cli(), "-out", wcli_path, "-n", 90 if quick else 400])
        # the index decision: digit arithmetic, all small-width strings, the 32/64-bit boundary families
        def icfg(mode, invs):
            return ("INIT Init\nNEXT Next\nCONSTANTS Mode = \"%s\"\nThorough = %s\nINVARIANTS %s\nCHECK_DEADLOCK FALSE\n"
                    % (mode, "FALSE" if quick else "TRUE", invs))
        for mode in ("spec", "atoi"):
            r = tlc("ExprSyntaxIdx_MC", icfg(mode, "LawOK IdxLawOK"), workers=1 if quick else 2, timeout=3000,
                    label="ExprSyntaxIdx_MC Mode=%s (integer or key, any length)" % mode)
            require_clean(run, r, "ExprSyntaxIdx_MC Mode=%s" % mode)
            out["idx_b3_states"] = r.distinct
        rej = []
        for mode in ("wrap", "sat"):
            r = tlc("ExprSyntaxIdx_MC", icfg(mode, "IdxLawOK"), workers=1, timeout=3000,
                    label="ExprSyntaxIdx_MC Mode=%s (negative control)" % mode)
            if "IdxLawOK" not in r.violated:
                raise Inconclusive("negative control %s does not violate IdxFaithful (violated=%s)\n%s" % (mode, r.violated, r.out[-2000:]))
            rej.append("index parser '%s' violates IdxFaithful" % mode)
        # evaluation: schedules for the replay (lookup grain) ...
        r = tlc("ExprSyntaxEval_Gen", ecfg("GInit", "GNext", "", "lookup", "EvalLawsOK Dump"), workers=1, timeout=3000,
                label="ExprSyntaxEval_Gen (every lookup-grain schedule)")
        require_clean(run, r, "ExprSyntaxEval_Gen")
        ns = 0
        with open(sched_path, "w") as f:
            for v in vfj_lines(r.out):
                f.write(json.dumps(v, separators=(",", ":")) + "\n")
                ns += 1
        if ns < 300:
            raise Inconclusive("schedule generator produced only %d schedules" % ns)
        run.drv(["evalsched", "-in", sched_path, "-out", sres_path])
        run.drv(["evaltrace", "-out", etrace, "-n", 250 if quick else 1500])
        # ... every interleaving of single steps
        r = tlc("ExprSyntaxEval_MC", ecfg("Init", "Next", "", "fine", "EvalLawsOK Terminates"), workers=1 if quick else 2, timeout=3000,
                label="ExprSyntaxEval_MC (every interleaving of single steps)")
        require_clean(run, r, "ExprSyntaxEval_MC Shared={}")
        out["eval_b3_states"] = r.distinct
        # ... and the designs with a stage-owned accumulator are rejected: two workers without any funcs-file function, one worker
        # with a function applied to itself
        for shared, case in (("cat", 1), ("cat", 3), ("seq", 9), ("seq", 10)):
            r = tlc("ExprSyntaxEval_MC", ecfg("Init", "Next", '"%s"' % shared, "fine", "CompilesOK EvalOK", case=case), workers=1,
                    timeout=3000, label="ExprSyntaxEval_MC Shared={%s} case %d (negative control)" % (shared, case))
            if "EvalOK" not in r.violated:
                raise Inconclusive("negative control Shared={%s} case %d does not violate EvalOK (violated=%s)\n%s" % (
                    shared, case, r.violated, r.out[-2000:]))
            rej.append("accumulator of '%s' stages owned by the stage violates EvalOK (pool case %d)" % (shared, case))
        out["rejected"] = rej
        # B2: the free-running goroutines
        lines = open(etrace).read().splitlines()
        canaries = []
        for ln in lines[:120]:
            rec = json.loads(ln)
            if rec["outs"] and not rec["panic"]:
                rec["outs"][-1]["out"] = rec["outs"][-1]["out"] + [33]
                rec["canary"] = True
                canaries.append(json.dumps(rec, separators=(",", ":")))
            if len(canaries) >= 20:
                break
        allp = os.path.join(run.scratch, "c09-evaltrace-all.ndjson")
        with open(allp, "w") as f:
            f.write("\n".join(lines + canaries) + "\n")
        r = tlc("ExprSyntaxEval_Trace", "SPECIFICATION TSpec\nCONSTANTS Shared = {}\nGrain = \"fine\"\nCaseSel = 0\nINVARIANTS Final\n"
                "CHECK_DEADLOCK FALSE\n", files=[("trace.ndjson", allp)], workers=1, timeout=3000, xmx="3g", label="ExprSyntaxEval_Trace")
        if r.violated or r.errors:
            raise Inconclusive("trace validation ExprSyntaxEval_Trace failed to run: %s %s\n%s" % (r.violated, r.errors[:3], r.out[-3000:]))
        bad = r.json_out("bad.json")
        if bad is None:
            raise Inconclusive("ExprSyntaxEval_Trace wrote no result\n%s" % r.out[-3000:])
        out["etrace"] = (lines + canaries, len(canaries), bad)
        return out

    if quick:
        _, ((nreal, canary, chunks, results), (hn, hcanary, hchunks, hresults)), nhist, ie = parallel([gen, b2_both, hist, idx_eval], 4)
    else:
        _, _, nhist, ((nreal, canary, chunks, results), (hn, hcanary, hchunks, hresults)), ie = parallel(
            [b3_thorough, gen, hist, b2_both, idx_eval], 5)

    # ---- evaluation layer verdicts
    run.cov["idx_b3_states"] = ie["idx_b3_states"]
    run.cov["eval_b3_states"] = ie["eval_b3_states"]
    run.cov["idx_eval_negative_controls"] = ie["rejected"]
    sres = json.load(open(sres_path))
    run.cov["b1_eval_schedules"] = sres["schedules"]
    run.cov["b1_eval_evaluations"] = sres["evaluations"]
    run.cov["traces_validated_against_impl"] += sres["evaluations"]
    run.cov["evaluations"] += sres["evaluations"]
    run.cov["distinct_nontrivial"] += sres["schedules"]
    for sm in (sres["samples"] or [])[:1]:
        run.sample({"b1_eval": sm})
    seen_sig = {}
    for m in sres["mismatches"] or []:
        if m["class"] == "compile":
            raise Inconclusive("evaluation replay could not compile a pool case: %s" % json.dumps(m)[:1000])
        sig = "b1e:%s:%s" % (m["class"], "workers" if m["workers"] > 1 else "nested")
        seen_sig[sig] = seen_sig.get(sig, 0) + 1
        if seen_sig[sig] > 4:
            continue
        run.violation(sig, "funcs file [%s], template %r compiled once (optimise=%s), %d worker(s) interleaved at their context lookups as "
                      "%s%s: worker %d returns %r%s; ExprSyntaxEval.tla (EvalOK) expects %r whatever the interleaving and nesting" % (
                          "; ".join(m["defs"] or []), m["text"], m["opt"], m["workers"], m["sched"],
                          " (evaluated alone after schedule %s)" % m["after_schedule"] if m.get("after_schedule") else "",
                          m["worker"], m["got"], " PANIC " + m["panic"] if m["panic"] else "", m["expect"]), m)
    elines, ecan, ebad = ie["etrace"]
    if ebad["consumed"] != len(elines) or not ebad["done"]:
        raise Inconclusive("evaluation trace: consumed %d of %d records" % (ebad["consumed"], len(elines)))
    erej = ne = 0
    for b in ebad["bad"]:
        rec = json.loads(elines[b["l"] - 1])
        if rec.get("canary"):
            erej += 1
            continue
        if b["class"] == "harness-compile":
            raise Inconclusive("evaluation trace record rejected for a reason that is not the evaluator's: %s" % json.dumps(rec)[:1500])
        ne += 1
        if ne > 4:
            continue
        run.violation("b2e:%s" % b["class"],
                      "funcs file [%s], template %r compiled once and evaluated by 4 free-running goroutines: observed (worker, output) pairs "
                      "%s%s are rejected by ExprSyntaxEval_Trace (%s): every evaluation must return the denotation of the tree in its own context" % (
                          "; ".join(_txt(d[0]) + " " + _txt(d[1]) for d in rec["defs"]), _txt(rec["text"]),
                          [(o["w"], _txt(o["out"])) for o in rec["outs"][:6]], " PANIC " + rec["pmsg"] if rec["panic"] else "", b["class"]), rec)
    if erej != ecan:
        raise Inconclusive("evaluation trace validation rejected only %d of %d deliberately corrupted records" % (erej, ecan))
    run.cov["b2_eval_templates"] = len(elines) - ecan
    run.cov["b2_eval_corrupted_rejected"] = "%d of %d" % (erej, ecan)
    run.cov["traces_validated_against_impl"] += len(elines) - ecan
    run.cov["evaluations"] += (len(elines) - ecan) * 160
    run.cov["distinct_nontrivial"] += ebad["nontrivial"] - ecan

    # ---- B1 verdicts (the main case space, then white space / written integers)
    run.cov["b1_vectors"] = run.cov["b1_compilations"] = 0
    run.cov["b1_per_group"] = {}
    for rp in (res_path, wres_path):
        res = json.load(open(rp))
        run.cov["b1_vectors"] += res["vectors"]
        run.cov["b1_compilations"] += res["runs"]
        run.cov["b1_per_group"].update(res["per_group"])
        run.cov["traces_validated_against_impl"] += res["runs"]
        run.cov["evaluations"] += res["runs"]
        run.cov["distinct_nontrivial"] += res["distinct_nontrivial"]
        for s_ in (res["samples"] or [])[:3]:
            run.sample({"b1": s_})
        for m in res["mismatches"] or []:
            if m["kind"] == "err":
                exp = "the error classes %s (at most %s)" % (m["lo"], m["hi"])
            elif m["kind"] == "any":
                exp = "a result"
            else:
                exp = "no error and the rendering %r" % m["expect"]
            run.violation("b1:%s:%s" % (m["kind"], m["class"]),
                          "template %r (group %s, optimise=%s) gives %r errors=%s%s; ExprSyntax.tla expects %s" % (
                              m["text"], m["g"], m["opt"], m["got"], m["errs"], " PANIC " + m["panic"] if m["panic"] else "", exp), m)

    # ---- B1 verdicts, history layer
    hres = json.load(open(hres_path))
    if hres["histories"] != nhist:
        raise Inconclusive("replayed %d of %d histories" % (hres["histories"], nhist))
    run.cov["b1_histories"] = hres["histories"]
    run.cov["b1_history_compilations"] = hres["compilations"]
    run.cov["b1_history_registrations"] = hres["registrations"]
    run.cov["b1_history_reevaluations"] = hres["reevaluations"]
    run.cov["b1_histories_meeting_a_text_again_or_after_a_registration"] = hres["histories_with_repeats"]
    run.cov["traces_validated_against_impl"] += hres["compilations"]
    run.cov["evaluations"] += hres["compilations"] + hres["reevaluations"]
    run.cov["distinct_nontrivial"] += hres["distinct_nontrivial"]
    for sm in (hres["samples"] or [])[:1]:
        run.sample({"b1_history": sm})
    for m in hres["mismatches"] or []:
        if m["class"] == "reeval":
            what = ("the template %r compiled at step %d evaluates to %r after step %d; ExprSyntaxHist.tla (EvalStable) expects %r as at "
                    "compile time" % (m["text"], m["compiled_at_step"], m["got"], m["reevaluated_after_step"], m["expect"]))
        elif m["kind"] == "err":
            what = ("step %d Compile(%r) reports errors=%s counts=%s%s; ExprSyntaxHist.tla expects the error classes %s (at most %s), at "
                    "least %s errors, whatever was compiled before" % (m["step"], m["text"], m["errs"], m["errn"],
                                                                      " PANIC " + m["panic"] if m["panic"] else "", m["lo"], m["hi"], m["lon"]))
        else:
            what = ("step %d Compile(%r) gives %r errors=%s%s; ExprSyntaxHist.tla expects no error and the rendering %r, whatever was "
                    "compiled before" % (m["step"], m["text"], m["got"], m["errs"], " PANIC " + m["panic"] if m["panic"] else "", m["expect"]))
        run.violation("b1h:%s:%s" % (m["kind"], m["class"]),
                      "history on one key builder (optimise=%s, first evaluation %s) %s: %s" % (
                          m["opt"], "at the end of the history" if m.get("deferred") else "at once", " ; ".join(m["history"]), what), m)

    run.cov["cli_runs"] = 0
    run.cov["cli_kinds"], run.cov["cli_groups"] = {}, {}
    for cp, least in ((cli_path, 100), (wcli_path, 50)):
        cli = json.load(open(cp))
        run.cov["cli_runs"] += cli["runs"]
        for k, v in cli["kinds"].items():
            run.cov["cli_kinds"][k] = run.cov["cli_kinds"].get(k, 0) + v
        run.cov["cli_groups"].update(cli["groups"])
        run.cov["traces_validated_against_impl"] += cli["runs"]
        if cli["runs"] < least:
            raise Inconclusive("only %d command line runs" % cli["runs"])
        for s_ in (cli["samples"] or [])[:2]:
            run.sample({"cli": s_})
        for m in cli["mismatches"] or []:
            run.violation("cli:%s:%s" % (m["kind"], m["class"]),
                          "`rare expression` on %r prints %r (stderr %r); expected %s" % (
                              m["text"], m["stdout"], m["stderr"][:300],
                              ("a compile error mentioning %s" % m["lo"]) if m["kind"] == "err" else repr(m["want"])), m)

    # ---- B2 verdicts
    consumed = nontrivial = canary_rejected = 0
    for (i, p, part), (r, _) in zip(chunks, results):
        if r["consumed"] != len(part) or not r["done"]:
            raise Inconclusive("trace chunk %d: consumed %d of %d records" % (i, r["consumed"], len(part)))
        consumed += r["consumed"]
        nontrivial += r["nontrivial"]
        for bad in r["bad"]:
            rec = json.loads(part[bad["l"] - 1])
            if rec.get("canary"):
                canary_rejected += 1
                continue
            if bad["class"] in ("harness-wf", "harness-print", "model"):
                raise Inconclusive("trace record rejected for a reason that is not the compiler's (%s): %s" % (
                    bad["class"], json.dumps(rec)[:1500]))
            run.violation("b2:%s:%s" % (rec["kind"], bad["class"]),
                          "recorded compilation of %r: optimised -> %r errors=%s, unoptimised -> %r errors=%s%s%s is rejected by "
                          "ExprSyntax.tla (%s)" % (_txt(rec["text"]), _txt(rec["out"]), rec["errs"], _txt(rec["out2"]), rec["errs2"],
                                                   " PANIC " + rec.get("pmsg", "") if rec["panic"] else "",
                                                   "; evaluated by 3 goroutines at once -> (worker, output) %s" % [
                                                       (o["w"], _txt(o["out"])) for o in rec.get("conc", [])[:6]] if bad["class"] == "conc" else "",
                                                   bad["class"]), rec)
    if canary_rejected != canary:
        raise Inconclusive("trace validation rejected only %d of %d deliberately corrupted records" % (canary_rejected, canary))
    run.cov["b2_corrupted_records_rejected"] = "%d of %d" % (canary_rejected, canary)
    run.cov["b2_records"] = consumed - canary
    run.cov["b2_records_inside_domain"] = nontrivial - canary
    run.cov["traces_validated_against_impl"] += 2 * nreal
    run.cov["evaluations"] += 2 * nreal
    run.cov["distinct_nontrivial"] += nontrivial - canary
    with open(trace) as f:
        for _ in range(2):
            rec = json.loads(next(f))
            run.sample({"b2": {"kind": rec["kind"], "text": _txt(rec["text"]), "out": _txt(rec["out"]), "errs": rec["errs"]}})
    if (nontrivial - canary) * 2 < nreal:
        raise Inconclusive("only %d of %d recorded compilations are inside the documented domain" % (nontrivial - canary, nreal))
    # ---- B2 verdicts, history layer
    hconsumed = hcompiles = hrej = 0
    for (i, p, part), (r, _) in zip(hchunks, hresults):
        if r["consumed"] != len(part) or not r["done"]:
            raise Inconclusive("history trace chunk %d: consumed %d of %d records" % (i, r["consumed"], len(part)))
        hconsumed += r["consumed"]
        hcompiles += r["nontrivial"]
        for bad in r["bad"]:
            rec = json.loads(part[bad["l"] - 1])
            if rec.get("canary"):
                hrej += 1
                continue
            if bad["class"] in ("harness-wf", "harness-print", "harness-end", "model"):
                raise Inconclusive("history trace record rejected for a reason that is not the compiler's (%s): %s" % (
                    bad["class"], json.dumps(rec)[:1500]))
            # the history up to the rejected record
            j = bad["l"] - 1
            while j > 0 and json.loads(part[j])["op"] != "new":
                j -= 1
            hist_txt = []
            for ln in part[j:bad["l"]]:
                x = json.loads(ln)
                if x["op"] == "func":
                    hist_txt.append("Func(%r, version %d)" % (_txt(x["name"]), x["ver"]))
                elif x["op"] == "compile":
                    hist_txt.append("Compile(%r)" % _txt(x["text"]))
            if rec["op"] == "compile":
                what = "the last call: optimised -> %r errors=%s counts=%s, unoptimised -> %r errors=%s counts=%s%s" % (
                    _txt(rec["out"]), rec["errs"], rec["errn"], _txt(rec["out2"]), rec["errs2"], rec["errn2"],
                    " PANIC " + rec.get("pmsg", "") if rec["panic"] else "")
            else:
                what = "re-evaluation of the compiled templates at the end gives %s / %s / first evaluation at the end %s%s" % (
                    [_txt(o) for o in rec["re"]], [_txt(o) for o in rec["re2"]], [_txt(o) for o in rec["re3"]],
                    " PANIC " + rec.get("pmsg", "") if rec["panic"] else "")
            run.violation("b2h:%s:%s" % (rec["op"], bad["class"]),
                          "recorded history on one key builder %s: %s is rejected by ExprSyntaxHist_Trace (%s)" % (
                              " ; ".join(hist_txt), what, bad["class"]),
                          {"history": [json.loads(ln) for ln in part[j:bad["l"]]], "class": bad["class"]})
    if hrej != hcanary and not any(v[0].startswith("b2h:") for v in run.violations):
        # (with real rejections around, a corrupted copy may be explained differently; without them every copy has to be rejected)
        raise Inconclusive("history trace validation rejected only %d of %d deliberately corrupted histories" % (hrej, hcanary))
    run.cov["b2_history_corrupted_rejected"] = "%d of %d" % (hrej, hcanary)
    run.cov["b2_histories"] = hn
    run.cov["b2_history_records"] = hconsumed
    hcompiles -= hcanary_compiles
    run.cov["b2_history_compilations"] = hcompiles
    run.cov["traces_validated_against_impl"] += 3 * hcompiles
    run.cov["evaluations"] += 3 * hcompiles
    run.cov["distinct_nontrivial"] += hn
    run.cov["rule"] = ("B3: every case of every group of ExprSyntaxCases (law per kind); B1: every case compiled twice (optimising / not), "
                       "non-trivial = distinct template text whose kind demands a rendering or error classes (not 'any'); "
                       "B2: one record per random template (compiled twice), non-trivial = kind 'tree' (inside the documented domain); "
                       "history layer: B3 every history of <= 3 operations of every pool (+ random walks of 7), B1 non-trivial = distinct "
                       "history with >= 2 different templates or a text met again / compiled after a registration, B2 one per random history")

"""C03 - final aggregates equal the reference aggregation, independent of parallelism."""
import json
import os
import random
from vf import Inconclusive, parallel, require_clean, validate_traces, trace_slice, vfj_lines, b2s

CLAIM = {
    "text": "Rare.tla specifies one run of an aggregating command (match/ignore/extract -> NUL-joined element -> "
            "Sample of the command's aggregator -> CSV records, summary counts, exit status/message) as a sequential "
            "reference fold; Rare_MC.tla models the concurrent pipeline (R readers cutting batches incl. timer flush, "
            "bounded channels, W workers, one aggregation step) and TLC shows over ALL interleavings that the final "
            "aggregate and counters equal the reference fold for every order-free command (histogram, table/heatmap/"
            "spark, bargraph, analyze, reduce with sum/count/max) for any R/W/B/capacity, and for an order-sensitive "
            "accumulator when R=W=1 (with R or W = 2 TLC finds the counter-example, so the check is not vacuous); "
            "CsvDec.tla is an RFC 4180 decoder for which TLC checks Decode(Encode(r)) = r for all small record sets and "
            "three quoting styles. The REAL rare binary is then run on TLC's exhaustive small family of corpora and on "
            "seeded large corpora (keys with commas, quotes, spaces, UTF-8, leading '='), as plain/gzip files and stdin, "
            "re-divided among 1..5 files in permuted order, under --workers/--batch/--batch-buffer/--readers/"
            "GOMAXPROCS matrices; TLC decodes every CSV export and requires records = CSV of the reference aggregate, "
            "exit status/message = ExitState, summary-line counts = model counts, analyze statistics = model order "
            "statistics, and identical snapshot text for all runs of a corpus.",
    "note": "Bounded: B3 corpora of 5-6 lines, R,W,B<=2, channel capacity<=2; small family = all sequences of <=3(4) "
            "lines over an 8-line pool x 13 command descriptors; large corpora are seeded samples. Match/extract/ignore "
            "expressions are a fixed family (3-field split, {n} extraction, {eq} ignore, sumi/maxi accumulators). "
            "Trusted: Go regexp, gzip, the expression VM on this family, TLC. analyze is compared on the integer domain; "
            "its StdDev only across runs (+-2e-4). The batcher status footer is masked.",
    "technique": "TLA+ model checking of the pipeline (TLC, all interleavings) + TLC-generated corpora replayed on the "
                 "real binary + trace validation of CLI runs (CSV decoded by TLC)",
}

MC_INVS = "FinalAgg FinalCounts SeqOrder NoInvention"


def mc_cfg(r, w, b, cap, corpus, cmd, live=True):
    return ("SPECIFICATION Spec\nCONSTANTS R = %d\n W = %d\n B = %d\n Cap = %d\n CorpusIx = %d\n CmdIx = %d\n"
            "INVARIANTS %s\n%sCHECK_DEADLOCK FALSE\n" % (r, w, b, cap, corpus, cmd, MC_INVS,
                                                        "PROPERTIES Terminates\n" if live else ""))


CSV_CFG = "INIT CInit\nNEXT CNext\nCONSTANTS Mode = \"%s\"\n MaxF = %d\nINVARIANTS %s\nCHECK_DEADLOCK FALSE\n"


def check(run):
    quick = run.tier == "quick"
    rare = run.build_cli()
    run.build_harness()
    run.assumptions += [
        "expression family: -m '^([^|]*)\\|([^|]*)\\|([^|]*)$', -e '{n}', -i '{eq {n} word}', reduce accumulators "
        "sumi/maxi/{3}; keys are NUL-, CR-, LF- and '|'-free valid UTF-8",
        "snapshot comparison masks the last line (batcher status: bytes read, rate, active files)",
        "analyze: integer samples (|v| <= 10^4); mean within 1e-4; quantile index floor(n*p), either neighbour "
        "when n*p is integral; StdDev compared across runs only",
        "spark is run with at most as many columns as its --cols default (no trimming of old columns)",
        "all counts stay below 2^31 (TLC integers)",
        "CR LF corpora: the line handed to the matcher is the text before CR LF (scanner contract, C04); the spec "
        "aggregates the lines without their terminators",
    ]
    # ------------------------------------------------------------------ B3: interleavings
    jobs = []
    order_free = (1, 2, 3, 4, 5, 6)
    if quick:
        cfgs = [(2, 2, 2, 1, 1, 2), (2, 2, 2, 1, 1, 6), (2, 2, 1, 1, 2, 3), (2, 2, 1, 1, 2, 4), (2, 2, 2, 2, 2, 5),
                (1, 2, 2, 2, 1, 1), (2, 1, 2, 2, 2, 6), (1, 1, 2, 1, 1, 7)]
    else:
        cfgs = [(r, w, b, cap, co, c) for c in order_free for (r, w, b, cap, co) in
                ((2, 2, 2, 1, 1), (2, 2, 2, 2, 1), (2, 2, 1, 2, 2), (1, 2, 2, 2, 1), (2, 1, 1, 1, 2))]
        cfgs += [(1, 1, b, cap, co, 7) for b in (1, 2) for cap in (1, 2) for co in (1, 2)]
    for (r, w, b, cap, co, c) in cfgs:
        jobs.append(lambda r=r, w=w, b=b, cap=cap, co=co, c=c: (
            (r, w, b, cap, co, c),
            run.tlc("Rare_MC", mc_cfg(r, w, b, cap, co, c), workers=2, timeout=1500, coverage=(c == 2),
                    label="Rare_MC R=%d W=%d B=%d Cap=%d corpus=%d cmd=%d" % (r, w, b, cap, co, c))))
    # negative control: an order-sensitive accumulator with two workers must NOT satisfy FinalAgg
    jobs.append(lambda: ("neg", run.tlc("Rare_MC", mc_cfg(1, 2, 1, 2, 1, 7, live=False), workers=2, timeout=1500,
                                        label="Rare_MC negative control (last, W=2)")))
    # CSV decoder laws
    jobs.append(lambda: ("csv", run.tlc("RareCsv_MC", CSV_CFG % ("roundtrip", 2, "RoundTrip"), workers=2, timeout=1500,
                                        label="CsvDec round trip")))
    jobs.append(lambda: ("csv", run.tlc("RareCsv_MC", CSV_CFG % ("bytes", 6 if quick else 8, "Canonical QuoteParity"),
                                        workers=2, timeout=1500, label="CsvDec all byte strings")))
    # B1 generator runs concurrently with B3
    maxlen = 3 if quick else 4
    gen_cfg = "INIT GInit\nNEXT GNext\nCONSTANTS MaxLen = %d\nINVARIANTS Dump\nCHECK_DEADLOCK FALSE\n" % maxlen
    jobs.append(lambda: ("gen", run.tlc("Rare_Gen", gen_cfg, workers=2, timeout=2400, label="Rare_Gen MaxLen=%d" % maxlen)))
    gen = None
    for tag, r in parallel(jobs, 5):
        if tag == "neg":
            if "FinalAgg" not in r.violated:
                raise Inconclusive("negative control: Rare_MC did not find the order-dependent interleaving")
            continue
        if tag == "gen":
            gen = r
            continue
        require_clean(run, r, "Rare_MC/CsvDec %s" % (tag,))
        if tag != "csv" and tag[5] == 2:
            zero = [a for a, (n, _) in r.coverage.items() if n == 0 and a.split(".")[1] in
                    ("Open", "CloseFile", "Cut", "Take", "Process", "Aggregate")]
            if zero:
                raise Inconclusive("vacuous model: actions never taken: %s" % zero)
    if gen.violated or gen.errors:
        raise Inconclusive("generator failed: %s" % gen.out[-2000:])
    descs = vfj_lines(gen.out)
    if len(descs) < 1000:
        raise Inconclusive("generator produced only %d descriptors" % len(descs))
    # ------------------------------------------------------------------ B1 + B2: real binary
    rnd = random.Random(run.seed)
    nsmall = 150 if quick else 2500
    if len(descs) > nsmall:
        # every command descriptor stays represented: stratified seeded sample
        by = {}
        for d in descs:
            by.setdefault((d["cmd"], tuple(d["ext"]), d["ig"], tuple(d["acc"]), d["grp"]), []).append(d)
        per = max(1, nsmall // len(by))
        pickd = []
        for k in sorted(by):
            # the exit-status classes stay represented: some "no data" and some "parse error" corpora per stratum
            nodata = [d for d in by[k] if d["expect"]["code"] == 1]
            perr = [d for d in by[k] if d["expect"]["msg"] == "parse"]
            rest = [d for d in by[k] if d["expect"]["code"] == 0]
            pickd += rnd.sample(nodata, min(2, len(nodata))) + rnd.sample(perr, min(2, len(perr)))
            pickd += rnd.sample(rest, min(max(1, per - 4), len(rest)))
        descs = pickd
    dpath = os.path.join(run.scratch, "c03-desc.ndjson")
    big = os.path.join(run.scratch, "c03-big.ndjson")
    run.drv(["gen", "-out", big, "-geom", 3 if quick else 24, "-n", 11 if quick else 44, "-min", 800 if quick else 2000,
             "-max", 5000 if quick else 100000])
    with open(dpath, "w") as f:
        for d in descs:
            f.write(json.dumps(d, separators=(",", ":")) + "\n")
        f.write(open(big).read())
    tr = os.path.join(run.scratch, "c03-trace.ndjson")
    res_path = os.path.join(run.scratch, "c03-result.json")
    run.drv(["run", "-rare", rare, "-in", dpath, "-out", tr, "-res", res_path,
             "-variants", 2 if quick else 4, "-variants-big", 4 if quick else 8,
             "-variants-geom", 6 if quick else 10, "-par", 6], timeout=3000)
    res = json.load(open(res_path))
    run.cov["traces_validated_against_impl"] += res["runs"]
    run.cov["evaluations"] += res["runs"] + res["b1_compared"]
    run.cov["b1_compared"] = res["b1_compared"]
    run.cov["cli_runs"] = res["runs"]
    run.cov["corpora"] = res["groups"]
    for s in res["samples"]:
        run.sample({"cli_run": s})
    for m in res["b1_mismatches"]:
        cls = m["why"].split(":")[0]
        run.violation("b1:%s:%s" % (m["cmd"], cls),
                      "rare %s: %s (TLC-enumerated corpus %d)" % (" ".join(m["argv"][:14]), m["why"], m["t"]), m)
    vres, r = validate_traces(run, "Rare_Trace", tr, xmx="8g", timeout=3000)
    run.cov["b2_events"] = vres["consumed"]
    nontrivial = 0
    lines = open(tr).read().splitlines()
    for ln in lines:
        if ln.startswith('{"event":"run"') or '"event":"run"' in ln[:40]:
            nontrivial += 1
    run.cov["distinct_nontrivial"] += res["groups"]
    if vres["consumed"] != len(lines):
        raise Inconclusive("trace not consumed: %d of %d" % (vres["consumed"], len(lines)))
    for bad in vres["bad"]:
        ev = json.loads(lines[bad["l"] - 1])
        why = bad["why"]
        if why in ("spec-selfcheck", "harness-layout"):
            raise Inconclusive("trace %d line %d: %s" % (bad["t"], bad["l"], why))
        sl = trace_slice(tr, bad["t"]).splitlines()
        reset = json.loads(sl[0])
        # keep the replay small: the reset line + the rejected run
        path = run.save_replay("trace-%d-%d.ndjson" % (bad["t"], bad["l"]), sl[0][:200000] + "\n" + lines[bad["l"] - 1] + "\n")
        out = bytes(ev["stdout"][:400]).decode("utf8", "replace")
        run.violation("b2:%s:%s" % (reset["cmd"], why),
                      "rare %s (GOMAXPROCS=%s) exit=%s msg=%s is not a behaviour of Rare.tla: %s; stdout starts %r" % (
                          " ".join(a if len(a) < 60 else a[:57] + "..." for a in ev["argv"]), ev.get("gomaxprocs"),
                          ev["exit"], ev["msg"], why, out[:300]), path)
    run.cov["rule"] = ("B3: every interleaving of Rare_MC within the listed constants; B1/B2: one corpus descriptor = one "
                       "(line sequence, command descriptor) pair, each executed under several layouts/tunings in csv and "
                       "snapshot mode; distinct_nontrivial counts corpus descriptors")

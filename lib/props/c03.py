"""C03 - final aggregates equal the reference aggregation, independent of parallelism."""
import json
import os
import random
import sys
import time
from vf import Inconclusive, parallel, require_clean, validate_traces, trace_slice, vfj_lines, b2s

CLAIM = {
    "text": "Rare.tla specifies one run of an aggregating command (match - regex, named regex or dissect - / ignore / extract "
            "atoms {n} {line} {src} {.} {#} {.#} -> element joined with NUL or with the --delim text -> Sample of the command's "
            "aggregator, which takes the element apart on the WHOLE delimiter -> CSV records, summary counts, exit status/message) "
            "as a sequential reference fold over the sources of the run in reading order (a layout; a command without {line}/{src} "
            "has the same reference for every layout - law LayoutFree). Rare_MC.tla models the concurrent pipeline (R readers "
            "cutting batches incl. timer flush, bounded channels, W workers, one aggregation step) and TLC shows over ALL "
            "interleavings that the final aggregate and counters equal the reference fold for every order-free command for any "
            "R/W/B/capacity, and for an order-sensitive accumulator when R=W=1 (with W=2 TLC finds the counter-example). "
            "RareWorker_MC.tla adds the state that outlives a line (line counter of a source, matcher instance of a worker, memo of "
            "a worker's context): the designs of the code hold, a matcher shared by the workers, a memo keyed by the line number "
            "alone and a counter advancing by the batch size are each refuted. RareScreen_MC.tla models the aggregation loop with "
            "its ticker and the accessors behind renders and exports: for ANY pacing of input and ticks the last render and the "
            "export show the reference aggregate and the counts of the whole input; a 'render only if updated' flag set outside "
            "the mutex and an accessor cache dropped only for new keys are refuted. RareText_MC.tla: dissect captures = Dissect.tla, "
            "the splitter cursor refines the split on the whole delimiter (advancing one byte is refuted), the CSV of table/"
            "heatmap/spark is the same for NUL, ';', '::', ' - ' and U+2192. CsvDec.tla is an RFC 4180 decoder with "
            "Decode(Encode(r)) = r for all small record sets. The REAL rare binary is then run on TLC's family of small corpora x "
            "32 command descriptors and on seeded families (large corpora with awkward keys; fixed-width lines ending on the read "
            "buffer ends; dissect corpora executed several times with all workers busy - a sample of OS schedules; stdin fed in "
            "bursts separated by pauses longer than the render tick and the batch auto-flush interval), as plain/gzip files and "
            "stdin, re-divided among files in permuted order, several sources through one worker, under --workers/--batch/"
            "--batch-buffer/--readers/GOMAXPROCS matrices; TLC decodes every CSV export and requires records = CSV of the "
            "reference aggregate of the run's layout, exit status/message = ExitState, summary-line counts = model counts, "
            "analyze statistics = model order statistics, and identical snapshot text for all runs of a corpus and layout.",
    "note": "Bounded: B3 corpora of 3-6 lines, R,W<=2(3), B<=2(3), channel capacity<=2, <=3(4) ticks; small family = sequences of "
            "<=3(4) lines over an 8-line pool x 32 command descriptors (quick: one residue class mod 4, chosen by the seed); large "
            "corpora, schedules and pacings are seeded samples - a schedule- or timing-dependent fault is found only when one of "
            "the sampled executions exhibits it. Match/extract/ignore expressions are a fixed family (3-field split by regex / "
            "named regex / dissect, the atoms above, {eq} ignore, sumi/maxi accumulators). Trusted: Go regexp, gzip, the "
            "expression VM on this family, TLC. analyze is compared on the integer domain; its StdDev only across runs (+-2e-4). "
            "The batcher status footer is masked.",
    "technique": "TLA+ model checking of the pipeline, the worker state and the render loop (TLC, all interleavings, refuted "
                 "negative controls) + TLC-generated corpora replayed on the real binary + trace validation of CLI runs "
                 "(CSV decoded by TLC, expectation per layout)",
}

MC_INVS = "FinalAgg FinalCounts SeqOrder NoInvention"



def mc_cfg(r, w, b, cap, corpus, cmd, live=True):
    return ("SPECIFICATION Spec\nCONSTANTS R = %d\n W = %d\n B = %d\n Cap = %d\n CorpusIx = %d\n CmdIx = %d\n"
            "INVARIANTS %s\n%sCHECK_DEADLOCK FALSE\n" % (r, w, b, cap, corpus, cmd, MC_INVS,
                                                        "PROPERTIES Terminates\n" if live else ""))


CSV_CFG = "INIT CInit\nNEXT CNext\nCONSTANTS Mode = \"%s\"\n MaxF = %d\nINVARIANTS %s\nCHECK_DEADLOCK FALSE\n"


def check(run):
    quick = run.tier == "quick"
    t0 = time.time()

    def stage(name):
        if os.environ.get("C03_TIMING"):
            print("c03 stage %-12s at %.1fs" % (name, time.time() - t0), file=sys.stderr)
    if os.environ.get("C03_TIMING"):
        orig_tlc = run.tlc

        def timed_tlc(*a, **k):
            t1 = time.time()
            r_ = orig_tlc(*a, **k)
            print("c03 tlc %-60s %5.1fs (started at %.1fs)" % (k.get("label", a[0])[:60], time.time() - t1, t1 - t0), file=sys.stderr)
            return r_
        run.tlc = timed_tlc
    rare = run.build_cli()
    run.build_harness()
    run.assumptions += [
        "expression family: -m '^([^|]*)\\|([^|]*)\\|([^|]*)$' (also with groups named k s v) or -d '%{k}|%{s}|%{v}', "
        "-e atoms {n}/{name} {line} {src} {.} {#} {.#}, --delim ';' '::' ' - ' U+2192 with one -e joining the atoms, "
        "-i '{eq {n} word}', reduce accumulators sumi/maxi/{3}; keys are NUL-, CR-, LF- and '|'-free valid UTF-8",
        "{src} is the file argument as given (the runs use names relative to their working directory) or <stdin>; a command "
        "using {line}/{src} is compared with the reference aggregate of the layout of each run, its snapshot text only "
        "between runs of equal layout; analyze with {line}/{src} is outside the domain",
        "pacing of stdin (bursts, pauses of 230-480 ms) and repeated executions only select schedules: the expectation never "
        "depends on them",
        "snapshot comparison masks the last line (batcher status: bytes read, rate, active files)",
        "analyze: integer samples (|v| <= 10^4); mean within 1e-4; quantile index floor(n*p), either neighbour "
        "when n*p is integral; StdDev compared across runs only",
        "spark is run with at most as many columns as its --cols default (no trimming of old columns)",
        "all counts stay below 2^31 (TLC integers)",
        "CR LF corpora: the line handed to the matcher is the text before CR LF (scanner contract, C04); the spec "
        "aggregates the lines without their terminators",
    ]
    # ------------------------------------------------------------------ B1 + B2 machinery: real binary
    def family(name, dpath):
        """runs the descriptors of dpath on the real binary under their variants, validates every run with Rare_Trace"""
        tr = os.path.join(run.scratch, "c03-trace-%s.ndjson" % name)
        res_path = os.path.join(run.scratch, "c03-result-%s.json" % name)
        run.drv(["run", "-rare", rare, "-in", dpath, "-out", tr, "-res", res_path, "-work", os.path.join(run.scratch, "c03-work-" + name),
                 "-variants", 2 if quick else 4, "-variants-big", 4 if quick else 8,
                 "-variants-geom", 6 if quick else 10, "-par", 8], timeout=3000)
        stage(name + "-runs")
        vres = validate_split(tr, name, 1 if quick else 8)
        stage(name + "-trace")
        return {"name": name, "tr": tr, "res": json.load(open(res_path)), "vres": vres}

    def validate_split(tr, name, k):
        """Rare_Trace is a sequential machine per reset group: large traces are cut at reset records into k parts of about
        equal size that are validated side by side; the results are merged (line numbers refer to the whole trace)"""
        if k <= 1:
            return validate_traces(run, "Rare_Trace", tr, xmx="8g", timeout=3000, label="Rare_Trace (%s family)" % name)[0]
        lines = open(tr).read().splitlines(True)
        starts = [i for i, ln in enumerate(lines) if '"event":"reset"' in ln[:400]]
        total = sum(len(ln) for ln in lines)
        cuts, acc, goal = [0], 0, total / k
        for a, b in zip(starts, starts[1:] + [len(lines)]):
            acc += sum(len(ln) for ln in lines[a:b])
            if acc >= goal * len(cuts) and b < len(lines) and len(cuts) < k:
                cuts.append(b)
        cuts.append(len(lines))
        parts = []
        for j in range(len(cuts) - 1):
            pth = "%s.part%d" % (tr, j)
            with open(pth, "w") as f:
                f.writelines(lines[cuts[j]:cuts[j + 1]])
            parts.append((cuts[j], pth))
        outs = parallel([lambda off=off, pth=pth, j=j: (off, validate_traces(
            run, "Rare_Trace", pth, xmx="6g", timeout=3000, label="Rare_Trace (%s family, part %d)" % (name, j))[0])
            for j, (off, pth) in enumerate(parts)], 6)
        merged = {"bad": [], "consumed": 0, "done": True}
        for off, v in outs:
            merged["consumed"] += v["consumed"]
            merged["bad"] += [dict(b, l=b["l"] + off) for b in v["bad"]]
        return merged

    def seeded_family():
        big = os.path.join(run.scratch, "c03-big.ndjson")
        run.drv(["gen", "-out", big, "-geom", 3 if quick else 24, "-n", 12 if quick else 28, "-min", 800 if quick else 2000,
                 "-max", 5000 if quick else 40000, "-sched", 2 if quick else 4, "-sched-runs", 4 if quick else 8,
                 "-paced", 9 if quick else 36, "-paced-runs", 3 if quick else 6])
        return family("seeded", big)

    def report(fam):
        res, vres, tr = fam["res"], fam["vres"], fam["tr"]
        run.cov["traces_validated_against_impl"] += res["runs"]
        run.cov["evaluations"] += res["runs"] + res["b1_compared"]
        run.cov["b1_compared"] = run.cov.get("b1_compared", 0) + res["b1_compared"]
        run.cov["cli_runs"] = run.cov.get("cli_runs", 0) + res["runs"]
        run.cov["corpora"] = run.cov.get("corpora", 0) + res["groups"]
        for s_ in res["samples"][:2]:
            run.sample({"cli_run": s_})
        for m in res["b1_mismatches"]:
            cls = m["why"].split(":")[0]
            run.violation("b1:%s:%s" % (m["cmd"], cls),
                          "rare %s: %s (TLC-enumerated corpus %d)" % (" ".join(m["argv"][:14]), m["why"], m["t"]), m)
        run.cov["b2_events"] = run.cov.get("b2_events", 0) + vres["consumed"]
        lines = open(tr).read().splitlines()
        run.cov["distinct_nontrivial"] += res["groups"]
        if vres["consumed"] != len(lines):
            raise Inconclusive("trace not consumed: %d of %d" % (vres["consumed"], len(lines)))
        for bad in vres["bad"]:
            ev = json.loads(lines[bad["l"] - 1])
            why = bad["why"]
            if why in ("spec-selfcheck", "harness-layout"):
                raise Inconclusive("trace %d line %d: %s" % (bad["t"], bad["l"], why))
            sl = trace_slice(tr, bad["t"]).splitlines()
            reset = json.loads(sl[0])
            # keep the replay small: the reset line + the rejected run
            path = run.save_replay("trace-%s-%d-%d.ndjson" % (fam["name"], bad["t"], bad["l"]),
                                   sl[0][:200000] + "\n" + lines[bad["l"] - 1] + "\n")
            out = bytes(ev["stdout"][:400]).decode("utf8", "replace")
            pace = (" stdin paced %s" % ev["pace"]) if ev.get("pace") else ""
            run.violation("b2:%s:%s" % (reset["cmd"], why),
                          "rare %s (GOMAXPROCS=%s%s) exit=%s msg=%s is not a behaviour of Rare.tla: %s; stdout starts %r" % (
                              " ".join(a if len(a) < 60 else a[:57] + "..." for a in ev["argv"]), ev.get("gomaxprocs"), pace,
                              ev["exit"], ev["msg"], why, out[:300]), path)

    # ------------------------------------------------------------------ B3: interleavings
    jobs = []
    order_free = (1, 2, 3, 4, 5, 6)
    if quick:
        cfgs = [(2, 2, 2, 1, 1, 2), (2, 2, 2, 1, 1, 6), (2, 2, 1, 1, 2, 3), (2, 2, 1, 1, 2, 4), (2, 2, 2, 2, 2, 5),
                (1, 2, 2, 2, 1, 1), (2, 1, 2, 2, 2, 6), (1, 1, 2, 1, 1, 7)]
    else:
        cfgs = [(r, w, b, cap, co, c) for c in order_free for (r, w, b, cap, co) in
                ((2, 2, 2, 1, 1), (2, 2, 2, 2, 1), (2, 2, 1, 2, 2), (1, 2, 2, 2, 1), (2, 1, 1, 1, 2))]
        cfgs += [(1, 1, b, cap, co, 7) for b in (1, 2) for cap in (1, 2) for co in (1, 2)]
    for (r, w, b, cap, co, c) in cfgs:
        jobs.append(lambda r=r, w=w, b=b, cap=cap, co=co, c=c: (
            (r, w, b, cap, co, c),
            run.tlc("Rare_MC", mc_cfg(r, w, b, cap, co, c), workers=2, timeout=1500, coverage=(c == 2),
                    label="Rare_MC R=%d W=%d B=%d Cap=%d corpus=%d cmd=%d" % (r, w, b, cap, co, c))))
    # negative control: an order-sensitive accumulator with two workers must NOT satisfy FinalAgg
    jobs.append(lambda: ("neg", run.tlc("Rare_MC", mc_cfg(1, 2, 1, 2, 1, 7, live=False), workers=2, timeout=1500,
                                        label="Rare_MC negative control (last, W=2)")))
    # CSV decoder laws
    jobs.append(lambda: ("csv", run.tlc("RareCsv_MC", CSV_CFG % ("roundtrip", 2, "RoundTrip"), workers=2, timeout=1500,
                                        label="CsvDec round trip")))
    jobs.append(lambda: ("csv", run.tlc("RareCsv_MC", CSV_CFG % ("bytes", 6 if quick else 8, "Canonical QuoteParity"),
                                        workers=2, timeout=1500, label="CsvDec all byte strings")))
    # ---- one run per module over a SET of scenarios: the designs of the code and admissible alternatives must hold,
    # the seeded designs (negative controls) must be refuted: TLC -continue reports their Refuted_* invariants.
    scen = "ScQuick" if quick else "ScThorough"
    merged = [
        # what a worker owns: line counters of the sources, matcher instance, context memo
        ("RareWorker_MC", "SPECIFICATION Spec\nCONSTANTS Scenarios <- %s\nINVARIANTS FinalAgg FinalCounts StartsExact %%s\n"
                          "PROPERTIES Terminates\nCHECK_DEADLOCK FALSE\n" % scen,
         ["Refuted_shared", "Refuted_memoline", "Refuted_numbering"]),
        # what is on the screen / in the export when the run ends, for any pacing of input and ticks
        ("RareScreen_MC", "SPECIFICATION Spec\nCONSTANTS Scenarios <- %s\nINVARIANTS FinalScreen FinalCsv ScreenSound AggSound %%s\n"
                          "PROPERTIES Terminates\nCHECK_DEADLOCK FALSE\n" % scen,
         ["Refuted_flag", "Refuted_flagquiet", "Refuted_cachekeys_screen", "Refuted_cachekeys_csv"]),
        # text-level laws: dissect captures, splitter cursor, --delim invariance, layout independence
        ("RareText_MC", "INIT CInit\nNEXT CNext\nCONSTANTS MaxN = %d\nINVARIANTS DissectAgree SplitterRefines OneByteBlind "
                        "DelimInvariant LayoutFree %%s\nCHECK_DEADLOCK FALSE\n" % (5 if quick else 7),
         ["Refuted_adv1", "Refuted_layoutblind"]),
    ]
    for mod, cfg, negs in merged:
        jobs.append(lambda mod=mod, cfg=cfg, negs=negs: (
            ("merged", mod, negs), run.tlc(mod, cfg % " ".join(negs), workers=1 if quick else 3, timeout=3000, extra=("-continue",),
                                          label="%s (scenario set, negative controls %s)" % (mod, ",".join(negs)))))
    # B1 generator runs concurrently with B3 (the longest job: first)
    maxlen = 3 if quick else 4
    # a residue class (chosen by the seed) of the family: quick 1 of 4, thorough 1 of 2 - a sample of it is executed anyway
    stride = 4 if quick else 2
    gen_cfg = ("INIT GInit\nNEXT GNext\nCONSTANTS MaxLen = %d\n Stride = %d\n Pick = %d\nINVARIANTS Dump\nCHECK_DEADLOCK FALSE\n"
               % (maxlen, stride, run.seed % stride))
    jobs.insert(0, lambda: ("gen", run.tlc("Rare_Gen", gen_cfg, workers=2, timeout=2400, label="Rare_Gen MaxLen=%d" % maxlen)))
    # the seeded families (large / read-buffer geometry / schedule samples / paced stdin) do not depend on the
    # generator: they are executed and validated while the model checks run
    jobs.insert(1, lambda: ("seeded", seeded_family()))
    gen = None
    fam_seeded = []
    for tag, r in parallel(jobs, 5):
        if tag == "seeded":
            fam_seeded.append(r)
            continue
        if tag == "neg":
            if "FinalAgg" not in r.violated:
                raise Inconclusive("negative control: Rare_MC did not find the order-dependent interleaving")
            continue
        if isinstance(tag, tuple) and tag[0] == "merged":
            got = set(r.violated)
            errs = [e for e in r.errors if "is violated" not in e and "behavior up to this point" not in e]
            if got != set(tag[2]) or errs or not r.finished:
                raise Inconclusive("%s: expected exactly the negative controls %s to be refuted, TLC reports violated=%s errors=%s\n%s" % (
                    tag[1], sorted(tag[2]), sorted(got), errs[:3], r.out[-2000:]))
            continue
        if tag == "gen":
            gen = r
            continue
        require_clean(run, r, "Rare_MC/CsvDec %s" % (tag,))
        if tag != "csv" and tag[5] == 2:
            zero = [a for a, (n, _) in r.coverage.items() if n == 0 and a.split(".")[1] in
                    ("Open", "CloseFile", "Cut", "Take", "Process", "Aggregate")]
            if zero:
                raise Inconclusive("vacuous model: actions never taken: %s" % zero)
    stage("b3-done")
    if gen.violated or gen.errors:
        raise Inconclusive("generator failed: %s" % gen.out[-2000:])
    descs = vfj_lines(gen.out)
    if len(descs) < 1000:
        raise Inconclusive("generator produced only %d descriptors" % len(descs))
    # ------------------------------------------------------------------ B1 + B2: real binary
    rnd = random.Random(run.seed)
    nsmall = 200 if quick else 4000
    if len(descs) > nsmall:
        # every command descriptor stays represented: stratified seeded sample
        by = {}
        for d in descs:
            by.setdefault((d["cmd"], d["mt"], tuple(d["ext"]), tuple(d["delim"]), d["ig"], tuple(d["acc"]), d["grp"]), []).append(d)
        per = max(1, nsmall // len(by))
        pickd = []
        for k in sorted(by):
            # the exit-status classes stay represented: some "no data" and some "parse error" corpora per stratum
            nodata = [d for d in by[k] if d["expect"]["code"] == 1]
            perr = [d for d in by[k] if d["expect"]["msg"] == "parse"]
            rest = [d for d in by[k] if d["expect"]["code"] == 0]
            pickd += rnd.sample(nodata, min(2, len(nodata))) + rnd.sample(perr, min(2, len(perr)))
            pickd += rnd.sample(rest, min(max(1, per - 4), len(rest)))
        descs = pickd
    dpath = os.path.join(run.scratch, "c03-desc.ndjson")
    with open(dpath, "w") as f:
        for d in descs:
            f.write(json.dumps(d, separators=(",", ":")) + "\n")
    fam_small = family("small", dpath)
    stage("small-done")
    for fam in (fam_small, fam_seeded[0]):
        report(fam)
    run.cov["rule"] = ("B3: every interleaving of Rare_MC within the listed constants; B1/B2: one corpus descriptor = one "
                       "(line sequence, command descriptor) pair, each executed under several layouts/tunings in csv and "
                       "snapshot mode; distinct_nontrivial counts corpus descriptors")

"""C02 - each match carries its true source, line number, text and capture groups."""
import json
import os
import re
import threading
import time
from vf import Inconclusive, parallel, require_clean, validate_traces, trace_slice, vfj_lines, b2s

CLAIM = {
    "text": "Four specification layers, each decided by TLC and bound to the real code. (a) PipelineC02 (on top of the C01 pipeline model): the three flush paths of the batcher (full / flush timer / final) are told apart; TLC checks over all interleavings of small corpora (timer cuts enabled, 1-2 readers/workers) that batchStart advances by len(batch) on every flush, every in-flight and received match carries its true (source, line number), and one reader + one worker deliver in input order; a batcher that skips the advance on the timer (or full) path is refuted. (b) MatchLife composes the C04 memory model of the read-ahead scanner (numbered buffers, tokens as views) with the dissect int pool (slabs, handles) and a worker that matches any number of scan steps later; no step writes under a view or a handed-out index slice and every held match keeps showing the true k-th line; in-place buffer compaction and a recycled pool are refuted. (c) Captures: GetMatch/GetKey/{@} written like sliceSpaceExpressionContext.go are checked equal to the property-level reading (absent, out-of-range, negative groups read as empty; names read like their numbers) for all lines <= 2 (quick) / 4 (thorough) bytes over {a, b, NUL} and all index vectors with <= 2 groups after group 0; CapturesRegex gives the leftmost-first match of a small regular-expression subset as a TLA+ function. (d) Colorize: WrapIndices written like the code; StripAnsi(WrapIndices(s,g)) = s and coloured spans = accepted groups for all s over a 3-letter alphabet with |s| <= 5 and all index vectors. Binding: TLC-generated (line, indices, name table, template) vectors are replayed on the real extractor through a scripted matcher (real SliceSpaceExpressionContext / KeyBuilder) and generated (s, groups) on the real color.WrapIndices; seeded real pipeline runs (files, FIFOs, scripted stdin with the hook-shortened and the real 250 ms flush timer, lines longer than the 128 KiB buffer, regex with optional/nested/alternated/named groups, (?i), POSIX, dissect, default matcher) feed a LATE consumer that keeps every Match until the channel is drained (>= 10^4 further lines, dissect pool refilled every 1024 results, read buffer regrown) and then re-reads Line/Indices; TLC validates every record (true text of the claimed source/line, reference indices, captures derived by the spec, unchanged late reading, input order for one reader + one worker, BatchStart of every batch) and the rows of the real `rare [--color] filter [-l] [-e]` binary.",
    "note": "Leftmost-match semantics of regular expressions is modelled only for a small subset (CapturesRegex.tla: classes, concatenation, alternation, greedy ? * +, groups), used for four of the six regex profiles on lines <= 64 bytes; elsewhere ((?i), POSIX, long lines) the reference indices come from Go's standard regexp called directly on a copy of the line (trusted base); for dissect and the default matcher TLC computes the reference itself (Dissect.tla). Exhaustive only within the stated bounds; beyond them seeded random runs. The JSON specials {.} {#} belong to C16. Lines containing ESC are outside the colour-strip clause. The colour palette is not constrained (only which byte ranges are decorated).",
    "technique": "TLA+ model checking (TLC) of implementation-shaped models with negative controls + model-vector replay + trace validation",
}

_start = threading.Lock()
_cv = threading.Condition()
_used = [0]
MAX_TLC_WORKERS = 8      # the machine is shared: never more than 8 TLC workers of this check at a time


class _Permits:
    def __init__(self, n):
        self.n = n

    def __enter__(self):
        with _cv:
            while _used[0] + self.n > MAX_TLC_WORKERS:
                _cv.wait()
            _used[0] += self.n

    def __exit__(self, *a):
        with _cv:
            _used[0] -= self.n
            _cv.notify_all()


def tlc(run, *a, workers=1, **kw):
    with _Permits(workers):
        with _start:
            time.sleep(0.05)
        return run.tlc(*a, workers=workers, **kw)


ALL_PATHS = '{"full", "timer", "final"}'
PINVS = "TypeOK NoPanic LineNoOK StartOK ReceivedOK OrderOK FinalC FinalOK"


def pipe_cfg(k, advance=ALL_PATHS, invs=PINVS, props="AdvanceOK SameAsPipeline"):
    c, b, w, r, cap, rc, tf = k
    s = ("INIT InitC\nNEXT NextC\nCONSTANTS\n Corpus = %d\n Lines <- MCLines\n Batch = %d\n Workers = %d\n Readers = %d\n"
         " BufCap = %d\n ReadCap = %d\n TimeFlush = %s\n AdvanceOn = %s\nINVARIANTS %s\nVIEW ViewC\n" % (
             c, b, w, r, cap, rc, "TRUE" if tf else "FALSE", advance, invs))
    if props:
        s += "PROPERTIES %s\n" % props
    return s


# (corpus, batch, workers, readers, bufcap, readcap, timeflush)
PIPE_QUICK = [
    (4, 3, 1, 1, 1, 1, True),     # stdin shape: one source of 5 lines, timer cuts, one worker: order
    (7, 3, 2, 1, 2, 2, True),     # everything matches, two workers
    (1, 2, 2, 2, 1, 1, True),     # 2 x 2 lines, two readers, two workers, timer cuts
    (8, 2, 1, 1, 1, 5, False),    # three files through ONE reader and ONE worker: order across files
    (5, 1, 2, 2, 2, 2, False),    # three files (one empty), batch 1
]
PIPE_MORE = [
    (2, 2, 2, 2, 1, 1, True),     # 3 + 2 lines, two readers, two workers, timer cuts (~144k states)
    (3, 2, 2, 2, 1, 1, True), (4, 2, 2, 1, 2, 2, True), (1, 2, 2, 2, 1, 1, True), (8, 2, 2, 2, 1, 1, False),
    (7, 2, 1, 1, 1, 1, True), (3, 3, 1, 1, 1, 2, True), (2, 1, 2, 2, 2, 1, False), (4, 1, 1, 1, 1, 1, True),
]
PIPE_CONTROLS = [   # (config, AdvanceOn, must be violated)
    ((4, 3, 1, 1, 1, 1, True), '{"full", "final"}', "timer path"),
    ((7, 3, 2, 1, 2, 2, True), '{"full", "final"}', "timer path, two workers"),
    ((4, 2, 1, 1, 1, 1, False), '{"timer", "final"}', "full path"),
]


def life_cfg(maxlen, buf, slab, bufpol="fresh", poolpol="fresh", invs=None, props=None, stall=0):
    invs = invs if invs is not None else "Bounds PrefixOK Lifetime LineLifetime IdxLifetime TrueText CapturesStable PoolDisjoint MatchOrder"
    props = props if props is not None else "NoWriteUnderView NoWriteUnderIndices AllTaken"
    s = ("SPECIFICATION MSpec\nCONSTANTS Alphabet = {97, 98, 10}\n MaxLen = %d\n BufSize = %d\n MaxStall = %d\n SlabRes = %d\n"
         " BufPolicy = \"%s\"\n PoolPolicy = \"%s\"\nINVARIANTS %s\nCHECK_DEADLOCK FALSE\n" % (maxlen, buf, stall, slab, bufpol, poolpol, invs))
    if props:
        s += "PROPERTIES %s\n" % props
    return s


def law_cfg(consts, invs):
    return "INIT Init\nNEXT Next\nCHECK_DEADLOCK FALSE\nCONSTANTS %s\nINVARIANTS %s\n" % (consts, invs)


CAP_LAWS = "GetMatchLaw TotalLaw ArrayLaw KeyLaw EvalLaw AlwaysLaw LineNoLaw"


def crash_verdict(run, p, what, current=None):
    err = p.stderr or ""
    m = re.search(r"^(panic: .*|fatal error: .*)$", err, re.M)
    cur = ""
    if current and os.path.exists(current):
        cur = open(current).read().strip()
    if m and re.search(r"rare/(pkg|cmd)/", err):
        first = m.group(1)
        sig = "crash:" + re.sub(r"[^a-z]+", "-", first.lower())[:50].strip("-")
        run.violation(sig, "%s: the real code crashed: %s (%s)" % (what, first, cur), {"stderr": err[-6000:], "scenario": cur})
        return
    raise Inconclusive("driver %s failed (%d): %s" % (what, p.returncode, err[-3000:]))


CANARY = {900001: "late-indices", 900002: "lineno", 900003: "batchstart", 900004: "wrap-strip"}


def canaries(tr, wr):
    """Corrupted copies of recorded runs that the trace specification MUST reject (self-test of the binding):
    a late index read that differs, a line number off by one, a BatchStart that did not advance, a colourised
    text with one byte missing."""
    out, cur, small = [], [], None

    def usable(lines):
        if not (8 < len(lines) < 400):
            return False
        recs = [json.loads(x) for x in lines]
        fs = [r["f"] for r in recs if r["event"] == "batch"]
        return sum(1 for r in recs if r["event"] == "m") >= 3 and len(fs) > len(set(fs))   # a source with >= 2 batches

    with open(tr) as f:
        for line in f:
            if line.startswith('{"ast"'):
                if cur and usable(cur):
                    small = cur
                    break
                cur = []
            cur.append(line)
    if small is None:
        raise Inconclusive("no small recorded run to build the canaries from")
    for t, why in CANARY.items():
        if why == "wrap-strip":
            continue
        recs = [json.loads(x) for x in small]
        recs[0]["t"] = t
        ms = [r for r in recs if r["event"] == "m"]
        bs = [r for r in recs if r["event"] == "batch"]
        if why == "late-indices":
            ms[1]["idx"][-1] += 1
        elif why == "lineno":
            ms[1]["no"] += 1
            ms[1]["truth"] = ms[1]["truth"] + [33]
            ms[1]["tf"], ms[1]["tn"] = ms[1]["f"], ms[1]["no"] - 1
        elif why == "batchstart":       # the second batch of some source repeats the BatchStart of its first
            first = {}
            for b in bs:
                if b["f"] in first:
                    b["start"] = first[b["f"]]
                    break
                first[b["f"]] = b["start"]
        out += [json.dumps(r, separators=(",", ":")) + "\n" for r in recs]
    with open(wr) as f:
        for line in f:
            r = json.loads(line)
            if len(r["got"]) > len(r["s"]) + 8 and len(r["s"]) > 3 and 27 not in r["s"]:
                k = r["got"].index(27)
                plain = [i for i in range(len(r["got"])) if i < k]
                if plain:
                    del r["got"][plain[0]]
                    r["t"] = 900004
                    out.append(json.dumps(r, separators=(",", ":")) + "\n")
                    break
    return out


def check(run):
    try:
        _check(run)
    except Inconclusive:
        raise
    except Exception as e:
        import traceback
        raise Inconclusive("check failed: %s\n%s" % (e, traceback.format_exc()))


def _check(run):
    quick = run.tier == "quick"
    run.assumptions += [
        "regex leftmost-match semantics: for four expressions of the subset modelled in CapturesRegex.tla (classes, concatenation, alternation, ? * +, groups; lines <= 64 bytes) TLC computes the leftmost-first match itself and cross-checks Go's regexp; for the other expressions ((?i), POSIX leftmost-longest, long lines, the big runs of the quick tier) the reference indices are those of Go's standard regexp (Compile / CompilePOSIX) called directly on a copy of the line - trusted base; dissect and default-matcher references are always computed by TLC",
        "B3 bounds: pipeline corpora of <= 3 files / <= 5 lines; scanner streams <= 5 (6) bytes over {a, b, LF} with buffers of 2-3 bytes and pool slabs of 1-2 results; capture laws for lines <= 2 (4) bytes and <= 2 groups after group 0; colour laws for |s| <= 5 over a 3-letter alphabet (one letter is 'm'), <= 2 (3) pairs",
        "name tables of distinct, non-special names (a group called src/line/@ is shadowed by the special key); JSON specials are C16's",
        "index vectors handed to GetMatch / WrapIndices are well formed (what a matcher returns): even length, pairs absent or inside the line",
        "lines containing ESC are outside the colour-strip clause (never generated); the palette is free",
        "line identity in the late-consumer traces is by position (source, number); every generated line carries its position in its text, so a wrong source or number shows as a wrong text",
    ]
    run.build_harness()
    rare = run.build_cli()
    sc = run.scratch

    # ------------------------------------------------------------------ B3
    def b3_pipe():
        cfgs = PIPE_QUICK if quick else PIPE_QUICK + PIPE_MORE
        jobs = [lambda k=k, i=i: (k, tlc(run, "PipelineC02", pipe_cfg(k), workers=2, timeout=2400, coverage=(i == 0),
                                         label="PipelineC02 corpus=%d B=%d W=%d R=%d cap=%d rcap=%d tf=%s" % k))
                for i, k in enumerate(cfgs)]
        for k, adv, what in PIPE_CONTROLS:
            jobs.append(lambda k=k, adv=adv, what=what: ((k, adv, what), tlc(
                run, "PipelineC02", pipe_cfg(k, adv, "LineNoOK ReceivedOK", None), workers=1, timeout=600,
                label="PipelineC02 control: no advance on the %s" % what)))
        for k, r in parallel(jobs, 3):
            if len(k) == 3:     # negative control
                if not (set(r.violated) & {"LineNoOK", "ReceivedOK"}):
                    raise Inconclusive("negative control not refuted (batchStart not advanced on the %s): %s" % (k[2], r.out[-1500:]))
            else:
                require_clean(run, r, "PipelineC02 %s" % (k,))
                if r.coverage:
                    zero = [a for a in ("PipelineC02.ReaderSendC", "PipelineC02.ConsumerC", "Pipeline.ReaderScan", "Pipeline.WorkerClassify")
                            if r.coverage.get(a, (1, 1))[0] == 0]
                    if zero:
                        raise Inconclusive("vacuous PipelineC02 model: %s" % zero)
        run.cov["b3_pipeline_configs"] = len(cfgs)
        run.cov["b3_negative_controls"] = run.cov.get("b3_negative_controls", 0) + len(PIPE_CONTROLS)

    def b3_life():
        ml = 5 if quick else 6
        jobs = []
        for buf, slab in (((2, 1), (3, 2)) if quick else ((2, 1), (2, 2), (3, 1), (3, 2), (4, 2))):
            if True:
                jobs.append(lambda buf=buf, slab=slab: ("ok", tlc(run, "MatchLife", life_cfg(ml, buf, slab, stall=0 if quick else 1), workers=2, timeout=2400,
                                                                  coverage=(buf == 2 and slab == 1),
                                                                  label="MatchLife MaxLen=%d BufSize=%d SlabRes=%d" % (ml, buf, slab))))
        jobs.append(lambda: ("LineLifetime", tlc(run, "MatchLife", life_cfg(5, 2, 2, bufpol="shift", invs="LineLifetime", props=""), workers=1, timeout=600,
                                                 label="MatchLife control: buffer compacted in place")))
        jobs.append(lambda: ("NoWriteUnderView", tlc(run, "MatchLife", life_cfg(5, 2, 2, bufpol="shift", invs="Bounds", props="NoWriteUnderView"), workers=1, timeout=600,
                                                     label="MatchLife control: buffer compacted in place (write under a view)")))
        jobs.append(lambda: ("IdxLifetime", tlc(run, "MatchLife", life_cfg(5, 2, 1, poolpol="recycle", invs="IdxLifetime", props=""), workers=1, timeout=600,
                                                label="MatchLife control: pool recycled")))
        for want, r in parallel(jobs, 3):
            if want == "ok":
                require_clean(run, r, "MatchLife")
                if r.coverage:
                    zero = [a for a in ("ScanStep", "MatchStep") if r.coverage.get("MatchLife." + a, (1, 1))[0] == 0]
                    if zero:
                        raise Inconclusive("vacuous MatchLife model: %s" % zero)
            elif want not in r.violated:
                raise Inconclusive("negative control not refuted (%s): %s" % (want, r.out[-1500:]))
        run.cov["b3_negative_controls"] = run.cov.get("b3_negative_controls", 0) + 3

    def b3_laws():
        jobs = [
            lambda: tlc(run, "Captures_MC", law_cfg("Alphabet = %s\n MaxLen = %d\n MaxGroups = 2" % (("{97, 98, 0}", 2) if quick else ("{97, 98, 0}", 4)), CAP_LAWS),
                        workers=3 if quick else 8, timeout=2400, label="Captures_MC laws"),
            lambda: tlc(run, "Colorize_MC", law_cfg("Alphabet = {97, 98, 109}\n MaxLen = 5\n MaxPairs = 2", "StripLaw SpansLaw OddLaw PrefixLaw"),
                        workers=3, timeout=2400, label="Colorize_MC |s|<=5, <=2 pairs: strip/spans"),
            lambda: tlc(run, "Colorize_MC", law_cfg("Alphabet = {97, 98, 109}\n MaxLen = %d\n MaxPairs = 2" % (3 if quick else 5), "AcceptedLaw FilterLaw"),
                        workers=2 if quick else 8, timeout=2400, label="Colorize_MC accepted/filter"),
            lambda: tlc(run, "Colorize_MC", law_cfg("Alphabet = {97, 98, 109}\n MaxLen = %d\n MaxPairs = 3" % (2 if quick else 4), "StripLaw SpansLaw AcceptedLaw"),
                        workers=2 if quick else 8, timeout=3000, label="Colorize_MC 3 pairs"),
        ]
        for r in parallel(jobs, 4):
            require_clean(run, r, "laws")

    # ------------------------------------------------------------------ B1
    cap_vec = os.path.join(sc, "c02-capvec.ndjson")
    wrap_vec = os.path.join(sc, "c02-wrapvec.ndjson")

    def b1_gen():
        jobs = [
            lambda: tlc(run, "Captures_Gen", law_cfg("Alphabet = {97, 98}\n MaxLen = %d\n MaxGroups = 2" % (3 if quick else 4), "Dump"),
                        workers=2, timeout=1200, label="Captures_Gen"),
            lambda: tlc(run, "Colorize_Gen", law_cfg("Alphabet = {97, 109}\n MaxLen = %d\n MaxPairs = 2" % (3 if quick else 4), "Dump"),
                        workers=2, timeout=1200, label="Colorize_Gen"),
        ]
        rc, rw = parallel(jobs, 2)
        for r, path in ((rc, cap_vec), (rw, wrap_vec)):
            if r.violated or r.errors:
                raise Inconclusive("generator failed: %s" % r.out[-2000:])
            n = 0
            with open(path, "w") as f:
                for v in vfj_lines(r.out):
                    f.write(json.dumps(v, separators=(",", ":")) + "\n")
                    n += 1
            if n < 1000:
                raise Inconclusive("generator produced only %d vectors" % n)

    def b1_replay():
        out = os.path.join(sc, "c02-replay.json")
        p = run.drv(["replay", "-in", cap_vec, "-out", out], check=False)
        if p.returncode != 0:
            crash_verdict(run, p, "B1 capture vectors")
        else:
            res = json.load(open(out))
            run.cov["traces_validated_against_impl"] += res["runs"]
            run.cov["evaluations"] += res["runs"]
            run.cov["distinct_nontrivial"] += res["distinct_nontrivial"]
            run.cov["b1_capture_vectors"] = res["runs"]
            for s in res["samples"] or []:
                run.sample({"b1_capture_vector": s})
            for m in res["mismatches"] or []:
                v = m["vector"]
                run.violation("b1:captures:%s" % m["kind"],
                              "line %s, indices %s, names %s, template #%d, source %s, number %d: the real extractor gave %s, the specification %s" % (
                                  b2s(v["line"]), v["idx"], [(b2s(n[0]), n[1]) for n in v["names"]], v["setup"], b2s(v["src"]), v["no"],
                                  b2s(m["got"]) if isinstance(m["got"], list) else m["got"], b2s(v["want"])), m)
        out = os.path.join(sc, "c02-wrapreplay.json")
        p = run.drv(["wrapreplay", "-in", wrap_vec, "-out", out], check=False)
        if p.returncode != 0:
            crash_verdict(run, p, "B1 colour vectors")
            return
        res = json.load(open(out))
        run.cov["traces_validated_against_impl"] += res["runs"]
        run.cov["evaluations"] += res["runs"]
        run.cov["distinct_nontrivial"] += res["distinct_nontrivial"]
        run.cov["b1_colour_vectors"] = res["runs"]
        for s in (res["samples"] or [])[:1]:
            run.sample({"b1_colour_vector": {"s": b2s(s["s"]), "g": s["g"], "spans": s["spans"]}})
        for m in res["mismatches"] or []:
            v = m["vector"]
            run.violation("b1:wrap:%s" % m["kind"],
                          "color.WrapIndices(%s, %s) = %s; the specification colours the spans %s and nothing else" % (
                              b2s(v["s"]), v["g"], b2s(m["got"]), v["spans"]), m)

    # ------------------------------------------------------------------ B2
    both = os.path.join(sc, "c02-all.ndjson")
    b2st = {}

    def b2_run():
        d = os.path.join(sc, "trace-in")
        os.makedirs(d)
        tr = os.path.join(sc, "c02-trace.ndjson")
        cur = os.path.join(d, "current.txt")
        p = run.drv(["trace", "-out", tr, "-result", os.path.join(sc, "trace-result.json"), "-dir", d,
                     "-n", 90 if quick else 900, "-big", 2 if quick else 7, "-biglines", 12500 if quick else 30000,
                     "-long", 2 if quick else 8, "-slow", 1 if quick else 8, "-astmax", 3000 if quick else 40000], check=False, timeout=3000)
        if p.returncode != 0:
            crash_verdict(run, p, "B2 late-consumer scenarios", cur)
            return
        cl = os.path.join(sc, "c02-cli.ndjson")
        p = run.drv(["cli", "-rare", rare, "-out", cl, "-result", os.path.join(sc, "cli-result.json"), "-dir", d,
                     "-n", 30 if quick else 300], check=False, timeout=3000)
        if p.returncode != 0:
            crash_verdict(run, p, "B2 cli")
            return
        wr = os.path.join(sc, "c02-wrap.ndjson")
        p = run.drv(["wrap", "-out", wr, "-n", 1500 if quick else 20000], check=False)
        if p.returncode != 0:
            crash_verdict(run, p, "B2 colouriser")
            return
        with open(both, "w") as f:
            for path in (tr, cl, wr):
                f.write(open(path).read())
            for line in canaries(tr, wr):
                f.write(line)
        b2st["st"] = json.load(open(os.path.join(sc, "trace-result.json")))
        b2st["cst"] = json.load(open(os.path.join(sc, "cli-result.json")))

    def b2_validate():
        if not b2st:
            return
        st, cst = b2st["st"], b2st["cst"]
        if st["hung"]:      # termination is C01's property; without a complete run nothing can be said about C02
            raise Inconclusive("pipeline scenarios %s did not terminate (twice)" % st["hung"])
        with _Permits(1):
            res, r = validate_traces(run, "Captures_Trace", both, invariants=("Final",), xmx="10g")
        heads, nwrap = {}, 0
        with open(both) as f:
            for line in f:      # Go writes the keys sorted: headers (reset, cli) start with "ast", the rest with "event"
                if line.startswith('{"ast"'):
                    rec = json.loads(line)
                    heads[rec["t"]] = rec
                elif line.startswith('{"event":"wrap"'):
                    nwrap += 1
        if not res["done"]:
            raise Inconclusive("last trace incomplete")
        got = {b["t"]: b["why"] for b in res["bad"] if b["t"] in CANARY}
        if got != CANARY:
            raise Inconclusive("binding self-test failed: corrupted records were classified %s, expected %s" % (got, CANARY))
        res["bad"] = [b for b in res["bad"] if b["t"] not in CANARY]
        run.cov["b2_corrupted_canaries_rejected"] = len(CANARY)
        ntr = len([t for t in heads if t not in CANARY]) + nwrap - 1      # without the canaries
        run.cov["traces_validated_against_impl"] += ntr
        run.cov["evaluations"] += st["matches"] + cst["rows"] + nwrap
        run.cov["distinct_nontrivial"] += st["multi_worker"] + st["scenarios_with_timer_cut"] + cst["runs"]
        run.cov["b2_records"] = res["consumed"]
        run.cov["b2_pipeline_runs"] = st["scenarios"]
        run.cov["b2_lines"] = st["lines"]
        run.cov["b2_matches_read_late"] = st["matches"]
        run.cov["b2_matches_held_over_10k_further_lines"] = st["matches_held_over_10k_lines"]
        run.cov["b2_timer_forced_batches"] = st["timer_cuts"]
        run.cov["b2_lines_longer_than_read_buffer"] = st["long_lines"]
        run.cov["b2_modes"] = st["modes"]
        run.cov["b2_matcher_kinds"] = st["kinds"]
        run.cov["b2_ordered_runs"] = st["ordered"]
        run.cov["b2_cli_runs"] = cst["runs"]
        run.cov["b2_cli_modes"] = cst["modes"]
        run.cov["b2_wrap_calls"] = nwrap
        if st["timer_cuts"] == 0 or st["modes"].get("hook", 0) == 0:
            raise Inconclusive("the timer-flush path was not exercised")
        if st["matches_held_over_10k_lines"] < 1024 or st["kinds"].get("dissect", 0) == 0:
            raise Inconclusive("the late consumer did not outlive a pool refill / 10^4 lines")
        if st["long_lines"] == 0:
            raise Inconclusive("no line longer than the read buffer")
        if cst["runs"] < (20 if quick else 200):
            raise Inconclusive("too few CLI runs completed (%d, %d hung)" % (cst["runs"], cst["hung"]))
        for s in (st["samples"] or [])[:2]:
            run.sample({"b2_scenario": s})
        for s in (cst["samples"] or [])[:1]:
            run.sample({"b2_cli": s})
        lines = None
        if any(b["why"] == "reference-regex" for b in res["bad"]):
            raise Inconclusive("CapturesRegex.tla and Go's regexp disagree on the leftmost match (specification problem): %s" % res["bad"][:3])
        for bad in res["bad"]:
            if lines is None:
                lines = open(both).read().splitlines()
            ev = lines[bad["l"] - 1]
            try:
                rec = json.loads(ev)
            except Exception:
                rec = {"event": "?"}
            why = bad["why"]
            if rec["event"] == "wrap":
                run.violation("b2:wrap:%s" % why, "color.WrapIndices(%s, %s) = %s: %s" % (
                    b2s(rec["s"]), rec["g"], b2s(rec["got"]),
                    "colour codes removed is not the input" if why == "wrap-strip" else "decorated spans are not the accepted groups"), rec)
                continue
            if rec["event"] == "cli":
                path = run.save_replay("cli-%d.json" % rec["t"], rec)
                run.violation("b2:cli:%s:%s" % (rec["mode"], why),
                              "`rare %s` over %d file(s): stdout rows are not what the specification derives (%s); first rows %s" % (
                                  " ".join(rec["argv"]), len(rec["files"]), why, [b2s(x)[:80] for x in rec["out"][:3]]), path)
                continue
            h = heads.get(bad["t"], {})
            sl = trace_slice(both, bad["t"])
            path = run.save_replay("trace-%d.ndjson" % bad["t"], sl[:3000000])
            desc = "run %d (%s, %s matcher %s, batch %s workers %s readers %s)" % (
                bad["t"], h.get("mode"), h.get("kind"), h.get("expr"), h.get("batch"), h.get("workers"), h.get("readers"))
            if rec["event"] == "m":
                txt = {"src": "a match names a source it did not come from",
                       "lineno": "a match carries a wrong line number",
                       "text": "Match.Line is not the text of the line",
                       "unmatched": "a match was emitted for a line the matcher does not match",
                       "indices": "Match.Indices are not the leftmost match's indices",
                       "captures": "the extracted captures are not what the indices select",
                       "late-line": "Match.Line changed while the consumer held the match",
                       "late-indices": "Match.Indices changed while the consumer held the match",
                       "order": "matches arrived out of input order with one reader and one worker"}.get(why, why)
                run.violation("b2:pipe:%s:%s" % (h.get("kind"), why),
                              "%s: %s: source #%s line %s: line0=%s truth=%s idx0=%s late idx=%s ref=%s extracted=%s" % (
                                  desc, txt, rec["f"], rec["no"], b2s(rec["line0"])[:80], b2s(rec["truth"])[:80], rec["idx0"], rec["idx"],
                                  rec["ref"], b2s(rec["ex"])[:120]), path)
            else:
                run.violation("b2:pipe:%s:%s" % (h.get("kind"), why), "%s: rejected record %s (%s)" % (desc, ev[:300], why), path)

    # ------------------------------------------------------------------ LineText: what the lines of a source are
    def linetext():
        alpha, ml = ("{97, 13, 10}", 6) if quick else ("{97, 13, 10, 0}", 6)
        base = "INIT Init\nNEXT Next\nCONSTANTS MaxLen = %d\n Alphabet = %s\n Policy = \"%s\"\nINVARIANTS %s\nCHECK_DEADLOCK FALSE\n"
        jobs = [lambda: ("gen", tlc(run, "LineText_MC", base % (ml, alpha, "one", "Laws Dump"), workers=2, timeout=1800, label="LineText laws + sources")),
                lambda: ("wide", tlc(run, "LineText_MC", base % (4, "{97, 32, 13, 10, 0, 255}", "one", "Laws Dump"), workers=2, timeout=1800,
                                     label="LineText laws + sources (6-letter alphabet)")),
                lambda: ("neg", tlc(run, "LineText_MC", base % (4, "{97, 13, 10}", "run", "Laws"), workers=1, timeout=600,
                                    label="LineText control: a run of CRs is stripped"))]
        vecs = []
        for tag, r in parallel(jobs, 3):
            if tag == "neg":
                if "Laws" not in r.violated:
                    raise Inconclusive("negative control not refuted (run of CRs stripped): %s" % r.out[-1500:])
                run.cov["b3_negative_controls"] = run.cov.get("b3_negative_controls", 0) + 1
            else:
                require_clean(run, r, "LineText")
                vecs += vfj_lines(r.out)
        if len(vecs) < 2000:
            raise Inconclusive("LineText_MC produced only %d sources" % len(vecs))
        vp = os.path.join(sc, "c02-linetext.ndjson")
        with open(vp, "w") as f:
            for v in vecs:
                f.write(json.dumps(v, separators=(",", ":")) + "\n")
        out = os.path.join(sc, "c02-linetext.json")
        p = run.drv(["linetext", "-in", vp, "-out", out, "-rare", rare, "-clievery", 25 if quick else 5], check=False, timeout=3000)
        if p.returncode != 0:
            crash_verdict(run, p, "B1 line-text sources")
            return
        res = json.load(open(out))
        run.cov["b1_linetext_sources"] = res["vectors"]
        run.cov["b1_linetext_runs"] = res["runs"] + res["cli"]
        run.cov["traces_validated_against_impl"] += res["runs"] + res["cli"]
        run.cov["evaluations"] += res["runs"] + res["cli"]
        for m in res["mismatches"] or []:
            run.violation("b1:linetext:%s" % m["why"].split(":")[0],
                          "source %s through %s: %s (LineText.tla)" % (b2s(m["s"]), m["how"], m["why"]), m)

    parallel([b1_gen, b2_run], 2)
    parallel([b3_pipe, b3_life, b3_laws, b1_replay, b2_validate, linetext], 6)
    run.cov["rule"] = ("B3: all interleavings / all inputs within the listed constants, plus negative controls that must be refuted; "
                       "B1: one evaluation per TLC vector on the real extractor / colouriser, non-trivial = vectors with capture groups "
                       "(>= 2 coloured spans); B2: one trace per pipeline run / CLI run / WrapIndices call, non-trivial = runs with "
                       ">= 2 workers, runs with a timer-forced batch, CLI runs")

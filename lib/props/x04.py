"""X04 (beyond the listed properties) - pkg/fuzzy: the Sift4 distance and the fuzzy key table of `rare fuzzy`.

Not registered in MANIFEST.json (properties.jsonl is fixed; the command is behind the `experimental` build tag, the two
packages are part of every build). Sift4.tla transcribes the distance function, FuzzyTable.tla the table as a state machine;
run with `bin/check X04`."""
import json
import os
from vf import Inconclusive, parallel, require_clean, validate_traces, vfj_lines

CLAIM = {
    "text": "Sift4.tla transcribes sift4.Distance (cursors, local/longest common substring counters, the search window) and "
            "TLC checks its laws over all strings up to a bound (0 <= d <= max length, d = 0 iff equal, d >= length "
            "difference); FuzzyTable.tla is the table as a state machine (ordered scored keys, first similar key wins, "
            "score arithmetic, every Every-th unsuccessful search sorts - ties in any order - and cuts) and TLC checks over "
            "all call histories within the bounds the user-level laws of FuzzyLaws.tla (sound, complete while intact, "
            "immediate repetition, bounded and cut); three designs (only the first key compared, sort without cut, answer "
            "with the new spelling) are refuted. TLC-computed distances are replayed on the real function and seeded "
            "histories of real tables are judged by the same laws with the similarity computed by TLC.",
    "note": "extra coverage, not a listed property",
    "technique": "TLA+ function transcription + model checking (TLC) + model-computed vectors replayed + history validation by TLC",
}
LEVEL = "model_checking"


def _cfg(vals, size, ops, design, every=3):
    return ("SPECIFICATION Spec\nCONSTANTS\n Vals <- %s\n P = 3\n Q = 5\n MaxOffset = 5\n MaxSize = %d\n MaxOps = %d\n Every = %d\n"
            " Design = \"%s\"\nINVARIANTS TypeOK Lawful NoDouble\nCHECK_DEADLOCK FALSE\n" % (vals, size, ops, every, design))


def check(run):
    quick = run.tier == "quick"
    run.build_harness()
    run.assumptions += [
        "thresholds are multiples of 1/20 and keys shorter than 20 bytes, so no similarity ratio equals the threshold "
        "(the code compares float32 values; an exact tie could go either way)",
        "which of several similar keys answers is not fixed by the laws (it depends on the unspecified order of equal "
        "scores after a sort); only that the answer is a similar key handed out before",
    ]
    jobs = []
    sift_cfg = "INIT Init\nNEXT Next\nCONSTANTS MaxLen = %d\n Alpha = {97, 98%s}\n MaxOff = %d\nINVARIANTS Laws Dump\nCHECK_DEADLOCK FALSE\n" % (
        (4, "", 3) if quick else (4, ", 233", 4))
    jobs.append(lambda: ("sift", run.tlc("Sift4_MC", sift_cfg, workers=4, timeout=1800, label="Sift4 laws + vectors")))
    confs = [("VA", 2, 6), ("VA", 1, 6), ("VB", 2, 7), ("VB", 0, 5)] if quick else [("VA", 2, 8), ("VA", 1, 8), ("VB", 2, 9), ("VB", 3, 8), ("VB", 0, 6)]
    for (vals, size, ops) in confs:
        jobs.append(lambda vals=vals, size=size, ops=ops: (
            "ok", run.tlc("FuzzyTable_MC", _cfg(vals, size, ops, "code"), workers=3, timeout=3000,
                          coverage=(vals == "VA" and size == 2), label="FuzzyTable %s size=%d ops=%d" % (vals, size, ops))))
    for design, size in (("firstonly", 2), ("nocut", 1), ("fresh", 2)):
        jobs.append(lambda design=design, size=size: (
            "neg:" + design, run.tlc("FuzzyTable_MC", _cfg("VA", size, 6, design), workers=1, timeout=900,
                                     label="FuzzyTable negative control: %s" % design)))
    sift_r = None
    for tag, r in parallel(jobs, 4):
        if tag.startswith("neg:"):
            if "Lawful" not in r.violated:
                raise Inconclusive("negative control %s not refuted: %s" % (tag, r.out[-1500:]))
        elif tag == "sift":
            sift_r = r
        else:
            require_clean(run, r, "FuzzyTable")
    if sift_r.violated or sift_r.errors:
        raise Inconclusive("Sift4 laws do not hold of the transcription: %s" % sift_r.out[-2000:])
    vectors = vfj_lines(sift_r.out)
    if len(vectors) < 2000:
        raise Inconclusive("Sift4_MC produced only %d vectors" % len(vectors))
    vpath = os.path.join(run.scratch, "x04-vectors.ndjson")
    with open(vpath, "w") as f:
        for v in vectors:
            f.write(json.dumps(v, separators=(",", ":")) + "\n")
    b1res = os.path.join(run.scratch, "x04-b1.json")
    b2res = os.path.join(run.scratch, "x04-b2.json")
    b2tr = os.path.join(run.scratch, "x04-trace.ndjson")
    run.drv(["sift", "-in", vpath, "-out", b1res], timeout=1800)
    run.drv(["random", "-n", 150 if quick else 1500, "-out", b2res, "-trace", b2tr], timeout=1800)
    res = json.load(open(b1res))
    run.cov["b1_vectors"] = res["vectors"]
    run.cov["evaluations"] += res["vectors"]
    for m in res["mismatches"] or []:
        run.violation("b1:sift4:%s" % m["why"], "sift4 (%r, %r, window %s): real code %s, Sift4.tla %s" % (
            m["a"], m["b"], m["mo"], m.get("got", m.get("panic")), m.get("want")), m)
    res2 = json.load(open(b2res))
    run.cov["evaluations"] += res2["calls"]
    for c in res2["crashes"] or []:
        run.violation("b2:panic", "FuzzyTable (size %s, window %s) over %s panicked: %s" % (c["size"], c["mo"], c["pool"][:6], c["panic"]), c)
    lines = open(b2tr).read().splitlines()
    canary = []
    for k, ln in enumerate(lines[:: max(1, len(lines) // 30)]):
        c = json.loads(ln)
        hits = [i for i, o in enumerate(c["h"]) if not o["new"]]
        if hits and len(c["vals"]) > 1:
            c["t"] = -(k + 1)
            o = c["h"][hits[0]]
            o["m"] = len(c["vals"]) + 1 - o["m"] if len(c["vals"]) + 1 - o["m"] != o["m"] else (o["m"] % len(c["vals"])) + 1
            # answered with a key that (usually) was never handed out / is not similar; only certain corruptions count
            newbefore = {c["h"][j]["v"] for j in range(hits[0]) if c["h"][j]["new"]}
            if o["m"] not in newbefore:
                canary.append(json.dumps(c, separators=(",", ":")))
    both = os.path.join(run.scratch, "x04-trace-all.ndjson")
    with open(both, "w") as f:
        f.write("\n".join(lines + canary) + "\n")
    vres, r = validate_traces(run, "FuzzyTable_Trace", both, timeout=3000)
    if vres["consumed"] != len(lines) + len(canary):
        raise Inconclusive("history validation consumed %d of %d records" % (vres["consumed"], len(lines) + len(canary)))
    rejected = {b["t"] for b in vres["bad"] if b["t"] < 0}
    if len(canary) < 5 or len(rejected) != len(canary):
        raise Inconclusive("history validation rejected %d of %d corrupted records" % (len(rejected), len(canary)))
    for b in vres["bad"]:
        if b["t"] < 0:
            continue
        rec = json.loads(lines[b["l"] - 1])
        pool = ["".join(chr(x) for x in v) for v in rec["vals"]]
        for why in b["why"]:
            run.violation("b2:%s" % why, "FuzzyTable(%d/%d, window %d, size %d) over %s: history of %d calls breaks the law '%s' of FuzzyTable.tla" % (
                rec["p"], rec["q"], rec["mo"], rec["size"], pool[:8], len(rec["h"]), why), rec)
    run.cov["traces_validated_against_impl"] += len(lines)
    recs = [json.loads(ln) for ln in lines]
    run.cov["distinct_nontrivial"] = sum(1 for rc in recs if any(not o["new"] and o["m"] != o["v"] for o in rc["h"]))
    run.cov["rule"] = "a history is non-trivial when some key was mapped to a different, similar key"
    run.sample({"vector": vectors[len(vectors) // 3]})
    run.sample({"history": {"pool": ["".join(chr(x) for x in v) for v in recs[-1]["vals"]], "size": recs[-1]["size"], "h": recs[-1]["h"][:12]}})

"""X01 (beyond the listed properties) - `rare filter -n N` prints exactly min(N, matches) lines, each a match, none twice.

Not registered in MANIFEST.json: properties.jsonl is fixed and has no statement about -n. The specification FilterN.tla
extends the system model with the consumer's early-exit path; run with `bin/check X01`."""
import json
import os
from vf import Inconclusive, parallel, require_clean, validate_traces, vfj_lines

CLAIM = {
    "text": "FilterN.tla: reader, W workers, bounded match channel and the consumer loop of cmd/filter.go with its early "
            "`break OUTER_LOOP`; TLC checks over all interleavings that only matches are printed, none twice, never more "
            "than N, exactly min(N, M) at the summary, input order within a batch and (one worker) exactly the first "
            "matches, and that the consumer terminates although workers may stay blocked; two designs (limit ignored, "
            "limit tested between batches only) are refuted. TLC-enumerated scenarios are replayed on the real binary and "
            "seeded larger runs are validated by FilterN_Trace.",
    "note": "extra coverage, not a listed property",
    "technique": "TLA+ model checking (TLC) + model-generated scenarios replayed on the real binary + trace validation",
}
LEVEL = "model_checking"


def _cfg(bits, ln, n, w, b, cap, stop, live=True):
    return ("SPECIFICATION Spec\nCONSTANTS Match <- MCMatch\n Bits = %d\n L = %d\n N = %d\n W = %d\n B = %d\n Cap = %d\n"
            " StopAt = \"%s\"\nINVARIANTS Safe\n%sCHECK_DEADLOCK FALSE\n" % (bits, ln, n, w, b, cap, stop,
                                                                             "PROPERTIES Terminates\n" if live else ""))


def check(run):
    quick = run.tier == "quick"
    rare = run.build_cli()
    run.build_harness()
    run.assumptions += [
        "input lines carry their own file and line number ('F<f>L<i> m' matches, 'F<f>L<i> x' does not); regular files, so "
        "a batch is B consecutive lines of one file",
        "the property checked is the option's promise (first NUM lines seen, not necessarily in order): count, membership, "
        "no repetition, order inside a batch, first-N with one worker and one file, summary numbers, exit status",
    ]
    # ---------------------------------------------------------------- B3
    jobs = []
    vecs = [(29, 5), (31, 5), (0, 3), (21, 5), (63, 6)] if quick else [(b, 6) for b in (0, 1, 21, 42, 45, 62, 63)] + [(255, 8), (170, 8)]
    for bits, ln in vecs:
        for n in (0, 1, 2, 4):
            for (w, b, cap) in ((1, 2, 1), (2, 2, 1), (2, 1, 2), (2, 3, 1)) if quick else ((1, 2, 1), (2, 2, 1), (2, 1, 2), (2, 3, 1), (3, 2, 2), (3, 1, 1)):
                jobs.append(lambda bits=bits, ln=ln, n=n, w=w, b=b, cap=cap: (
                    "ok", run.tlc("FilterN_MC", _cfg(bits, ln, n, w, b, cap, "limit"), workers=1, timeout=900,
                                  coverage=(bits == 29 and n in (0, 2) and w == 2 and b == 2),
                                  label="FilterN bits=%d/%d N=%d W=%d B=%d Cap=%d" % (bits, ln, n, w, b, cap))))
    jobs.append(lambda: ("neg", run.tlc("FilterN_MC", _cfg(29, 5, 1, 2, 2, 1, "never", live=False), workers=1, timeout=900,
                                        label="FilterN negative control: limit ignored")))
    jobs.append(lambda: ("neg", run.tlc("FilterN_MC", _cfg(29, 5, 1, 2, 2, 1, "batch", live=False), workers=1, timeout=900,
                                        label="FilterN negative control: limit tested between batches")))
    gen_cfg = "INIT Init\nNEXT Next\nCONSTANTS MaxLen = %d\n MaxN = %d\nINVARIANTS Dump\nCHECK_DEADLOCK FALSE\n" % (
        5 if quick else 7, 3 if quick else 4)
    jobs.append(lambda: ("gen", run.tlc("FilterN_Gen", gen_cfg, workers=1, timeout=900, label="FilterN_Gen")))
    gen = None
    taken = {}
    for tag, r in parallel(jobs, 6):
        if tag == "neg":
            if "Safe" not in r.violated:
                raise Inconclusive("negative control not refuted: %s" % r.out[-1500:])
        elif tag == "gen":
            gen = r
        else:
            require_clean(run, r, "FilterN")
            for a, (n, _) in (r.coverage or {}).items():
                taken[a] = taken.get(a, 0) + n
    zero = [a for a, n in taken.items() if n == 0 and "ConsStopBetween" not in a]
    if zero or not taken:
        raise Inconclusive("vacuous model: actions never taken: %s" % zero)
    if gen.violated or gen.errors:
        raise Inconclusive("generator failed: %s" % gen.out[-1500:])
    vectors = vfj_lines(gen.out)
    if len(vectors) < 200:
        raise Inconclusive("generator produced only %d scenarios" % len(vectors))
    # ---------------------------------------------------------------- B1
    vpath = os.path.join(run.scratch, "x01-vectors.ndjson")
    with open(vpath, "w") as f:
        for v in vectors:
            f.write(json.dumps(v, separators=(",", ":")) + "\n")
    b1res = os.path.join(run.scratch, "x01-b1.json")
    b1tr = os.path.join(run.scratch, "x01-b1-trace.ndjson")
    b2res = os.path.join(run.scratch, "x01-b2.json")
    b2tr = os.path.join(run.scratch, "x01-b2-trace.ndjson")
    parallel([lambda: run.drv(["replay", "-rare", rare, "-in", vpath, "-out", b1res, "-trace", b1tr], timeout=2400),
              lambda: run.drv(["random", "-rare", rare, "-n", 150 if quick else 2500, "-out", b2res, "-trace", b2tr], timeout=2400)], 2)
    res = json.load(open(b1res))
    run.cov["b1_runs"] = res["runs"]
    run.cov["evaluations"] += res["runs"]
    for m in res["mismatches"] or []:
        run.violation("b1:%s" % m["why"].split(":")[0], "rare %s: %s" % (" ".join(m["argv"][:12]), m["why"]), m)
    res2 = json.load(open(b2res))
    run.cov["evaluations"] += res2["runs"]
    for j in res2["junk"] or []:
        run.violation("b2:junk", "rare %s: %s" % (" ".join(j["argv"][:12]), j["junk"]), j)
    # ---------------------------------------------------------------- B2
    both = os.path.join(run.scratch, "x01-trace.ndjson")
    lines = open(b1tr).read().splitlines() + open(b2tr).read().splitlines()
    # self-test: a few corrupted copies must be rejected
    canary = []
    for k, ln in enumerate(lines[:: max(1, len(lines) // 40)]):
        rec = json.loads(ln)
        if rec["out"]:
            c = json.loads(ln)
            c["t"] = -(k + 1)
            c["out"] = c["out"] + [c["out"][0]]
            canary.append(json.dumps(c, separators=(",", ":")))
    with open(both, "w") as f:
        f.write("\n".join(lines + canary) + "\n")
    vres, r = validate_traces(run, "FilterN_Trace", both)
    if vres["consumed"] != len(lines) + len(canary):
        raise Inconclusive("trace validation consumed %d of %d records" % (vres["consumed"], len(lines) + len(canary)))
    rejected = {b["t"] for b in vres["bad"] if b["t"] < 0}
    if len(canary) < 5 or len(rejected) != len(canary):
        raise Inconclusive("trace validation rejected %d of %d corrupted records" % (len(rejected), len(canary)))
    byt = {json.loads(ln)["t"]: json.loads(ln) for ln in open(b2tr).read().splitlines()}
    for b in vres["bad"]:
        if b["t"] < 0:
            continue
        rec = json.loads(lines[b["l"] - 1])
        for why in b["why"]:
            run.violation("b2:%s" % why, "rare %s printed %d lines %s...; summary %s / %s, exit %s: FilterN.tla rejects the run: %s" % (
                " ".join(rec["argv"][:14]), len(rec["out"]), rec["out"][:6], rec["suma"], rec["sumb"], rec["code"], why), rec)
    run.cov["traces_validated_against_impl"] += len(lines)
    run.cov["distinct_nontrivial"] = len({(json.dumps(json.loads(ln)["files"]), json.loads(ln)["n"]) for ln in lines if json.loads(ln)["out"]})
    run.cov["rule"] = "a run is non-trivial when at least one line was printed; distinct by (input files, N)"
    run.sample({"vector": vectors[len(vectors) // 2]})
    run.sample({"run": {k: v for k, v in json.loads(lines[-1]).items() if k != "files"}})

"""C17 - array helpers obey list semantics."""
import json
import os
import time
from vf import Inconclusive, parallel, require_clean, validate_traces, vfj_lines, b2s

CLAIM = {
    "text": "ExprArray.tla specifies the array helpers on LISTS (a value is Render(list) = elements joined by NUL): @split/@join for any non-empty delimiter of any length, @len, @select/@slice (negative indices from the end, clamped), @map/@filter/@reduce/@for with their sub-expression evaluated per element by a TLA+ tree evaluator ({0},{1} bound as documented, named keys resolved in the enclosing match at every nesting depth, scalar helpers through C11's ExprScalar), @in, @range, {@ ..}/{$ ..}; integer arguments range over the WHOLE 64-bit type (ExprWideInt.tla: exact add / subtract / compare on decimal digit sequences, because TLC's integers have 32 bits), so @range / @select / @slice / @for-with-sumi are specified next to -2^63, 0 and 2^63-1 too; a result is Render(specified list), so a stray or missing separator is a disagreement. TLC proves the property's laws on that evaluator (join(split(s,d),d)=s for every string, split(join(l,d),d)=l, index laws for indices in -(n+2)..n+2, slice concatenation, partition by a predicate and its negation, left folds, exact generator sequences, key resolution, the documentation's examples). ExprArrayWidth.tla runs the loops of @range and @slice, written like the code, on a machine with 3..6-bit wrap-around integers for EVERY argument value: they emit exactly the specified list and terminate, while the element count computed up front from a wrapping stop - start, the loop without the overflow guard and the end test start + length are refuted; scaling by 2^(64-Bits) carries the small machine into the 64-bit one (law embed). ExprPool.tla models the pooled per-call sub-contexts written like the code (Get/init/set/eval/Return over objpool's mutex-protected free list, W goroutines, nested helpers) and TLC checks over all interleavings that every evaluation sees its own values and its own match's keys, that no object is held twice and none leaks - and that the model rejects the code shape without @for's initialisation or without the mutex. Binding: TLC enumerates lists of 0..3 elements over {'',a,bb} x delimiters {',', ', ', e-acute, 'ab'} x indices/lengths in and out of range x sub-expression pools x four ways of supplying the list, plus every start / stop / increment of the 3-bit (thorough: 4-bit) machine embedded at 64 bits, values next to the ends of the type with small and huge increments, positions and lengths no list reaches, as HISTORIES of evaluations with expected results; the real compiler performs every history in one process on expressions compiled once per history (optimised and plain, quoted and unquoted sub-expressions), the pool-sensitive ones also from 8 goroutines at once; seeded random lists/delimiters/indices/sub-expressions are recorded and validated by TLC (ExprArray_Trace).",
    "note": "Bounded: lists of at most 3-7 short elements, sub-expressions of depth <= 2, generators of at most 48 elements; integer texts that are not int64 values are outside the domain. Outside the specified domain (only 'returns, no panic'): @map over the empty string unless the sub-expression maps '' to '', @in against '', delimiters/initial values that are not constants, empty @join delimiter, negative @slice length, @range whose direction contradicts its increment, {i} other than the documented bindings inside a sub-expression, elements containing NUL. With an explicit length and a negative start before the first element @slice may count the length from either the clamped or the virtual start. Real goroutine interleavings are sampled, not enumerated (the enumeration is on the model). Trusted: TLC, the Go runtime, C11's scalar specification.",
    "technique": "TLA+ functional specification + implementation-shaped pool state machine model-checked with TLC + model-generated evaluation histories replayed on the real code (sequentially and from concurrent goroutines) + TLC validation of recorded evaluations",
}


def _gen_cfg(inv, thorough):
    return ("INIT Init\nNEXT Next\nCONSTANTS Thorough = %s\nINVARIANTS %s\nCHECK_DEADLOCK FALSE\n"
            % ("TRUE" if thorough else "FALSE", inv))


def _pool_cfg(w, j, p, e, progs, initfor=True, locked=True):
    return ("SPECIFICATION Spec\nCONSTANTS W = %d\n J = %d\n P = %d\n E = %d\n Progs <- %s\n InitFor = %s\n Locked = %s\n"
            "INVARIANTS TypeOK Exclusive SeesOwn NoLeak Bounded MutexOK\nCHECK_DEADLOCK FALSE\n"
            % (w, j, p, e, progs, "TRUE" if initfor else "FALSE", "TRUE" if locked else "FALSE"))


def _width_cfg(bits, maxn, rd="guard", sd="diff", live=True):
    return ("SPECIFICATION Spec\nCONSTANTS Bits = %d\n MaxN = %d\n RangeDesign = \"%s\"\n SliceDesign = \"%s\"\n"
            "INVARIANTS TypeOK RangePrefix RangeFinal SlicePrefix SliceFinal Steps ClosedForm\n%sCHECK_DEADLOCK FALSE\n"
            % (bits, maxn, rd, sd, "PROPERTY Terminates\n" if live else ""))


def check(run):
    try:
        _check(run)
    except Inconclusive:
        raise
    except Exception as e:  # infrastructure trouble is never a verdict
        import traceback
        raise Inconclusive("c17 check failed: %s\n%s" % (e, traceback.format_exc()))


def _txt(s):
    return repr(s)


def _check(run):
    quick = run.tier == "quick"
    run.assumptions += [
        "a list value is its elements joined by NUL; '' is both the empty list and the list of one empty element, "
        "so @map over '' is specified only for sub-expressions mapping '' to '', @in against '' is unspecified",
        "negative @select index counts from the end like @slice (undocumented, pinned by the repository's own tests); "
        "out-of-range @select is ''",
        "@slice with a negative start before the first element and an explicit length: both 'length from the clamped start' and "
        "'length from the virtual start' are accepted (the documentation does not decide)",
        "undocumented and therefore only required to return: non-constant/empty delimiters, non-constant @reduce initial value, "
        "negative @slice length, @range with start/stop contradicting the increment, {1} in @map/@filter, {i>=2} or {i<0} in any sub-expression, NUL inside elements",
        "truthiness of a sub-expression result: empty or ASCII-whitespace-only is false, anything with a printable ASCII byte is true, else unspecified",
        "@for loops are generated with an index bound in the condition: the helper's own limit is 10^6 iterations and the optimiser probes "
        "expressions with an empty context at compile time (resource usage is not part of the property)",
    ]
    run.build_harness()
    vec_path = os.path.join(run.scratch, "c17-vectors.ndjson")
    res_path = os.path.join(run.scratch, "c17-replay.json")
    b1_trace = os.path.join(run.scratch, "c17-b1-trace.ndjson")
    b2_trace = os.path.join(run.scratch, "c17-b2-trace.ndjson")

    # ---- B3 (a): the property's laws on the evaluator
    def laws():
        r = run.tlc("ExprArray_MC", _gen_cfg("LawHolds", not quick), workers=1 if quick else 2, timeout=1800,
                    label="ExprArray_MC laws Thorough=%s" % (not quick))
        require_clean(run, r, "ExprArray_MC (laws)")
        if r.distinct < 10000:
            raise Inconclusive("law check explored only %d cases" % r.distinct)
        return r

    # ---- B3 (b): the sub-context pool, all interleavings; and the model must reject the unrepaired shapes
    def pool_small():
        out = []
        for (w, j, p, e, progs) in [(1, 3, 2, 2, "ProgsAll"), (2, 2, 2, 1, "ProgsFlat"), (2, 2, 1, 1, "ProgsFlat")]:
            r = run.tlc("ExprPool_MC", _pool_cfg(w, j, p, e, progs), workers=1, timeout=900,
                        label="ExprPool W=%d J=%d P=%d E=%d %s" % (w, j, p, e, progs))
            require_clean(run, r, "ExprPool W=%d J=%d P=%d %s" % (w, j, p, progs))
            out.append(r)
        neg = {}
        for name, inv, kw in [("for-without-init", "SeesOwn", dict(initfor=False)), ("no-mutex", "Exclusive", dict(locked=False))]:
            r = run.tlc("ExprPool_MC", _pool_cfg(2, 1, 1, 1, "ProgsAll", **kw), workers=1, timeout=900,
                        label="ExprPool negative: %s" % name)
            if inv not in r.violated:
                raise Inconclusive("ExprPool does not reject the %s shape (violated=%s)\n%s" % (name, r.violated, r.out[-1500:]))
            neg[name] = inv
        run.cov["pool_model_rejects"] = neg
        return out

    # ---- B3 (c): integers of the whole 64-bit type - the digit arithmetic the specification computes with, and the
    # loops of @range / @slice on a Bits-bit machine (every argument value); the designs that are not in the code are refuted
    def wide():
        r = run.tlc("ExprWideInt_MC", _gen_cfg("LawHolds", not quick), workers=1 if quick else 3, timeout=1800,
                    label="ExprWideInt_MC laws Thorough=%s" % (not quick))
        require_clean(run, r, "ExprWideInt_MC (laws)")
        if r.distinct < 15000:
            raise Inconclusive("wide-integer law check explored only %d cases" % r.distinct)

    def width():
        total = 0
        for bits, maxn in ([(3, 2), (4, 3)] if quick else [(3, 2), (4, 3), (5, 4), (6, 4)]):
            r = run.tlc("ExprArrayWidth", _width_cfg(bits, maxn), workers=1 if bits < 6 else 3, timeout=1800,
                        label="ExprArrayWidth Bits=%d (designs of the code)" % bits)
            require_clean(run, r, "ExprArrayWidth Bits=%d" % bits)
            total += r.distinct
        if total < 9000:
            raise Inconclusive("width model explored only %d states" % total)
        neg = {}
        for name, rd, sd, inv in [("range-count-up-front", "count", "diff", "RangeFinal"), ("range-loop-without-overflow-guard", "noguard", "diff", "RangePrefix"),
                                  ("slice-end-as-start-plus-length", "guard", "sum", "SliceFinal")]:
            r = run.tlc("ExprArrayWidth", _width_cfg(4, 3, rd, sd, live=False), workers=1, timeout=900,
                        label="ExprArrayWidth negative: %s" % name)
            if inv not in r.violated:
                raise Inconclusive("ExprArrayWidth does not reject the %s design (violated=%s)\n%s" % (name, r.violated, r.out[-1500:]))
            neg[name] = inv
        run.cov["width_model_rejects"] = neg
        run.cov["width_model_states"] = total

    def pool_big():
        cfgs = [(2, 1, 1, 2, "ProgsAll")] if quick else [(2, 2, 1, 1, "ProgsAll"), (2, 2, 2, 1, "ProgsAll"), (2, 2, 2, 2, "ProgsFlat"), (3, 1, 1, 1, "ProgsMix")]
        total = 0
        for (w, j, p, e, progs) in cfgs:
            r = run.tlc("ExprPool_MC", _pool_cfg(w, j, p, e, progs), workers=3, timeout=3000,
                        label="ExprPool W=%d J=%d P=%d E=%d %s" % (w, j, p, e, progs))
            require_clean(run, r, "ExprPool W=%d J=%d P=%d %s" % (w, j, p, progs))
            total += r.distinct
        if total < 100000:
            raise Inconclusive("pool model explored only %d states" % total)

    # ---- B1: TLC enumerates histories with expectations; the real compiler performs them
    def gen():
        r = run.tlc("ExprArray_Gen", _gen_cfg("Dump", not quick), workers=3, timeout=3000,
                    label="ExprArray_Gen Thorough=%s" % (not quick))
        if r.violated or r.errors or not r.finished:
            raise Inconclusive("generator failed: %s" % r.out[-2000:])
        n = 0
        with open(vec_path, "w") as f:
            for v in vfj_lines(r.out):
                f.write(json.dumps(v, separators=(",", ":")) + "\n")
                n += 1
        if n < 20000:
            raise Inconclusive("generator produced only %d histories" % n)
        return n

    hang = []

    def replay_and_trace():
        p = run.drv(["replay", "-in", vec_path, "-out", res_path, "-trace", b1_trace, "-rounds", 1500 if quick else 20000],
                    check=False, timeout=1500)
        if p.returncode == 5:
            for ln in p.stdout.splitlines():
                if ln.startswith("HANG "):
                    hang.append(json.loads(ln[5:]))
            if not hang:
                raise Inconclusive("driver stopped by its watchdog without a report:\n" + p.stdout[-2000:] + p.stderr[-2000:])
            return None
        if p.returncode == 2 and "goroutine stack exceeds" in p.stderr and "rare/pkg/expressions" in p.stderr:
            # the Go runtime ended the process: unbounded recursion inside the code under test (not recoverable)
            frames = [ln for ln in p.stderr.splitlines() if ln.startswith("rare/pkg/")]
            hang.append({"f": "crash", "crash": True, "template": "(see frames)", "frames": frames[:12],
                         "stderr": p.stderr[:1500]})
            return None
        if p.returncode != 0:
            raise Inconclusive("driver failed (%d):\n%s" % (p.returncode, p.stderr[-4000:]))
        run.drv(["trace", "-out", b2_trace, "-n", 9000 if quick else 300000])
        b2_lines = open(b2_trace).read().splitlines()
        lines = list(b2_lines)
        if not quick:
            lines += open(b1_trace).read().splitlines()
        # canary: corrupted copies of real records; TLC must reject those inside the domain
        ncan = 0
        for ln in b2_lines[:400]:
            rec = json.loads(ln)
            rec["got"] = rec["got"] + ([0] if ncan % 2 else [48])
            rec["canary"] = True
            lines.append(json.dumps(rec, separators=(",", ":")))
            ncan += 1
        k = 2 if quick else 6
        per = (len(lines) + k - 1) // k
        chunks = []
        for i in range(k):
            part = lines[i * per:(i + 1) * per]
            if not part:
                continue
            pth = os.path.join(run.scratch, "c17-chunk-%d.ndjson" % i)
            with open(pth, "w") as f:
                f.write("\n".join(part) + "\n")
            chunks.append((i, pth, part))

        def val(i, pth):
            return validate_traces(run, "ExprArray_Trace", pth, label="ExprArray_Trace chunk %d" % i, timeout=3000, xmx="3g")

        return chunks, parallel([lambda i=i, pth=pth: val(i, pth) for i, pth, _ in chunks], k), len(b2_lines)

    # phase 1: generator (4 workers) + laws (2) + small pool configurations (1) + wide integers / width model (1)
    nvec, _, _, _ = parallel([gen, laws, pool_small, wide], 4)
    # phase 2: replay, B2 validation (k x 1 worker) + the large pool configuration (3 workers) + the width model (1)
    b12, _, _ = parallel([replay_and_trace, pool_big, width], 3)

    for h in hang:
        if h.get("crash"):
            run.violation("b1:crash:stack-overflow",
                          "the driver process was ended by the Go runtime (goroutine stack exceeds limit) inside the expression package "
                          "while replaying the histories; innermost frames: %s" % "; ".join(h["frames"][:6]), h)
            continue
        run.violation("b1:%s:hang" % h.get("f"),
                      "%s of template %s with match %s keys %s did not return within %.0f s / used %s MB (history group %s, step %s)" % (
                          "compiling" if h.get("compile") else "evaluating", h.get("template"), h.get("m"), h.get("ks"),
                          h.get("seconds", 0), h.get("heap_mb"), h.get("g"), h.get("step")), h)
    if b12 is None:
        run.cov["rule"] = "replay stopped by the watchdog"
        run.sample({"hang": hang[:1]})
        return
    chunks, results, nb2 = b12

    res = json.load(open(res_path))
    run.cov["b1_histories"] = res["histories"]
    run.cov["b1_multi_step_histories"] = res["multi_step_histories"]
    run.cov["b1_steps"] = res["steps"]
    run.cov["b1_evaluations"] = res["runs"]
    run.cov["b1_concurrent_evaluations"] = res["concurrent_runs"]
    run.cov["b1_goroutines"] = res["goroutines"]
    run.cov["b1_per_group"] = res["per_group"]
    run.cov["b1_per_helper"] = res["per_func"]
    run.cov["traces_validated_against_impl"] += res["runs"] + res["concurrent_runs"]
    run.cov["evaluations"] += res["runs"] + res["concurrent_runs"]
    run.cov["distinct_nontrivial"] += res["distinct_nontrivial"]
    if res["per_group"].get("wide", 0) < 2500:
        raise Inconclusive("only %s histories with integers of the whole 64-bit type" % res["per_group"].get("wide", 0))
    if res["unprintable"]:
        raise Inconclusive("%d generated steps could not be written as templates" % res["unprintable"])
    if res["goroutines"] < 4 or res["concurrent_runs"] < 10000:
        raise Inconclusive("concurrent phase too small: %s goroutines, %s evaluations" % (res["goroutines"], res["concurrent_runs"]))
    for s in res["samples"] or []:
        run.sample({"b1": s})
    for m in res["mismatches"] or []:
        kind = "conc" if m["g"] == "conc" else "hist" if m["g"].startswith("hist") else "b1"
        run.violation("%s:%s:%s" % (kind, m["f"], m["class"]),
                      "template %s with match groups %s and keys %s (group %s, step %d of its history, optimise=%s, %s sub-expressions%s) "
                      "evaluates to %s%s; the specification expects %s %s" % (
                          m["template"], [_txt(x) for x in m["m"]], m["ks"], m["g"], m["step"], m["opt"], m["form"],
                          ", %d goroutines" % m["goroutines"] if "goroutines" in m else "",
                          _txt(m["got"]), " PANIC " + m["panic"] if m["panic"] else "",
                          m["expect"]["k"], _txt(m["expect_text"]) if m["expect"]["k"] == "out" else
                          [bytes(a).decode("latin1") for a in m["expect"]["alts"] or []]), m)

    # ---- thorough: the pool-sensitive histories and the concurrent phase once more under the race detector
    if not quick:
        sub = os.path.join(run.scratch, "c17-vectors-pool.ndjson")
        with open(vec_path) as f, open(sub, "w") as g:
            for ln in f:
                if '"g":"conc"' in ln or '"g":"hist2"' in ln:
                    g.write(ln)
        p = run.drv(["replay", "-in", sub, "-out", os.path.join(run.scratch, "c17-race.json"), "-rounds", 3000], race=True,
                    check=False, timeout=1500, env={"GORACE": "halt_on_error=1 exitcode=66"})
        if p.returncode == 66 or "WARNING: DATA RACE" in p.stderr:
            frames = [ln.strip() for ln in p.stderr.splitlines() if "rare/pkg/" in ln][:8]
            run.violation("conc:data-race", "the race detector reports a data race while 8 goroutines evaluate shared compiled "
                          "expressions: %s" % "; ".join(frames), {"stderr": p.stderr[:4000]})
        elif p.returncode != 0:
            raise Inconclusive("race-detector replay failed (%d):\n%s" % (p.returncode, p.stderr[-3000:]))
        else:
            rr = json.load(open(os.path.join(run.scratch, "c17-race.json")))
            run.cov["race_detector_evaluations"] = rr["runs"] + rr["concurrent_runs"]
            for m in rr["mismatches"] or []:
                run.violation("%s:%s:%s" % ("conc" if m["g"] == "conc" else "hist", m["f"], m["class"]),
                              "(race build) template %s evaluates to %s, expected %s" % (m["template"], _txt(m["got"]), _txt(m["expect_text"])), m)

    consumed = nontrivial = canary = canary_rejected = 0
    for (i, pth, part), (r, _) in zip(chunks, results):
        canary += sum(1 for ln in part if '"canary":true' in ln)
        if r["consumed"] != len(part) or not r["done"]:
            raise Inconclusive("trace chunk %d: consumed %d of %d records" % (i, r["consumed"], len(part)))
        consumed += r["consumed"]
        nontrivial += r["nontrivial"]
        for bad in r["bad"]:
            rec = json.loads(part[bad["l"] - 1])
            if rec.get("canary"):
                canary_rejected += 1
                continue
            run.violation("b2:%s:%s" % (bad["f"], bad["class"]),
                          "recorded evaluation of %s with match groups %s and keys %s (optimise=%s) = %s%s is rejected by ExprArray.tla (%s)" % (
                              rec["tpl"], [b2s(a) for a in rec["m"]], [[b2s(k), b2s(v)] for k, v in rec["ks"]], rec.get("opt"),
                              b2s(rec["got"]), " PANIC" if rec["panic"] else "", bad["class"]), rec)
    if canary_rejected * 10 < canary * 6:
        raise Inconclusive("trace validation rejected only %d of %d deliberately corrupted records" % (canary_rejected, canary))
    run.cov["b2_corrupted_records_rejected"] = "%d of %d" % (canary_rejected, canary)
    consumed -= canary
    run.cov["b2_records"] = consumed
    run.cov["b2_random_evaluations"] = nb2
    run.cov["b2_records_inside_domain"] = nontrivial
    run.cov["traces_validated_against_impl"] += nb2
    run.cov["evaluations"] += nb2
    with open(b2_trace) as f:
        run.sample({"b2_records": [{k: v for k, v in json.loads(next(f)).items() if k != "x"} for _ in range(2)]})
    if nontrivial * 10 < consumed * 7:
        raise Inconclusive("only %d of %d recorded evaluations are inside the specified domain" % (nontrivial, consumed))
    run.cov["rule"] = ("B3: every case of every law in ExprArray_MC, every reachable state of ExprPool; B1: every step of every generated history "
                       "x {optimising, plain compiler} x {unquoted, quoted sub-expressions}, non-trivial = the specification demands a value "
                       "(expectation kind other than 'any'); %d histories have several steps sharing pooled sub-contexts, %d evaluations ran "
                       "from %d concurrent goroutines; B2: one record per random evaluation (%d)" % (
                           res["multi_step_histories"], res["concurrent_runs"], res["goroutines"], nb2))

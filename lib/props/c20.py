"""C20 - the live terminal shows the latest text of every line, within its width."""
import json
import os
from vf import Inconclusive, parallel, require_clean, tlaps, vfj_lines

CLAIM = {
    "text": "A VT100-subset terminal emulator written in TLA+ (Term.tla: a state machine over the byte stream - UTF-8 runes, wrap flag, LF/CR, ESC[nA, ESC[0K, cursor visibility, zero-width colour sequences) is the reference. TLC exhaustively checks the transcription of multiterm.TermWriter and WriteLineNoWrap composed with it (TermWriter.tla: every update history up to the bound over lines 0..3 and texts {empty, a, abc, coloured ab, multi-byte}, widths 1..4, trimming on/off, LF with and without implied CR) against the screen oracle after EVERY call: each line shows exactly (the width-trimmed visible part of) its latest text, rows above/below untouched, nothing wrapped, no sequence cut, cursor parked below the last line and visible after Close; likewise the buffered writer (TermBuffered.tla) and the trimming law for all token strings (TermTrim_MC). Colour sequences have no maximal length in the property's domain: TermTrimSgr_MC replaces every colour sequence of every token string by one of n runes (n up to 64 quick / every n in 3..67 thorough: 24-bit colours, stacked attributes, foreground + background) and decides that the oracle, the cut and the resulting terminal row do not depend on n, the writer models are also checked on a pool of texts with 15/18/43-rune sequences (TextsSgr), and the design 'scan for the closing m bounded to k runes' (CutBounded) is refuted by TLC for k = 12, 32 (24, 62) as soon as a longer sequence occurs while it passes when every sequence fits. The real code is bound independently of the transcription: the bytes multiterm.New(), the buffered writer from cmd/helpers.BuildVTerm and WriteLineNoWrap really write to file descriptor 1 (TLC-enumerated histories with the model's predicted screens, and seeded random histories up to 200 updates, widths 1..120, gaps, colours incl. sequences of every length 3..72 runes, multi-byte runes; WriteLineNoWrap with a sequence of every length 3..48 (90) before/inside/after text) are interpreted by the TLA+ emulator in TLC and judged by the same oracle after every update and after Close.",
    "note": "Assumptions: terminal at least as tall as the lines used (no scrolling); every rune one cell wide (no CJK/combining); texts are printable runes plus complete ESC[...m sequences; erase at the deferred-wrap position erases nothing; LF implies CR (tty default) for the verdict; without trimming only texts that fit the width are in the domain of the in-place writer. Exhaustive only within the stated bounds, random beyond. Trusted: the emulator as a faithful model of a terminal, TLC, the fd-level capture of the harness.",
    "technique": "TLA+ model checking (TLC) of writer-composed-with-terminal-emulator with a refuted negative control (bounded colour-sequence scan) + model-behaviour replay + trace validation of real stdout bytes through the TLA+ emulator; TLAPS proof of the row bookkeeping (TermCursor) for any number of updates",
}

WRITER_INVS = "Screen Parked Emulated Belief MaxLineOK"


def writer_cfg(cols, trims, onlcr, lines, texts, n):
    return ("SPECIFICATION Spec\nCONSTANTS ColsSet = {%s}\n TrimSet = {%s}\n OnlcrSet = {%s}\n Lines = {%s}\n"
            " Texts <- %s\n MaxUpdates = %d\nINVARIANTS %s\nCHECK_DEADLOCK FALSE\n" % (
                ",".join(map(str, cols)), ",".join(trims), ",".join(onlcr), ",".join(map(str, lines)), texts, n, WRITER_INVS))


def buffered_cfg(cols, lines, texts, n):
    return ("SPECIFICATION BSpec\nCONSTANTS ColsSet = {%s}\n TrimSet = {TRUE, FALSE}\n OnlcrSet = {TRUE}\n Lines = {%s}\n"
            " Texts <- %s\n MaxUpdates = %d\nINVARIANTS BQuiet BFinal\nCHECK_DEADLOCK FALSE\n" % (
                ",".join(map(str, cols)), ",".join(map(str, lines)), texts, n))


def gen_cfg(cols, trims, lines, texts, n):
    return ("INIT GInit\nNEXT GNext\nCONSTANTS ColsSet = {%s}\n TrimSet = {%s}\n OnlcrSet = {TRUE}\n Lines = {%s}\n"
            " Texts <- %s\n MaxUpdates = %d\nINVARIANTS Dump\nCHECK_DEADLOCK FALSE\n" % (
                ",".join(map(str, cols)), ",".join(trims), ",".join(map(str, lines)), texts, n))


TERM_MC = ("SPECIFICATION TermSpec\nCONSTANTS TCols = 2\n TAlphabet = {%s}\n"
           " TMaxBytes = %d\nINVARIANTS TermSane WrapFlagged FeedAgrees ColourZeroWidth EraseOK\nCHECK_DEADLOCK FALSE\n")
TRIM_MC = "SPECIFICATION TSpec\nCONSTANTS MaxW = %d\n MaxTokens = %d\nINVARIANTS TrimLaw NoWrapLaw\nCHECK_DEADLOCK FALSE\n"
# colour sequences of any length (TermTrimSgr_MC): ScanBound 0 = the transcription, k > 0 = the design
# "scan for the closing m bounded to k runes" (negative control)
SGR_MC = ("SPECIFICATION SSpec\nCONSTANTS MaxW = %d\n MaxTokens = %d\n SgrLens = {%s}\n ScanBound = %d\n"
          "INVARIANTS %s\nCHECK_DEADLOCK FALSE\n")
SGR_INVS = "SgrOracleBlind SgrTrimLaw SgrLenIrrelevant SgrNoWrapLaw"
TRACE_CFG = "SPECIFICATION TSpec\nINVARIANTS Final\nCHECK_DEADLOCK FALSE\n"


def split_trace(path, parts, scratch, tag):
    """cut a concatenated trace file into `parts` files at reset lines (balanced by bytes)."""
    traces, cur = [], []
    with open(path) as f:
        for line in f:
            if '"event":"reset"' in line and cur:
                traces.append(cur)
                cur = []
            cur.append(line)
    if cur:
        traces.append(cur)
    # greedy balance: heaviest traces first, each to the least loaded part (cost ~ bytes + per-event overhead)
    cost = lambda t: sum(len(x) for x in t) + 600 * len(t)
    out, load = [[] for _ in range(parts)], [0] * parts
    for t in sorted(traces, key=cost, reverse=True):
        k = load.index(min(load))
        out[k].append(t)
        load[k] += cost(t)
    out = [b for b in out if b]
    files = []
    for i, b in enumerate(out):
        p = os.path.join(scratch, "%s-part%d.ndjson" % (tag, i))
        with open(p, "w") as f:
            for t in b:
                f.writelines(t)
        files.append((p, len(b), sum(len(t) for t in b)))
    return files


def validate_part(run, path, label):
    r = run.tlc("Term_Trace", TRACE_CFG, files=[("trace.ndjson", path)], workers=1, timeout=2400, label=label, xmx="4g")
    if r.violated or r.errors:
        raise Inconclusive("trace validation failed to run (%s): %s %s\n%s" % (label, r.violated, r.errors[:3], r.out[-3000:]))
    res = r.json_out("bad.json")
    if res is None:
        raise Inconclusive("trace validation wrote no result (%s)\n%s" % (label, r.out[-3000:]))
    return path, res


def text_of(runes):
    return "".join(chr(c) if 32 <= c else "\\x%02x" % c for c in runes)


def report_bad(run, origin, path, res, nevents):
    """one VIOLATION per rejected trace; `junk` (bytes outside the emulated subset) is inconclusive."""
    if res["consumed"] != nevents:
        raise Inconclusive("%s: trace spec consumed %d of %d events" % (origin, res["consumed"], nevents))
    if not res["done"] and not res["bad"]:
        raise Inconclusive("%s: last trace incomplete" % origin)
    lines = open(path).read().splitlines()
    junk = []
    for bad in res["bad"]:
        # slice of this trace
        start = bad["l"] - 1
        while start > 0 and '"event":"reset"' not in lines[start]:
            start -= 1
        end = bad["l"]
        while end < len(lines) and '"event":"reset"' not in lines[end]:
            end += 1
        head = json.loads(lines[start])
        ev = json.loads(lines[bad["l"] - 1])
        if bad["why"] == "junk":
            junk.append((head, ev))
            continue
        hist = [json.loads(x) for x in lines[start + 1:bad["l"]]]
        desc = ", ".join("%d:'%s'" % (h["line"], text_of(h["text"])[:40]) for h in hist[-5:] if h.get("event") == "upd")
        if ev["event"] == "trim":
            what = "WriteLineNoWrap('%s', width %d, trim %s) wrote '%s': %s" % (
                text_of(ev["text"])[:80], ev["cols"], ev["on"], bytes(ev["out"]).decode("utf8", "replace")[:80].replace("\x1b", "\\x1b"), bad["why"])
        elif ev["event"] == "panic":
            what = "%s writer panicked (%s) after updates [%s] (width %d, trim %s)" % (head["kind"], ev.get("msg", "")[:100], desc, head["cols"], head["trim"])
        else:
            what = "%s writer, width %d, trim %s: after %s the terminal of Term.tla shows a screen the oracle forbids (%s); last updates [%s]" % (
                head["kind"], head["cols"], head["trim"],
                "Close" if ev["event"] == "close" else "update %d:'%s'" % (ev["line"], text_of(ev["text"])[:40]), bad["why"], desc)
        rp = run.save_replay("%s-trace-%d.ndjson" % (origin, head["t"]), "\n".join(lines[start:end]) + "\n")
        run.violation("%s:%s:%s" % (origin, head["kind"], bad["why"]), what, rp)
    if res.get("more"):
        print("  (%s: %d further rejected traces not listed)" % (origin, res["more"]))
    if junk:
        head, ev = junk[0]
        raise Inconclusive("%s: the real writer emitted bytes outside the emulated terminal subset in %d trace(s), e.g. %s" % (
            origin, len(junk), json.dumps(ev)[:300]))


def count_events(path):
    with open(path) as f:
        return sum(1 for line in f if line.strip())


def check(run):
    quick = run.tier == "quick"
    run.assumptions += [
        "terminal at least as tall as the number of lines used (no scrolling)",
        "every rune is one cell wide (no CJK / combining characters); texts are printable runes plus complete ESC[...m colour sequences; line indices >= 0",
        "without trimming (AutoTrim off) only texts whose visible length fits the width are in the domain of the in-place writer; for the buffered writer without trimming the output is a pipe (no width)",
        "terminal semantics: a rune written past the last column wraps (flagged); erase-to-end at the deferred-wrap position erases nothing; verdicts use LF-implies-CR (tty default), the model is also checked for raw LF",
        "B3 bounds: lines 0..3(4), text pools TextsB3(x) / TextsSgr, widths and history length as listed in tlc_runs",
        "a colour sequence is ESC [ (digit | ;)* m of ANY length (the emulator follows up to 96 parameter bytes; longer: inconclusive); exercised up to 72 runes (90 for WriteLineNoWrap in the thorough tier)",
    ]
    run.build_harness()
    all_lines = [0, 1, 2, 3]
    both = ["TRUE", "FALSE"]

    # ------------------------------------------------------------------ job definitions
    def b3_writer():
        if quick:
            rs = parallel([
                lambda: run.tlc("TermWriter", writer_cfg([1, 2, 3, 4], both, ["TRUE"], all_lines, "TextsB3", 4), workers=3,
                                label="TermWriter widths 1..4 trim on/off N=4", timeout=1200),
                lambda: run.tlc("TermWriter", writer_cfg([1, 2, 3, 4], both, ["FALSE"], all_lines, "TextsB3", 3), workers=1,
                                label="TermWriter widths 1..4 trim on/off raw LF N=3", timeout=1200)], 2)
        else:
            rs = parallel([
                lambda: run.tlc("TermWriter", writer_cfg([1, 2, 3, 4], both, both, all_lines, "TextsB3", 6), workers=3,
                                label="TermWriter widths 1..4 trim on/off onlcr on/off N=6", timeout=3000),
                lambda: run.tlc("TermWriter", writer_cfg([1, 2, 3, 4, 5], both, ["TRUE"], [0, 1, 2, 3, 4], "TextsB3x", 4), workers=3,
                                label="TermWriter widths 1..5 lines 0..4 TextsB3x N=4", timeout=3000)], 2)
        for r in rs:
            require_clean(run, r, "TermWriter")
            if r.distinct < 5000:
                raise Inconclusive("TermWriter model suspiciously small: %d states" % r.distinct)
        return rs

    def b3_small():
        rs = [("Term_MC", run.tlc("Term_MC", TERM_MC % (("97, 27, 91, 109, 13, 75, 195, 169", 5) if quick else ("97, 27, 91, 51, 109, 13, 75, 65, 195, 169", 6)), workers=1 if quick else 2, label="Term_MC emulator sanity")),
              ("TermTrim_MC", run.tlc("TermTrim_MC", TRIM_MC % ((5, 5) if quick else (7, 6)), workers=1 if quick else 2, label="TermTrim_MC trimming law")),
              ("TermBuffered", run.tlc("TermBuffered", buffered_cfg([1, 2, 3, 4], all_lines, "TextsB3" if quick else "TextsB3x", 4 if quick else 5),
                                       workers=1 if quick else 2, label="TermBuffered widths 1..4 trim on/off", timeout=3000))]
        for name, r in rs:
            require_clean(run, r, name)
            if r.distinct < 1000:
                raise Inconclusive("%s model suspiciously small: %d states" % (name, r.distinct))
        return rs

    def b3_sgr():
        """colour sequences of every length: laws on the transcription, the writer models on a pool with long
        sequences, and the bounded-scan design refuted (harmless while every sequence fits the bound)"""
        rs = []
        # quick: token strings of <= 3 tokens x 8 lengths; thorough: <= 3 tokens x every length 3..67 and <= 4 tokens x 13 lengths
        sgr_runs = [(3, [3, 11, 13, 14, 19, 33, 43, 64])] if quick else \
                   [(3, list(range(3, 68))), (4, [3, 4, 8, 12, 13, 14, 15, 19, 25, 33, 43, 64, 67])]
        rs += [("TermTrimSgr_MC", run.tlc("TermTrimSgr_MC", SGR_MC % (5, mt, ",".join(map(str, lens)), 0, SGR_INVS), workers=1, timeout=3000,
                                           label="TermTrimSgr_MC texts of <= %d tokens, colour sequences of %d lengths up to %d runes" % (mt, len(lens), lens[-1])))
               for mt, lens in sgr_runs]
        rs += [
               ("TermWriter", run.tlc("TermWriter", writer_cfg([1, 2, 3, 4, 7], both, ["TRUE"] if quick else both, [0, 1, 2], "TextsSgr", 3 if quick else 4),
                                       workers=1 if quick else 2, label="TermWriter long colour sequences (TextsSgr) widths 1..4,7", timeout=3000)),
               ("TermBuffered", run.tlc("TermBuffered", buffered_cfg([1, 2, 3, 4, 7], [0, 1, 2], "TextsSgr", 3 if quick else 4),
                                         workers=1 if quick else 2, label="TermBuffered long colour sequences (TextsSgr)", timeout=3000)),
               ("TermTrimSgr_MC", run.tlc("TermTrimSgr_MC", SGR_MC % (5, 3, "3,11,13", 12, SGR_INVS), workers=1,
                                           label="TermTrimSgr_MC scan bounded to 12 runes, sequences of at most 13 runes (harmless control: must pass)"))]
        for name, r in rs:
            require_clean(run, r, name)
            if r.distinct < 1000:
                raise Inconclusive("%s model suspiciously small: %d states" % (name, r.distinct))
        refuted = []
        negs = [(12, "3,11,13,14", "SgrTrimLaw"), (12, "19", "SgrNoWrapLaw"), (32, "3,33,43", "SgrTrimLaw")]
        if not quick:
            negs += [(12, "3,11,13,14", "SgrNoWrapLaw"), (12, "14", "SgrLenIrrelevant"), (24, "26", "SgrTrimLaw"), (62, "64", "SgrTrimLaw"), (62, "64", "SgrNoWrapLaw")]
        for bound, ls, inv in negs:
            if True:
                r = run.tlc("TermTrimSgr_MC", SGR_MC % (5, 2, ls, bound, inv), workers=1,
                            label="TermTrimSgr_MC scan bounded to %d runes, lengths {%s} [%s] negative control: must be violated" % (bound, ls, inv))
                if inv not in r.violated:
                    raise Inconclusive("negative control passed: scan bounded to %d runes does not violate %s for lengths {%s}\n%s" % (bound, inv, ls, r.out[-2000:]))
                refuted.append("bounded-scan k=%d lens {%s}: %s" % (bound, ls, inv))
        run.cov["broken_designs_refuted"] = refuted
        return rs

    def b1():
        """TLC enumerates every history of the model (with the model's screens), the real writer replays them,
        TLC judges the real bytes."""
        if quick:
            gens = [gen_cfg([1, 2, 3, 4], both, all_lines, "TextsB3", 2),
                    gen_cfg([2, 3], ["TRUE"], all_lines, "TextsB3", 3),
                    gen_cfg([3], ["FALSE"], [0, 1, 2], "TextsB3", 3),
                    gen_cfg([1, 2, 3, 4, 7], both, [0, 1, 2], "TextsSgr", 2)]
        else:
            gens = [gen_cfg([1, 2, 3, 4], both, all_lines, "TextsB3", 3),
                    gen_cfg([2, 3], ["TRUE"], [0, 1, 2], "TextsB3", 4),
                    gen_cfg([1, 2, 3, 4, 5], both, [0, 1, 2, 3, 4], "TextsB3x", 2),
                    gen_cfg([1, 2, 3, 4, 5, 7, 9], both, [0, 1, 2], "TextsSgr", 3)]
        vec_path = os.path.join(run.scratch, "c20-vectors.ndjson")
        nvec = 0
        with open(vec_path, "w") as f:
            for i, g in enumerate(gens):
                r = run.tlc("TermWriter_Gen", g, workers=2, timeout=3000, label="TermWriter_Gen #%d" % (i + 1))
                if r.violated or r.errors:
                    raise Inconclusive("generator failed: %s" % r.out[-2000:])
                for v in vfj_lines(r.out):
                    f.write(json.dumps(v, separators=(",", ":")) + "\n")
                    nvec += 1
        if nvec < 5000:
            raise Inconclusive("generator produced only %d vectors" % nvec)
        tr = os.path.join(run.scratch, "c20-b1-trace.ndjson")
        st = os.path.join(run.scratch, "c20-b1-stats.json")
        run.drv(["replay", "-in", vec_path, "-out", tr, "-stats", st])
        stats = json.load(open(st))
        if stats["runs"] != nvec:
            raise Inconclusive("replay executed %d of %d vectors" % (stats["runs"], nvec))
        parts = split_trace(tr, 2 if quick else 4, run.scratch, "b1")
        results = parallel([lambda p=p, i=i: validate_part(run, p[0], "Term_Trace B1 part %d" % i) for i, p in enumerate(parts)], 4)
        return stats, parts, results

    def b2():
        tr = os.path.join(run.scratch, "c20-b2-trace.ndjson")
        st = os.path.join(run.scratch, "c20-b2-stats.json")
        if quick:
            args = ["-n", 260, "-long", 3, "-maxlen", 200, "-buf", 100, "-trim", 2000, "-exh", 4]
        else:
            args = ["-n", 3000, "-long", 30, "-maxlen", 200, "-buf", 800, "-trim", 20000, "-exh", 6, "-sgr", 90]
        run.drv(["trace", "-out", tr, "-stats", st] + args)
        stats = json.load(open(st))
        parts = split_trace(tr, 4, run.scratch, "b2")
        results = parallel([lambda p=p, i=i: validate_part(run, p[0], "Term_Trace B2 part %d" % i) for i, p in enumerate(parts)], 4)
        return stats, parts, results

    (_, _, _, b1res, b2res, _) = parallel([b3_writer, b3_small, b3_sgr, b1, b2, lambda: tlaps(run, "TermCursor")], 6)

    # ------------------------------------------------------------------ verdicts
    for origin, (stats, parts, results) in (("b1", b1res), ("b2", b2res)):
        run.cov["traces_validated_against_impl"] += stats["runs"]
        run.cov["evaluations"] += stats["events"]
        run.cov["distinct_nontrivial"] += stats["distinct_nontrivial"]
        run.cov[origin + "_events"] = stats["events"]
        for s in stats.get("samples") or []:
            run.sample({origin + "_history": s})
        for (path, ntr, nev), (_, res) in zip(parts, results):
            report_bad(run, origin, path, res, nev)
    st2 = b2res[0]
    run.cov["b2_breakdown"] = {k: st2[k] for k in ("live", "buffered", "trimcalls", "max_history", "max_line")}
    run.cov["rule"] = ("B3: all behaviours of TermWriter/TermBuffered composed with the Term emulator within the bounds; "
                       "B1: every model history (TermWriter_Gen) replayed on multiterm.New(), real stdout bytes judged by the emulator "
                       "+ oracle and compared with the model's screen after every call; B2: seeded random histories on the in-place "
                       "and buffered writers and WriteLineNoWrap calls (exhaustive token strings + one/two colour sequences of every length 3..48(90) around text + random; "
                       "a third of the random histories/calls carries long colour sequences). "
                       "non-trivial history = moves the cursor up at least once and rewrites a line")

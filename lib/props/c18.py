"""C18 - time helpers agree with the calendar and round-trip."""
import json
import os
import re
import time
from vf import Inconclusive, parallel, require_clean, validate_traces, vfj_lines

CLAIM = {
    "text": "TimeCal.tla writes the calendar in pure integer arithmetic on (epoch day, second of day): civil date <-> day number, weekday, "
            "ISO 8601 week and week-year, quarter = (month-1)/3+1; the zones UTC, fixed offsets (Etc/GMT+-h, Asia/Kolkata) and three "
            "rule zones written out with their validity interval (America/New_York from 2007, Europe/Berlin from 1996, Australia/Sydney "
            "from 2008); Format for every named layout of timeformat (ANSIC .. RFC3339N, NGINX, MONTH .. WDAY), the bucket layouts and "
            "custom layouts; a strict ParseM; the h/m/s duration grammar. TLC proves on the model: the calendar functions are inverse and "
            "successive for every day 1969-2101, ISO week = week of its Thursday in 1..53 changing on Mondays only, quarter in 1..4 with "
            "January-March = 1, DST offsets change only at the two rule instants of a year (local Sundays), Parse(Format(t)) = t truncated "
            "to the layout's precision for every layout with date, time and numeric offset, every one-character corruption is rejected, "
            "DurParse(DurText(n)) = n. TLC enumerates instants within seconds of every local month/quarter/year, ISO-week-year and DST "
            "boundary x zones x formats/attributes/buckets with the expected text, the real expression compiler evaluates each call; "
            "seeded random instants, the nested round trip {time {timeformat t F Z} F Z}, corrupted inputs and durations are recorded "
            "from the real code and every record is validated by TLC against TimeCal.Expect.",
    "note": "Bounded: instants 1970-2100 whole seconds; quick tier subsamples years/zones by VERIF_SEED (thorough: every year). The host tz "
            "database is trusted outside the modelled zones; zone abbreviations of the modelled zones are taken as printed by tzdata (EST/EDT, "
            "CET/CEST, AEST/AEDT, IST, +14 ..). ParseM is strict (widths and spellings Format prints); a text the strict parser rejects is "
            "demanded to give <PARSE-ERROR> only for the generated classes (one character replaced, truncated, extended, impossible date or "
            "clock fields). Local times repeated or skipped by a DST change, two-digit years outside 1969-2068, sub-second or decimal "
            "durations and 'auto'/'cache' detection on anything but RFC3339 text are outside the domain. Trusted: TLC, the Go runtime's time "
            "package is NOT trusted inside the modelled zones (the expected text is computed by TLC).",
    "technique": "TLA+ functional specification model-checked with TLC (calendar, DST and round-trip laws) + model-generated boundary vectors "
                 "replayed on the real code + TLC validation of recorded evaluations",
}

os.environ.setdefault("JAVA_TOOL_OPTIONS", "-XX:ParallelGCThreads=2")


def _sig(rec):
    f = rec["f"]
    name = ""
    if f in ("timeformat", "time", "rt"):
        name = rec.get("fmt", "")
    elif f in ("timeattr", "buckettime", "bucketrt"):
        name = rec.get("b", "").lower()
    if not name:
        return f
    if not re.fullmatch(r"[A-Za-z0-9]+", name):
        return f + ":custom"
    return f + ":" + name


def _txt(a):
    return bytes(a).decode("latin1")


def check(run):
    try:
        _check(run)
    except Inconclusive:
        raise
    except Exception as e:  # infrastructure trouble is never a verdict
        import traceback
        raise Inconclusive("c18 check failed: %s\n%s" % (e, traceback.format_exc()))


def _check(run):
    quick = run.tier == "quick"
    run.assumptions += [
        "domain (TimeCal.tla): unix seconds 0 .. 2100-12-31T23:59:59Z; zones UTC, Etc/GMT+5, Etc/GMT+12, Etc/GMT-3, Etc/GMT-14, Asia/Kolkata, "
        "America/New_York (from 2007), Europe/Berlin (from 1996), Australia/Sydney (from 2008); outside: only 'returns'",
        "time / buckettime with a layout without offset: the text is read in the zone argument; repeated and skipped local hours are outside the domain",
        "two-digit-year layouts (RFC822, RFC822Z) carry the year only within 1969..2068 (Go's pivot); the round trip is demanded there",
        "duration: (digits unit)+ with units h, m, s, optional sign, at most 10^9 s; decimal fractions and ns/us/ms units are outside the domain",
        "zone abbreviations (MST field) of the modelled zones are those of the IANA database; the tz database itself is trusted for every other zone",
        "bucket / attribute / format names are used in their documented spelling (case variants are outside the domain)",
    ]
    run.build_harness()
    seed = run.seed

    # ---- B3: the calendar / DST / round-trip / duration laws on the model
    def b3():
        cfg = "INIT Init\nNEXT Next\nCONSTANTS Thorough = %s\nINVARIANTS LawOK\nCHECK_DEADLOCK FALSE\n" % ("FALSE" if quick else "TRUE")
        r = run.tlc("TimeCal_MC", cfg, workers=3 if quick else 4, timeout=3000, xmx="4g",
                    label="TimeCal_MC laws Thorough=%s" % (not quick))
        require_clean(run, r, "TimeCal_MC (laws)")
        if r.distinct < 80000:
            raise Inconclusive("law check explored only %d cases" % r.distinct)
        return r

    # ---- B1: TLC enumerates boundary instants x zones x calls with the expected text; the real compiler evaluates them
    nparts = 1 if quick else 6
    replay = {"lines": 0, "runs": 0, "outside": 0, "distinct": 0, "per_func": {}, "mism": [], "counts": {}, "samples": []}

    def b1_part(part):
        time.sleep(0.3 * part)
        cfg = ("INIT Init\nNEXT Next\nCONSTANTS Thorough = %s\n Seed = %d\n Part = %d\n NParts = %d\nINVARIANTS Dump\nCHECK_DEADLOCK FALSE\n"
               % ("FALSE" if quick else "TRUE", seed, part, nparts))
        r = run.tlc("TimeCal_Gen", cfg, workers=3 if quick else 2, timeout=3000, xmx="4g",
                    label="TimeCal_Gen part %d/%d Thorough=%s" % (part, nparts, not quick))
        if r.violated or r.errors or not r.finished:
            raise Inconclusive("generator failed: %s" % r.out[-2000:])
        vec_path = os.path.join(run.scratch, "c18-vectors-%d.ndjson" % part)
        res_path = os.path.join(run.scratch, "c18-replay-%d.json" % part)
        n = 0
        with open(vec_path, "w") as f:
            for v in vfj_lines(r.out):
                f.write(json.dumps(v, separators=(",", ":")) + "\n")
                n += 1
        r.out = r.out[-4000:]
        if n < (2000 if quick else 5000):
            raise Inconclusive("generator produced only %d vector lines" % n)
        run.drv(["replay", "-in", vec_path, "-out", res_path])
        res = json.load(open(res_path))
        os.remove(vec_path)
        return res

    # ---- B2: seeded random instants, round trips, corrupted inputs, durations: recorded from the real code, validated by TLC
    b2_trace = os.path.join(run.scratch, "c18-b2-trace.ndjson")

    def b2():
        run.drv(["trace", "-out", b2_trace, "-n", 300 if quick else 6000])
        b2_lines = open(b2_trace).read().splitlines()
        lines = list(b2_lines)
        # canary: corrupted copies of real records; TLC must reject them (guards against a vacuous validation)
        for ln in b2_lines[:4000:13]:
            rec = json.loads(ln)
            rec["got"] = rec["got"] + [48]
            rec["canary"] = True
            lines.append(json.dumps(rec, separators=(",", ":")))
        k = 2 if quick else 8
        per = (len(lines) + k - 1) // k
        chunks = []
        for i in range(k):
            part = lines[i * per:(i + 1) * per]
            if not part:
                continue
            p = os.path.join(run.scratch, "c18-chunk-%d.ndjson" % i)
            with open(p, "w") as f:
                f.write("\n".join(part) + "\n")
            chunks.append((i, p, part))

        def val(i, p):
            time.sleep(0.4 * i + 0.15)   # run.tlc numbers its working directories without a lock
            return validate_traces(run, "TimeCal_Trace", p, label="TimeCal_Trace chunk %d" % i, timeout=3000, xmx="3g")

        return b2_lines, chunks, parallel([lambda i=i, p=p: val(i, p) for i, p, _ in chunks], k)

    if quick:
        _, parts, (b2_lines, chunks, results) = parallel([b3, lambda: [b1_part(0)], b2], 3)
    else:
        # at most 8 TLC workers at a time: the traces first (8 x 1), then the laws (4) next to the generator parts (2 x 2)
        b2_lines, chunks, results = b2()
        _, parts = parallel([b3, lambda: parallel([lambda p=p: b1_part(p) for p in range(nparts)], 2)], 2)

    for res in parts:
        replay["lines"] += res["lines"]
        replay["runs"] += res["runs"]
        replay["outside"] += res["outside_domain"]
        replay["distinct"] += res["distinct"]
        for k_, v in res["per_func"].items():
            replay["per_func"][k_] = replay["per_func"].get(k_, 0) + v
        for k_, v in res["mismatch_counts"].items():
            replay["counts"][k_] = replay["counts"].get(k_, 0) + v
        replay["mism"] += res["mismatches"] or []
        replay["samples"] += res["samples"] or []
    if replay["runs"] < (100000 if quick else 1000000):
        raise Inconclusive("only %d generated calls were replayed" % replay["runs"])
    run.cov["b1_vector_lines"] = replay["lines"]
    run.cov["b1_evaluations"] = replay["runs"]
    run.cov["b1_calls_outside_domain"] = replay["outside"]
    run.cov["b1_per_function"] = replay["per_func"]
    run.cov["traces_validated_against_impl"] += replay["runs"]
    run.cov["evaluations"] += replay["runs"]
    run.cov["distinct_nontrivial"] += replay["distinct"]
    for s in replay["samples"][:4]:
        run.sample({"b1": s})
    for m in replay["mism"]:
        run.violation("b1:" + m["sig"],
                      "%s with {0} = %r (optimise=%s, group %s) evaluates to %r%s%s; TimeCal.tla expects %r (%d such calls disagree)" % (
                          m["template"], m["input"], m["opt"], m["g"], m["got"], " (compile error)" if m["cerr"] else "",
                          " PANIC " + m["panic"] if m["panic"] else "", m["expect"], replay["counts"].get(m["sig"], 1)), m)

    consumed = nontrivial = canary = canary_rejected = 0
    for (i, p, part), (r, _) in zip(chunks, results):
        canary += sum(1 for ln in part if '"canary":true' in ln)
        if r["consumed"] != len(part) or not r["done"]:
            raise Inconclusive("trace chunk %d: consumed %d of %d records" % (i, r["consumed"], len(part)))
        consumed += r["consumed"]
        nontrivial += r["nontrivial"]
        for bad in r["bad"]:
            rec = json.loads(part[bad["l"] - 1])
            if rec.get("canary"):
                canary_rejected += 1
                continue
            run.violation("b2:" + _sig(rec),
                          "recorded evaluation %s(x=%r, fmt=%r, zone=%r, b=%r, %d arguments, x as %s) = %r%s%s is rejected by TimeCal.tla" % (
                              rec["f"], _txt(rec["x"]), rec["fmt"], rec["z"], rec["b"], rec["n"],
                              "constant" if rec["p"] == "c" else "match group", _txt(rec["got"]),
                              " (compile error)" if rec["cerr"] else "", " PANIC" if rec["panic"] else ""), rec)
    if canary_rejected * 5 < canary * 3:
        raise Inconclusive("trace validation rejected only %d of %d deliberately corrupted records" % (canary_rejected, canary))
    run.cov["b2_corrupted_records_rejected"] = "%d of %d" % (canary_rejected, canary)
    consumed -= canary
    run.cov["b2_records"] = consumed
    run.cov["b2_records_inside_domain"] = nontrivial - canary_rejected
    run.cov["b2_round_trips"] = sum(1 for ln in b2_lines if '"f":"rt"' in ln)
    run.cov["traces_validated_against_impl"] += consumed
    run.cov["evaluations"] += consumed
    for ln in b2_lines[:400:171]:
        run.sample({"b2_record": json.loads(ln)})
    if nontrivial * 2 < consumed:
        raise Inconclusive("only %d of %d recorded evaluations are inside the specified domain" % (nontrivial, consumed))
    run.cov["rule"] = ("B3: every case of every law in TimeCal_MC; B1: every generated call with a demanded result (distinct = distinct "
                       "(function, format, bucket/attribute, zone, input) tuples); B2: one record per evaluation, non-trivial = the "
                       "specification demands an exact text")

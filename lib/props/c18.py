"""C18 - time helpers agree with the calendar and round-trip."""
import json
import os
import re
import threading
import time
from vf import Inconclusive, parallel, require_clean, validate_traces, vfj_lines

CLAIM = {
    "text": "TimeCal.tla writes the calendar in pure integer arithmetic on (epoch day, second of day): civil date <-> day number, weekday, "
            "ISO 8601 week and week-year, quarter = (month-1)/3+1; the zones UTC, fixed offsets (Etc/GMT+-h, Asia/Kolkata) and three "
            "rule zones written out with their validity interval (America/New_York from 2007, Europe/Berlin from 1996, Australia/Sydney "
            "from 2008); Format for every named layout of timeformat (ANSIC .. RFC3339N, NGINX, MONTH .. WDAY), the bucket layouts and "
            "custom layouts; a strict ParseM; the h/m/s duration grammar. TLC proves on the model: the calendar functions are inverse and "
            "successive for every day 1969-2101, ISO week = week of its Thursday in 1..53 changing on Mondays only, quarter in 1..4 with "
            "January-March = 1, DST offsets change only at the two rule instants of a year (local Sundays), Parse(Format(t)) = t truncated "
            "to the layout's precision for every layout with date, time and numeric offset, every one-character corruption is rejected, "
            "DurParse(DurText(n)) = n. TLC enumerates instants within seconds of every local month/quarter/year, ISO-week-year and DST "
            "boundary x zones x formats/attributes/buckets with the expected text, the real expression compiler evaluates each call; "
            "seeded random instants, the nested round trip {time {timeformat t F Z} F Z}, corrupted inputs and durations are recorded "
            "from the real code and every record is validated by TLC against TimeCal.Expect. "
            "HISTORIES (TimeCalHist.tla): rare compiles an expression once and evaluates it for every match; Step(e, live, x) says what the "
            "i-th evaluation of ONE compiled expression returns: every helper is a function of its arguments only (the answer of a freshly "
            "compiled expression), except `time`/`buckettime` with the format omitted or 'cache', which carry exactly the documented state - "
            "the first date seen fixes the layout for ever (later texts of another shape are unparseable: the error marker); 'auto' detects "
            "each time. TLC checks on every history up to length 3 over adversarial pools (to the second around local midnights that start a "
            "year/quarter/ISO-year/week - same UTC day on both sides -, around the nearest UTC midnight - same local day on both sides -, "
            "around both DST changes, a week/52 weeks/a year apart; texts of all shapes, garbage, empty) the laws ArgsOnly, DayFn (timeattr "
            "depends on the local day only), FirstSeen, Homogeneous, with controls: a memo of the last timeattr answer keyed by the local day "
            "satisfies them, keyed by the UTC day it satisfies them in zone UTC and TLC finds a violating history otherwise, a timeformat memo "
            "keyed by the hour and a 'cache' that detects again are rejected. B1: TLC generates, per expression and pool, the history in which "
            "every ordered pair of pool inputs is evaluated back to back (K*K+1 evaluations) with the expected answers; the driver replays it on "
            "ONE compiled expression - optimised and unoptimised, sequentially and from 4 goroutines. B2: one compiled expression per stream is "
            "fed random hourly (and finer/coarser, partly out-of-order) streams across boundaries in all 10 zones, printed texts, and texts of "
            "changing shape; TLC replays Step over each recorded history. "
            "ZONES AS TRANSITION TABLES (TimeCal.TableZone, TimeTab.tla): a supported zone is, in general, the sorted table of the instants at which its "
            "UTC offset or name changes; offset(t) is the table lookup, the calendar fields are the civil date and clock of t + offset(t), the bucket of "
            "t is those fields truncated in the zone's own wall clock (BucketStart - never re-built through a constructor), a zone-less text denotes the "
            "instants whose reading it is (none in a gap, two in an overlap). The tables of 19 IANA zones (midnight / first-of-month DST changes: "
            "Havana, Santiago, Asuncion, Beirut, Sao_Paulo, Cairo; no DST now but another offset earlier: Shanghai, Seoul, Hong_Kong, Moscow, Istanbul; "
            "New_York and Berlin back to 1970, Lord_Howe (30-minute DST), Kathmandu (+5:45), Apia (date line 2011), Etc/GMT+5, Etc/GMT-14, UTC) are read "
            "by the driver from Go's time package (LoadLocation + Zone() sampling and bisection, not through the code under test) and handed to TLC as "
            "data. TimeTab_MC: on generated tables (4 standard offsets x 30/60-minute DST x changes at local 00:00/02:00 x mid-month/first-of-month, "
            "northern/southern, a 24 h date-line jump, a moving standard offset, a name-only change, a fixed zone) and on every transition of the host "
            "tables TLC checks OffsetLaw (lookup total, piecewise constant, binary search = definition), MonoLaw, JumpLaw (gap: no reading, overlap: two), "
            "BucketLaw (a bucket never starts after its instant, holds it, its text is the prefix of timeformat of the same instant - day bucket = date "
            "part), RtLaw, AttrLaw, RuleAgree (host tables of New York >= 2007 and Berlin >= 1996 equal the rule zones); controls refuted by TLC: the bucket "
            "start re-built through a normalising constructor (time.Date's resolution) and a zone flattened to its current-year offset. B1 (TimeTab_Gen): "
            "for EVERY transition of every table the instants t-1, t, the next local day start (and, for a seed-dependent tenth - all when thorough - "
            "t+1, +-1 h, +-1 day and the local day/month/quarter/year starts next to it) x timeformat layouts, all attributes, time and buckettime of the "
            "zone-less wall clock for every bucket size, the nested round trips, all with the zone argument; B2 (c18 ztrace, TimeTab_Trace): random, "
            "near-transition and near-local-midnight instants recorded from the real code and validated by TLC against the tables.",
    "note": "Table zones: 19 listed IANA zones (those the host has), not every zone of the database; two changes of one zone within 3 hours would "
            "be reported by the driver as an error (none occurs). Bounded: instants 1970-2100 whole seconds; quick tier subsamples years/zones by VERIF_SEED (thorough: every year). The host tz "
            "database is trusted outside the modelled zones; zone abbreviations of the modelled zones are taken as printed by tzdata (EST/EDT, "
            "CET/CEST, AEST/AEDT, IST, +14 ..). ParseM is strict (widths and spellings Format prints); a text the strict parser rejects is "
            "demanded to give <PARSE-ERROR> only for the generated classes (one character replaced, truncated, extended, impossible date or "
            "clock fields). Local times repeated or skipped by a DST change, two-digit years outside 1969-2068, sub-second or decimal "
            "durations are outside the domain. Format detection ('auto', 'cache', omitted) is demanded for five unmistakable shapes only (RFC3339 with Z / with "
            "offset, 2006-01-02 15:04:05 with and without -0700, RFC1123Z), for digit-free garbage and the empty text; after a first text outside these "
            "the remembered format is unknown and nothing is demanded; a Z text after an offset text (and vice versa) under 'cache' is left open. "
            "Histories: pools of at most 9 inputs, every ordered pair consecutive (longer-range interference only through the random streams); the "
            "concurrent replay (4 goroutines) can only observe interference that actually occurs in the run. Trusted: TLC, the Go runtime's time "
            "package is NOT trusted inside the modelled zones (the expected text is computed by TLC).",
    "technique": "TLA+ functional specification model-checked with TLC (calendar, DST and round-trip laws) + model-generated boundary vectors "
                 "replayed on the real code + TLC validation of recorded evaluations; state machine over evaluation histories of one compiled "
                 "expression with negative controls, TLC-generated all-pairs histories replayed on one compiled expression (sequential and "
                 "concurrent), TLC validation of recorded random streams; zones as transition tables handed to TLC as data (host zoneinfo), laws "
                 "with refuted design controls, vectors around every transition replayed on the real code, recorded evaluations validated by TLC",
}

os.environ.setdefault("JAVA_TOOL_OPTIONS", "-XX:ParallelGCThreads=2")


class _Slots:
    """at most `n` TLC workers at a time, whatever the number of jobs submitted"""

    def __init__(self, n):
        self.free = n
        self.cv = threading.Condition()

    def take(self, k):
        slots = self

        class _Ctx:
            def __enter__(self):
                with slots.cv:
                    while slots.free < k:
                        slots.cv.wait()
                    slots.free -= k

            def __exit__(self, *a):
                with slots.cv:
                    slots.free += k
                    slots.cv.notify_all()
        return _Ctx()


def _sig(rec):
    f = rec["f"]
    name = ""
    if f in ("timeformat", "time", "rt"):
        name = rec.get("fmt", "")
    elif f in ("timeattr", "buckettime", "bucketrt"):
        name = rec.get("b", "").lower()
    if not name:
        return f
    if not re.fullmatch(r"[A-Za-z0-9]+", name):
        return f + ":custom"
    return f + ":" + name


def _txt(a):
    return bytes(a).decode("latin1")


def check(run):
    try:
        _check(run)
    except Inconclusive:
        raise
    except Exception as e:  # infrastructure trouble is never a verdict
        import traceback
        raise Inconclusive("c18 check failed: %s\n%s" % (e, traceback.format_exc()))


def _check(run):
    quick = run.tier == "quick"
    run.assumptions += [
        "domain (TimeCal.tla): unix seconds 0 .. 2100-12-31T23:59:59Z; zones UTC, Etc/GMT+5, Etc/GMT+12, Etc/GMT-3, Etc/GMT-14, Asia/Kolkata, "
        "America/New_York (from 2007), Europe/Berlin (from 1996), Australia/Sydney (from 2008); outside: only 'returns'",
        "time / buckettime with a layout without offset: the text is read in the zone argument; repeated and skipped local hours are outside the domain",
        "two-digit-year layouts (RFC822, RFC822Z) carry the year only within 1969..2068 (Go's pivot); the round trip is demanded there",
        "duration: (digits unit)+ with units h, m, s, optional sign, at most 10^9 s; decimal fractions and ns/us/ms units are outside the domain",
        "zone abbreviations (MST field) of the modelled zones are those of the IANA database; the tz database itself is trusted for every other zone",
        "bucket / attribute / format names are used in their documented spelling (case variants are outside the domain)",
        "format detection ('auto', 'cache', format omitted): demanded for the shapes rfc3339 (Z / +hh:mm), 'YYYY-MM-DD hh:mm:ss' with and without "
        "-hhmm, RFC1123Z, for texts made of x # ? only and for the empty text; 'the first seen date determines the format' is read as: a later "
        "text of a different one of these shapes yields the error marker; Z after +hh:mm (and vice versa) is left open",
        "table zones (TimeTab.tla): the transition tables (instants, offsets, abbreviations) of the listed IANA zones are read from the host's zoneinfo "
        "database through Go's time package (time.LoadLocation + Zone(), every change located by sampling every 3 h and bisection, cross-checked "
        "against 20000 random lookups) - the zoneinfo database and that lookup are the trusted base; civil date, clock, weekday, ISO week, quarter, "
        "formatting, parsing and bucket truncation are computed by TLC. Zones the host does not have and zones with an offset that is not whole minutes "
        "are skipped (inconclusive only if no listed zone with transitions loads). A zone-less text that is the reading of no instant (gap) or of two "
        "(overlap) is outside the domain of `time`; `buckettime` of an overlap text is demanded (both readings carry the same wall clock)",
        "a compiled expression may be evaluated by several goroutines at once (rare's extractor workers share it): helpers that remember "
        "nothing must answer as a fresh expression from every goroutine",
    ]
    run.build_harness()
    seed = run.seed
    slots = _Slots(6 if quick else 8)

    # ---- zones as transition tables: the tables of the host's IANA zones, read by the driver from Go's time package
    zones_path = os.path.join(run.scratch, "c18-zones.json")
    run.drv(["zonetab", "-out", zones_path])
    zfile = json.load(open(zones_path))
    ztrans = sum(len(z["tab"]) - 1 for z in zfile["zones"])
    if not [z for z in zfile["zones"] if len(z["tab"]) > 1]:
        raise Inconclusive("none of the listed IANA zones with transitions loads on this host (skipped: %s)" % zfile["skipped"])
    run.cov["table_zones"] = {z["name"]: len(z["tab"]) - 1 for z in zfile["zones"]}
    run.cov["table_zones_skipped"] = zfile["skipped"]
    zfiles = [("zones.json", zones_path)]

    def z_b3():
        def mc(design, workers, label):
            cfg = ("INIT Init\nNEXT Next\nCONSTANTS Thorough = %s\n Seed = %d\n Design = \"%s\"\nINVARIANTS LawOK\nCHECK_DEADLOCK FALSE\n"
                   % ("FALSE" if quick else "TRUE", seed, design))
            with slots.take(workers):
                return run.tlc("TimeTab_MC", cfg, files=zfiles, workers=workers, timeout=3000, xmx="4g", label=label)

        def main():
            r = mc("spec", 3, "TimeTab_MC laws of table zones (generated tables + %d host transitions)" % ztrans)
            require_clean(run, r, "TimeTab_MC (table zone laws)")
            if r.distinct < 6000:
                raise Inconclusive("table zone law check explored only %d cases" % r.distinct)
            return r

        def controls():
            for design in ("rebuild", "flat"):
                rc = mc(design, 1, "TimeTab_MC control Design=%s (must violate LawOK)" % design)
                other = [e for e in rc.errors if "Invariant LawOK is violated" not in e and "The behavior up to this point" not in e]
                if other or rc.violated != ["LawOK"]:
                    raise Inconclusive("table zone control Design=%s: expected a violation of LawOK, TLC says violated=%s errors=%s" % (
                        design, rc.violated, rc.errors[:2]))

        r, _ = parallel([main, controls], 2)
        run.cov["table_zone_controls"] = ("bucket start re-built through a normalising constructor: BucketLaw violated where a zone skips the first "
                                          "second of a day/month; zone without DST in the current year flattened to a fixed offset: OffsetLaw violated")
        return r

    def z_b1():
        cfg = ("INIT Init\nNEXT Next\nCONSTANTS Thorough = %s\n Seed = %d\nINVARIANTS Dump\nCHECK_DEADLOCK FALSE\n"
               % ("FALSE" if quick else "TRUE", seed))
        with slots.take(3):
            r = run.tlc("TimeTab_Gen", cfg, files=zfiles, workers=3, timeout=3000, xmx="6g",
                        label="TimeTab_Gen (every transition of %d table zones) Thorough=%s" % (len(zfile["zones"]), not quick))
        if r.violated or r.errors or not r.finished:
            raise Inconclusive("table zone generator failed: %s" % r.out[-2000:])
        vec_path = os.path.join(run.scratch, "c18-zvectors.ndjson")
        res_path = os.path.join(run.scratch, "c18-zreplay.json")
        n = 0
        with open(vec_path, "w") as f:
            for v in vfj_lines(r.out):
                f.write(json.dumps(v, separators=(",", ":")) + "\n")
                n += 1
        r.out = r.out[-4000:]
        if n < 2 * ztrans:
            raise Inconclusive("table zone generator produced only %d vector lines for %d transitions" % (n, ztrans))
        run.drv(["replay", "-in", vec_path, "-out", res_path])
        res = json.load(open(res_path))
        os.remove(vec_path)
        return res

    z_trace = os.path.join(run.scratch, "c18-ztrace.ndjson")

    def z_b2():
        run.drv(["ztrace", "-out", z_trace, "-n", 300 if quick else 5000])
        z_lines = open(z_trace).read().splitlines()
        lines = list(z_lines)
        for ln in z_lines[:4000:17]:      # canary: corrupted copies must be rejected
            rec = json.loads(ln)
            rec["got"] = rec["got"] + [48]
            rec["canary"] = True
            lines.append(json.dumps(rec, separators=(",", ":")))
        k = 1 if quick else 6
        per = (len(lines) + k - 1) // k
        zchunks = []
        for i in range(k):
            part = lines[i * per:(i + 1) * per]
            if not part:
                continue
            pth = os.path.join(run.scratch, "c18-zchunk-%d.ndjson" % i)
            with open(pth, "w") as f:
                f.write("\n".join(part) + "\n")
            zchunks.append((i, pth, part))

        def val(i, pth):
            time.sleep(0.4 * i + 0.2)
            cfg = "SPECIFICATION TSpec\nINVARIANTS Final\nCHECK_DEADLOCK FALSE\n"
            with slots.take(1):
                r = run.tlc("TimeTab_Trace", cfg, files=zfiles + [("trace.ndjson", pth)], workers=1, timeout=3000, xmx="3g",
                            label="TimeTab_Trace chunk %d" % i)
            if r.violated or r.errors:
                raise Inconclusive("trace validation TimeTab_Trace failed to run: %s %s\n%s" % (r.violated, r.errors[:3], r.out[-3000:]))
            res = r.json_out("bad.json")
            if res is None:
                raise Inconclusive("trace validation TimeTab_Trace wrote no result\n%s" % r.out[-3000:])
            return res, r

        return z_lines, zchunks, parallel([lambda i=i, pth=pth: val(i, pth) for i, pth, _ in zchunks], k)

    # ---- B3: the calendar / DST / round-trip / duration laws on the model
    def b3():
        cfg = "INIT Init\nNEXT Next\nCONSTANTS Thorough = %s\nINVARIANTS LawOK\nCHECK_DEADLOCK FALSE\n" % ("FALSE" if quick else "TRUE")
        with slots.take(3 if quick else 4):
            r = run.tlc("TimeCal_MC", cfg, workers=3 if quick else 4, timeout=3000, xmx="4g",
                        label="TimeCal_MC laws Thorough=%s" % (not quick))
        require_clean(run, r, "TimeCal_MC (laws)")
        if r.distinct < 80000:
            raise Inconclusive("law check explored only %d cases" % r.distinct)
        return r

    # ---- B1: TLC enumerates boundary instants x zones x calls with the expected text; the real compiler evaluates them
    nparts = 1 if quick else 6
    replay = {"lines": 0, "runs": 0, "outside": 0, "distinct": 0, "per_func": {}, "mism": [], "counts": {}, "samples": []}

    def b1_part(part):
        time.sleep(0.3 * part)
        cfg = ("INIT Init\nNEXT Next\nCONSTANTS Thorough = %s\n Seed = %d\n Part = %d\n NParts = %d\nINVARIANTS Dump\nCHECK_DEADLOCK FALSE\n"
               % ("FALSE" if quick else "TRUE", seed, part, nparts))
        with slots.take(3 if quick else 2):
            r = run.tlc("TimeCal_Gen", cfg, workers=3 if quick else 2, timeout=3000, xmx="4g",
                        label="TimeCal_Gen part %d/%d Thorough=%s" % (part, nparts, not quick))
        if r.violated or r.errors or not r.finished:
            raise Inconclusive("generator failed: %s" % r.out[-2000:])
        vec_path = os.path.join(run.scratch, "c18-vectors-%d.ndjson" % part)
        res_path = os.path.join(run.scratch, "c18-replay-%d.json" % part)
        n = 0
        with open(vec_path, "w") as f:
            for v in vfj_lines(r.out):
                f.write(json.dumps(v, separators=(",", ":")) + "\n")
                n += 1
        r.out = r.out[-4000:]
        if n < (2000 if quick else 5000):
            raise Inconclusive("generator produced only %d vector lines" % n)
        run.drv(["replay", "-in", vec_path, "-out", res_path])
        res = json.load(open(res_path))
        os.remove(vec_path)
        return res

    # ---- B2: seeded random instants, round trips, corrupted inputs, durations: recorded from the real code, validated by TLC
    b2_trace = os.path.join(run.scratch, "c18-b2-trace.ndjson")

    def b2():
        run.drv(["trace", "-out", b2_trace, "-n", 300 if quick else 6000])
        b2_lines = open(b2_trace).read().splitlines()
        lines = list(b2_lines)
        # canary: corrupted copies of real records; TLC must reject them (guards against a vacuous validation)
        for ln in b2_lines[:4000:13]:
            rec = json.loads(ln)
            rec["got"] = rec["got"] + [48]
            rec["canary"] = True
            lines.append(json.dumps(rec, separators=(",", ":")))
        k = 2 if quick else 8
        per = (len(lines) + k - 1) // k
        chunks = []
        for i in range(k):
            part = lines[i * per:(i + 1) * per]
            if not part:
                continue
            p = os.path.join(run.scratch, "c18-chunk-%d.ndjson" % i)
            with open(p, "w") as f:
                f.write("\n".join(part) + "\n")
            chunks.append((i, p, part))

        def val(i, p):
            time.sleep(0.4 * i + 0.15)   # run.tlc numbers its working directories without a lock
            with slots.take(1):
                return validate_traces(run, "TimeCal_Trace", p, label="TimeCal_Trace chunk %d" % i, timeout=3000, xmx="3g")

        return b2_lines, chunks, parallel([lambda i=i, p=p: val(i, p) for i, p, _ in chunks], k)

    # ---- histories of ONE compiled expression (TimeCalHist*): B3 laws + controls, B1 generated histories, B2 random streams
    def h_b3():
        def mc(memo, zonesel, workers, label, small=quick):
            cfg = ("INIT Init\nNEXT Next\nCONSTANTS Thorough = %s\n Memo = \"%s\"\n ZoneSel = \"%s\"\nINVARIANTS Law\nCHECK_DEADLOCK FALSE\n"
                   % ("FALSE" if small else "TRUE", memo, zonesel))
            with slots.take(workers):
                return run.tlc("TimeCalHist_MC", cfg, workers=workers, timeout=3000, xmx="4g", label=label)
        def main():
            r = mc("localday", "all", 2 if quick else 4, "TimeCalHist_MC Law, sound memo (local day)")
            require_clean(run, r, "TimeCalHist_MC (history laws, memo keyed by the local day)")
            if r.distinct < (15000 if quick else 300000):
                raise Inconclusive("history law check explored only %d states" % r.distinct)
            if not quick:
                r0 = mc("none", "all", 2, "TimeCalHist_MC Law, the specification itself (quick bounds)", small=True)
                require_clean(run, r0, "TimeCalHist_MC (history laws)")
            return r

        # controls: the law must reject unsound memos and accept the UTC-day memo where it is exact
        def controls():
            for memo, zs, must_fail in (("utcday", "all", True), ("utcday", "utc", False), ("hour", "all", True), ("relearn", "all", True)):
                rc = mc(memo, zs, 1, "TimeCalHist_MC control Memo=%s zones=%s (%s)" % (memo, zs, "must violate Law" if must_fail else "must hold"),
                        small=True)
                other = [e for e in rc.errors if "Invariant Law is violated" not in e and "The behavior up to this point" not in e]
                if other or (must_fail and rc.violated != ["Law"]) or (not must_fail and (rc.violated or not rc.finished)):
                    raise Inconclusive("history law control Memo=%s zones=%s: expected %s, TLC says violated=%s errors=%s" % (
                        memo, zs, "a violation" if must_fail else "no violation", rc.violated, rc.errors[:2]))

        r, _ = parallel([main, controls], 2)
        run.cov["history_law_controls"] = ("memo keyed by local day: Law holds; memo keyed by UTC day: Law holds for zone UTC and is violated "
                                           "otherwise; memo keyed by UTC hour (timeformat): violated; cache re-detecting after a failure: violated")
        return r

    h_nparts = 1 if quick else 4
    hrep = {"histories": 0, "evaluations": 0, "concurrent": 0, "demanded": 0, "stateful": 0, "mism": [], "counts": {}, "samples": [],
            "per_group": {}, "per_func": {}}

    def h_b1(part):
        time.sleep(0.35 * part + 0.1)
        cfg = ("INIT Init\nNEXT Next\nCONSTANTS Thorough = %s\n Seed = %d\n Part = %d\n NParts = %d\nINVARIANTS Dump\nCHECK_DEADLOCK FALSE\n"
               % ("FALSE" if quick else "TRUE", seed, part, h_nparts))
        with slots.take(3 if quick else 2):
            r = run.tlc("TimeCalHist_Gen", cfg, workers=3 if quick else 2, timeout=3000, xmx="4g",
                        label="TimeCalHist_Gen part %d/%d Thorough=%s" % (part, h_nparts, not quick))
        if r.violated or r.errors or not r.finished:
            raise Inconclusive("history generator failed: %s" % r.out[-2000:])
        hp = os.path.join(run.scratch, "c18-hist-%d.ndjson" % part)
        rp = os.path.join(run.scratch, "c18-hreplay-%d.json" % part)
        n = 0
        with open(hp, "w") as f:
            for v in vfj_lines(r.out):
                f.write(json.dumps(v, separators=(",", ":")) + "\n")
                n += 1
        r.out = r.out[-4000:]
        if n < (600 if quick else 3000):
            raise Inconclusive("history generator produced only %d histories" % n)
        run.drv(["hreplay", "-in", hp, "-out", rp, "-rounds", 40 if quick else 12])
        res = json.load(open(rp))
        os.remove(hp)
        if res["histories_not_covering_all_pairs"]:
            raise Inconclusive("%d generated histories do not evaluate every ordered pair of their pool" % res["histories_not_covering_all_pairs"])
        return res

    hs_trace = os.path.join(run.scratch, "c18-streams.ndjson")

    def h_b2():
        run.drv(["stream", "-out", hs_trace, "-n", 110 if quick else 2400])
        s_lines = open(hs_trace).read().splitlines()
        k = 2 if quick else 8
        # chunks end at history boundaries: the trace spec resets the remembered format when a new history begins
        bounds, per, last = [0], (len(s_lines) + k - 1) // k, None
        for idx, ln in enumerate(s_lines):
            h = ln[:ln.index(",")]
            if h != last and idx - bounds[-1] >= per:
                bounds.append(idx)
            last = h
        bounds.append(len(s_lines))
        hchunks = []
        for i in range(len(bounds) - 1):
            part = list(s_lines[bounds[i]:bounds[i + 1]])
            real = len(part)
            # canary: a deliberately corrupted copy of some histories' last answer, as a history of its own
            for ln in part[:real:97]:
                rec = json.loads(ln)
                rec["got"] = rec["got"] + [48]
                rec["h"] = -rec["h"]
                rec["canary"] = True
                part.append(json.dumps(rec, separators=(",", ":")))
            p = os.path.join(run.scratch, "c18-hchunk-%d.ndjson" % i)
            with open(p, "w") as f:
                f.write("\n".join(part) + "\n")
            hchunks.append((i, p, part))

        def val(i, p):
            time.sleep(0.4 * i + 0.25)
            with slots.take(1):
                return validate_traces(run, "TimeCalHist_Trace", p, label="TimeCalHist_Trace chunk %d" % i, timeout=3000, xmx="3g")

        return s_lines, hchunks, parallel([lambda i=i, p=p: val(i, p) for i, p, _ in hchunks], k)

    # every job is submitted at once; `slots` keeps the number of TLC workers at 6 (thorough: 8)
    (_, parts, (b2_lines, chunks, results), _, hparts, (hs_lines, hchunks, hresults), _, zres, (z_lines, zchunks, zresults)) = parallel([
        b3,
        lambda: parallel([lambda p=p: b1_part(p) for p in range(nparts)], 2),
        b2,
        h_b3,
        lambda: parallel([lambda p=p: h_b1(p) for p in range(h_nparts)], 2),
        h_b2,
        z_b3, z_b1, z_b2], 9)

    # ---- table zones: B1
    if zres["runs"] < 40 * ztrans:
        raise Inconclusive("only %d generated calls of the table zones were replayed" % zres["runs"])
    run.cov["b1_table_zone_vector_lines"] = zres["lines"]
    run.cov["b1_table_zone_evaluations"] = zres["runs"]
    run.cov["b1_table_zone_transitions"] = ztrans
    run.cov["b1_table_zone_per_function"] = zres["per_func"]
    run.cov["traces_validated_against_impl"] += zres["runs"]
    run.cov["evaluations"] += zres["runs"]
    run.cov["distinct_nontrivial"] += zres["distinct"]
    for s_ in (zres["samples"] or [])[:2]:
        run.sample({"b1_table_zone": s_})
    for m in zres["mismatches"] or []:
        run.violation("b1:tab:" + m["sig"],
                      "%s with {0} = %r (optimise=%s, group %s) evaluates to %r%s%s; TimeTab.tla (the zone as the transition table of the host's "
                      "zoneinfo) expects %r (%d such calls disagree)" % (
                          m["template"], m["input"], m["opt"], m["g"], m["got"], " (compile error)" if m["cerr"] else "",
                          " PANIC " + m["panic"] if m["panic"] else "", m["expect"], zres["mismatch_counts"].get(m["sig"], 1)), m)

    # ---- table zones: B2
    zconsumed = znontrivial = zcanary = zcanary_rejected = 0
    zbad_per_sig = {}
    for (i, pth, part), (r, _) in zip(zchunks, zresults):
        zcanary += sum(1 for ln in part if '"canary":true' in ln)
        if r["consumed"] != len(part) or not r["done"]:
            raise Inconclusive("table zone trace chunk %d: consumed %d of %d records" % (i, r["consumed"], len(part)))
        zconsumed += r["consumed"]
        znontrivial += r["nontrivial"]
        for bad in r["bad"]:
            rec = json.loads(part[bad["l"] - 1])
            if rec.get("canary"):
                zcanary_rejected += 1
                continue
            sg = "b2:tab:" + _sig(rec)
            zbad_per_sig[sg] = zbad_per_sig.get(sg, 0) + 1
            if zbad_per_sig[sg] > 5:
                continue
            run.violation(sg,
                          "recorded evaluation %s(x=%r, fmt=%r, zone=%r, b=%r, %d arguments) = %r%s%s is rejected by TimeTab.tla (zone = its "
                          "transition table)" % (rec["f"], _txt(rec["x"]), rec["fmt"], rec["z"], rec["b"], rec["n"], _txt(rec["got"]),
                                                 " (compile error)" if rec["cerr"] else "", " PANIC" if rec["panic"] else ""), rec)
    if zcanary_rejected * 5 < zcanary * 3:
        raise Inconclusive("table zone trace validation rejected only %d of %d deliberately corrupted records" % (zcanary_rejected, zcanary))
    zconsumed -= zcanary
    run.cov["b2_table_zone_records"] = zconsumed
    run.cov["b2_table_zone_records_inside_domain"] = znontrivial - zcanary_rejected
    run.cov["b2_table_zone_corrupted_records_rejected"] = "%d of %d" % (zcanary_rejected, zcanary)
    run.cov["traces_validated_against_impl"] += zconsumed
    run.cov["evaluations"] += zconsumed
    if z_lines:
        run.sample({"b2_table_zone_record": json.loads(z_lines[len(z_lines) // 3])})
    if znontrivial * 2 < zconsumed:
        raise Inconclusive("only %d of %d recorded table zone evaluations are inside the specified domain" % (znontrivial, zconsumed))

    for res in parts:
        replay["lines"] += res["lines"]
        replay["runs"] += res["runs"]
        replay["outside"] += res["outside_domain"]
        replay["distinct"] += res["distinct"]
        for k_, v in res["per_func"].items():
            replay["per_func"][k_] = replay["per_func"].get(k_, 0) + v
        for k_, v in res["mismatch_counts"].items():
            replay["counts"][k_] = replay["counts"].get(k_, 0) + v
        replay["mism"] += res["mismatches"] or []
        replay["samples"] += res["samples"] or []
    if replay["runs"] < (100000 if quick else 1000000):
        raise Inconclusive("only %d generated calls were replayed" % replay["runs"])
    run.cov["b1_vector_lines"] = replay["lines"]
    run.cov["b1_evaluations"] = replay["runs"]
    run.cov["b1_calls_outside_domain"] = replay["outside"]
    run.cov["b1_per_function"] = replay["per_func"]
    run.cov["traces_validated_against_impl"] += replay["runs"]
    run.cov["evaluations"] += replay["runs"]
    run.cov["distinct_nontrivial"] += replay["distinct"]
    for s in replay["samples"][:4]:
        run.sample({"b1": s})
    for m in replay["mism"]:
        run.violation("b1:" + m["sig"],
                      "%s with {0} = %r (optimise=%s, group %s) evaluates to %r%s%s; TimeCal.tla expects %r (%d such calls disagree)" % (
                          m["template"], m["input"], m["opt"], m["g"], m["got"], " (compile error)" if m["cerr"] else "",
                          " PANIC " + m["panic"] if m["panic"] else "", m["expect"], replay["counts"].get(m["sig"], 1)), m)

    consumed = nontrivial = canary = canary_rejected = 0
    for (i, p, part), (r, _) in zip(chunks, results):
        canary += sum(1 for ln in part if '"canary":true' in ln)
        if r["consumed"] != len(part) or not r["done"]:
            raise Inconclusive("trace chunk %d: consumed %d of %d records" % (i, r["consumed"], len(part)))
        consumed += r["consumed"]
        nontrivial += r["nontrivial"]
        for bad in r["bad"]:
            rec = json.loads(part[bad["l"] - 1])
            if rec.get("canary"):
                canary_rejected += 1
                continue
            run.violation("b2:" + _sig(rec),
                          "recorded evaluation %s(x=%r, fmt=%r, zone=%r, b=%r, %d arguments, x as %s) = %r%s%s is rejected by TimeCal.tla" % (
                              rec["f"], _txt(rec["x"]), rec["fmt"], rec["z"], rec["b"], rec["n"],
                              "constant" if rec["p"] == "c" else "match group", _txt(rec["got"]),
                              " (compile error)" if rec["cerr"] else "", " PANIC" if rec["panic"] else ""), rec)
    if canary_rejected * 5 < canary * 3:
        raise Inconclusive("trace validation rejected only %d of %d deliberately corrupted records" % (canary_rejected, canary))
    run.cov["b2_corrupted_records_rejected"] = "%d of %d" % (canary_rejected, canary)
    consumed -= canary
    run.cov["b2_records"] = consumed
    run.cov["b2_records_inside_domain"] = nontrivial - canary_rejected
    run.cov["b2_round_trips"] = sum(1 for ln in b2_lines if '"f":"rt"' in ln)
    run.cov["traces_validated_against_impl"] += consumed
    run.cov["evaluations"] += consumed
    for ln in b2_lines[:400:171]:
        run.sample({"b2_record": json.loads(ln)})
    if nontrivial * 2 < consumed:
        raise Inconclusive("only %d of %d recorded evaluations are inside the specified domain" % (nontrivial, consumed))
    # ---- histories: B1
    for res in hparts:
        hrep["histories"] += res["histories"]
        hrep["evaluations"] += res["evaluations"]
        hrep["concurrent"] += res["concurrent_evaluations"]
        hrep["demanded"] += res["demanded"]
        hrep["stateful"] += res["stateful_histories"]
        for k_, v in res["per_group"].items():
            hrep["per_group"][k_] = hrep["per_group"].get(k_, 0) + v
        for k_, v in res["per_func"].items():
            hrep["per_func"][k_] = hrep["per_func"].get(k_, 0) + v
        for k_, v in res["mismatch_counts"].items():
            hrep["counts"][k_] = hrep["counts"].get(k_, 0) + v
        hrep["mism"] += res["mismatches"] or []
        hrep["samples"] += res["samples"] or []
    if hrep["evaluations"] < (40000 if quick else 600000) or hrep["demanded"] * 2 < hrep["evaluations"]:
        raise Inconclusive("only %d evaluations (%d demanded) of generated histories were replayed" % (hrep["evaluations"], hrep["demanded"]))
    run.cov["b1_histories"] = hrep["histories"]
    run.cov["b1_histories_per_group"] = hrep["per_group"]
    run.cov["b1_histories_per_function"] = hrep["per_func"]
    run.cov["b1_histories_with_format_memory"] = hrep["stateful"]
    run.cov["b1_history_evaluations_sequential"] = hrep["evaluations"]
    run.cov["b1_history_evaluations_concurrent"] = hrep["concurrent"]
    run.cov["traces_validated_against_impl"] += hrep["histories"]
    run.cov["evaluations"] += hrep["evaluations"] + hrep["concurrent"]
    run.cov["distinct_nontrivial"] += hrep["histories"]
    for s_ in hrep["samples"][:2]:
        run.sample({"b1_history": s_})
    for m in hrep["mism"]:
        run.violation("b1:hist:" + m["sig"],
                      "one compiled %s (optimise=%s, %s replay, group %s): evaluation %d on {0} = %r%s answers %r%s%s; TimeCalHist.tla (TLC) expects %r; "
                      "a freshly compiled expression answers %r (%d such evaluations disagree)" % (
                          m["template"], m["opt"], m["mode"], m["grp"], m["pos"], m["input"],
                          (" right after {0} = %r" % m["before"]) if m["mode"] == "sequential" and m["pos"] > 1 else "",
                          m["got"], " (compile error)" if m["cerr"] else "", " PANIC " + m["panic"] if m["panic"] else "",
                          m["expect"], m["fresh"], hrep["counts"].get(m["sig"], 1)), m)

    # ---- histories: B2
    hconsumed = hnontrivial = hcanary = hcanary_rejected = 0
    for (i, p, part), (r, _) in zip(hchunks, hresults):
        hcanary += sum(1 for ln in part if '"canary":true' in ln)
        if r["consumed"] != len(part) or not r["done"]:
            raise Inconclusive("history trace chunk %d: consumed %d of %d records" % (i, r["consumed"], len(part)))
        hconsumed += r["consumed"]
        hnontrivial += r["nontrivial"]
        for bad in r["bad"]:
            rec = json.loads(part[bad["l"] - 1])
            if rec.get("canary"):
                hcanary_rejected += 1
                continue
            hist = [_txt(json.loads(ln)["x"]) for ln in part if ln.startswith('{"h":%d,' % rec["h"])][:rec["i"]]
            run.violation("b2:hist:" + _sig(rec),
                          "history %d of one compiled %s(fmt=%r, zone=%r, b=%r, %d arguments)%s: evaluation %d on %r answers %r%s%s, which "
                          "TimeCalHist.Step rejects after the inputs %r" % (
                              rec["h"], rec["f"], rec["fmt"], rec["z"], rec["b"], rec["n"],
                              " evaluated from 4 goroutines" if rec["m"] == "c" else "", rec["i"], _txt(rec["x"]), _txt(rec["got"]),
                              " (compile error)" if rec["cerr"] else "", " PANIC" if rec["panic"] else "", hist[-4:-1]),
                          {"record": rec, "history": hist})
    if hcanary_rejected * 5 < hcanary * 3:
        raise Inconclusive("history trace validation rejected only %d of %d deliberately corrupted records" % (hcanary_rejected, hcanary))
    hconsumed -= hcanary
    nstreams = len(set(ln[:ln.index(",")] for ln in hs_lines))
    run.cov["b2_history_corrupted_records_rejected"] = "%d of %d" % (hcanary_rejected, hcanary)
    run.cov["b2_histories"] = nstreams
    run.cov["b2_history_records"] = hconsumed
    run.cov["b2_history_records_inside_domain"] = hnontrivial - hcanary_rejected
    run.cov["b2_history_zones"] = len(set(json.loads(ln)["z"] for ln in hs_lines[::7]))
    run.cov["traces_validated_against_impl"] += nstreams
    run.cov["evaluations"] += hconsumed
    if hs_lines:
        run.sample({"b2_history_record": json.loads(hs_lines[len(hs_lines) // 2])})
    if hnontrivial * 2 < hconsumed:
        raise Inconclusive("only %d of %d recorded history evaluations are inside the specified domain" % (hnontrivial, hconsumed))
    run.cov["rule"] = ("B3: every case of every law in TimeCal_MC; B1: every generated call with a demanded result (distinct = distinct "
                       "(function, format, bucket/attribute, zone, input) tuples); B2: one record per evaluation, non-trivial = the "
                       "specification demands an exact text; histories: one B1 history = every ordered pair of a pool of K adversarial inputs "
                       "evaluated back to back on one compiled expression (K*K+1 evaluations, x2 compilers, + 4 goroutines), one B2 history = "
                       "one compiled expression fed a random stream of 40-90 inputs")

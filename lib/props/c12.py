"""C12 - dissect matching equals its specification; ignore-case only adds matches."""
import glob
import json
import os
import re
from vf import Inconclusive, parallel, require_clean, validate_traces, trace_slice, b2s

CLAIM = {
    "text": "Dissect.tla states the dissect matcher declaratively (pattern syntax with the three documented error classes and the name table; first occurrence of the leading literal, per token the first following occurrence of its trailing literal or the end of the line, skipped tokens, {0}, ordered offsets; ignore-case = case-sensitive result on ASCII-lower-cased pattern and line). TLC proves on the model, for every pattern of the plan (prefix in {'',a,aB,e-acute}, up to 3 tokens, trailing literals {'',:,::,B,e-acute}, capturing/skipped/unclosed/conflicting) and every line over {a,A,b,:,space,e-acute,E-acute} up to the bound plus lines woven around the pattern's literals and the full one-byte fold table: the parse is a sound and complete first-occurrence parse, the line reassembles from it, offsets are well-formed, ignore-case never loses a match and equals the lower-cased case-sensitive result on ASCII, print/parse round trip. DissectImpl.tla models CompileEx (first error wins), the indexIgnoreCase switch, the scan loop and the int pool (IntPool.Get one step per access to the pool header) as a state machine and TLC checks it refines Dissect, that handed-out index slices are disjoint and never change and that Get never slices beyond its slab. DissectShared.tla puts W such instances, all created from ONE compiled pattern and each owned by one worker goroutine, side by side and interleaves them step by step: with a pool per instance (the design) TLC proves Refines / Lifetime / Disjoint / NoPanic ACROSS instances, that matching never writes the compiled pattern, that a worker writes nothing but its own pool, and that the projection on every worker is a behaviour of DissectImpl (the instances are independent, the interleaving is irrelevant); the negative controls - one pool shared by all instances without a lock (each of the four invariants refuted), ignore-case literals lowered lazily inside the shared compiled pattern - are refuted, while a shared pool with non-overlapping calls or with Get under a mutex passes. Every (pattern, flag, line) of the generator is replayed with TLC's verdict on dissect.CompileEx + FindSubmatchIndex using one instance per pattern for thousands of calls (pool refilled repeatedly) with all retained results re-read at the end; random patterns/lines over the small alphabet, printable ASCII and arbitrary bytes (long-lived instances, late re-reads) and `rare filter -d ... [-I] -l -e` runs are recorded and validated by TLC against the specification. Concurrency: W in {2,4,8} goroutines (GOMAXPROCS >= 4), each creating its own instance of one compiled pattern after a common start signal, match 10^5..10^6 pool lines at the same time (also: fresh compiles with very short runs for first-use windows; case-sensitive and ignore-case compilations of one text side by side; extractor.New with 4/8 workers; `rare filter -d ... -w 4|8` over >= 10^5 lines); every distinct (line, result) pair observed - as returned and when re-read thousands of calls later and at the end - is validated by TLC, a process that dies twice is a recorded observation, and the same scenarios run in the -race build where a report with an access inside rare/pkg/matchers/dissect or rare/pkg/slicepool is a violation.",
    "note": "Bounded: exhaustive only within the stated pattern/line bounds; beyond that seeded random traces (lines up to ~300 bytes, up to 9 tokens). A bare % that opens no token, or a % inside a token name, is outside the domain (undocumented). For ignore-case over non-ASCII text the property (and the check) demands only well-formed offsets and 'matches whenever the case-sensitive matcher matches'. Concurrent use of ONE instance by several goroutines is not in scope (documented as not thread-safe); several instances of one compiled pattern are. Concurrency on the real code is sampled (timing dependent); the race detector makes unsynchronised sharing visible independent of timing, but only on the paths the scenarios execute. The interleaving model is sequentially consistent. Trusted: Go strings.Index, TLC.",
    "technique": "TLA+ specification + refinement model checking (TLC, incl. interleaved multi-instance model with negative controls) + model-vector replay + trace validation of sequential and concurrent executions + race detector",
}


def gen_cfg(mode, lite, maxtok, maxsym, maxsym3):
    return ("SPECIFICATION GSpec\nCONSTANTS MaxTok = %d\n MaxSym = %d\n MaxSym3 = %d\n Mode = \"%s\"\n Lite = %s\n"
            "INVARIANTS Laws Dump\nCHECK_DEADLOCK FALSE\n" % (maxtok, maxsym, maxsym3, mode, "TRUE" if lite else "FALSE"))


def impl_cfg(maxcalls, slabres):
    return ("SPECIFICATION Spec\nCONSTANTS PatTexts <- MCPats\n Lines <- MCLines\n PatNos = {1,2,3,4,5,6,7,8,9}\n"
            " ICs = {TRUE, FALSE}\n MaxCalls = %d\n SlabRes = %d\n"
            "INVARIANTS TypeOK NoPanic Lifetime Disjoint Refines CompileOK IndexOK\nCHECK_DEADLOCK FALSE\n" % (maxcalls, slabres))


ALL_INV = "TypeOK NoPanic Lifetime Disjoint Refines"


def shared_cfg(pats, lines, ics, maxcalls, slabres, workers, sharing, schedule, lazy, invs, props):
    return ("SPECIFICATION Spec\nCONSTANTS PatTexts <- MCPats\n Lines <- MCLines\n PatNos = %s\n LineNos = %s\n"
            " ICs = %s\n MaxCalls = %d\n SlabRes = %d\n Workers = %s\n Sharing = \"%s\"\n Schedule = \"%s\"\n Lazy = \"%s\"\n"
            "%s%sCHECK_DEADLOCK FALSE\n" % (pats, lines, ics, maxcalls, slabres, workers, sharing, schedule, lazy,
                                          "INVARIANTS %s\n" % invs if invs else "", "PROPERTIES %s\n" % props if props else ""))


RACE_PKG = re.compile(r"^\s*rare/pkg/(matchers/dissect|slicepool|matchers)\.")


def race_reports(prefix):
    """data race reports (GORACE log_path=prefix) with a racing access in the dissect / slicepool packages or the
    matcher factory wrapper: [(function, report text)]"""
    out = []
    for fn in sorted(glob.glob(prefix + ".*")):
        for rep in open(fn, errors="replace").read().split("=================="):
            if "DATA RACE" not in rep:
                continue
            acc = rep.split("Goroutine ")[0]        # the two access stacks, before the creation stacks
            frames = [l.strip() for l in acc.splitlines() if RACE_PKG.match(l)]
            if frames:
                f = re.sub(r"\[.*\]", "[T]", frames[0])
                f = re.sub(r"\(\)$", "", f).replace("rare/pkg/", "")
                out.append((f, rep.strip()))
    return out


def pat_s(m):
    return "%s%s" % (b2s(m["pat"]), " -I" if m.get("ic") else "")


def check(run):
    quick = run.tier == "quick"
    run.assumptions += [
        "domain: every % in a pattern opens a token (%{) and token names contain no %; other pattern texts are accepted with any outcome",
        "ignore-case over non-ASCII pattern or line: only well-formedness and 'case-sensitive match => match' are demanded",
        "one instance is used by one goroutine at a time (the package documents instances as not thread-safe); any number of instances of one compiled pattern may be created and used concurrently (matchers.Factory is documented thread-safe)",
        "a data race reported by the Go race detector with an access in rare/pkg/matchers/dissect or rare/pkg/slicepool (or in the matcher factory wrapper) while instances match concurrently counts as a violation (Go gives no guarantee for the results of a racy program)",
        "B3/B1 bounds: see tlc_runs (MaxTok, MaxSym = exhaustive line length in symbols, MaxSym3 = the same for 3-token patterns)",
    ]
    run.build_harness()
    rare = run.build_cli()

    # ---- B2 recordings first (cheap), validated below in parallel with the model checking
    tr = os.path.join(run.scratch, "c12-trace.ndjson")
    p = run.drv(["trace", "-out", tr, "-n", 240 if quick else 2500, "-long", 2 if quick else 6,
                 "-longn", 2300 if quick else 5000])
    tstat = json.loads(p.stdout.strip().splitlines()[-1])
    cli = os.path.join(run.scratch, "c12-cli.ndjson")
    p = run.drv(["cli", "-rare", rare, "-out", cli, "-n", 12 if quick else 80, "-dir", run.scratch])
    cstat = json.loads(p.stdout.strip().splitlines()[-1])
    if tstat["matched"] * 5 < tstat["calls"] or cstat["printed"] < cstat["runs"]:
        raise Inconclusive("B2 generators produce too few matches: %s %s" % (tstat, cstat))
    # several instances of one compiled pattern at the same time (own goroutines, extractor.New, rare -w N)
    conc = os.path.join(run.scratch, "c12-conc.ndjson")
    if quick:
        cargs = ["-long", 6, "-n", 100000, "-short", 9, "-rounds", 150, "-ext", 3, "-extn", 100000, "-cli", 2, "-clin", 120000]
    else:
        cargs = ["-long", 18, "-n", 400000, "-short", 30, "-rounds", 400, "-ext", 8, "-extn", 400000, "-cli", 6, "-clin", 400000]
    p = run.drv(["conc", "-out", conc, "-rare", rare, "-dir", run.scratch] + cargs, timeout=3000)
    kstat = json.loads(p.stdout.strip().splitlines()[-1])
    if kstat["gomaxprocs"] < 4 or kstat["matched"] * 5 < kstat["calls"]:
        raise Inconclusive("concurrent B2 recording unusable: %s" % kstat)
    alltr = os.path.join(run.scratch, "c12-all.ndjson")
    with open(alltr, "w") as f:
        f.write(open(tr).read())
        f.write(open(cli).read())
        f.write(open(conc).read())

    # the same scenarios (fewer lines) in the -race build: driver and rare; reports are read below
    def race_job():
        pre = os.path.join(run.scratch, "race", "r")
        os.makedirs(os.path.dirname(pre), exist_ok=True)
        rrare = run.build_cli(race=True)
        rargs = ["-long", 3, "-n", 5000, "-short", 3, "-rounds", 25, "-ext", 2, "-extn", 8000, "-cli", 2, "-clin", 20000] if quick else \
                ["-long", 9, "-n", 30000, "-short", 9, "-rounds", 60, "-ext", 4, "-extn", 40000, "-cli", 4, "-clin", 100000]
        out = os.path.join(run.scratch, "c12-conc-race.ndjson")
        pr = run.drv(["conc", "-out", out, "-rare", rrare, "-dir", os.path.dirname(pre)] + rargs, race=True, timeout=3000,
                     env={"GORACE": "log_path=%s halt_on_error=0 exitcode=0 atexit_sleep_ms=0" % pre})
        return json.loads(pr.stdout.strip().splitlines()[-1]), race_reports(pre)

    # ---- B3 (laws of the specification; refinement of the implementation-shaped model),
    #      B1 generation and B2 validation run side by side (8 TLC workers in total)
    def gen(mode, lite, b, workers, xmx="6g"):
        return lambda: run.tlc("Dissect_Gen", gen_cfg(mode, lite, *b), workers=workers, timeout=3000, xmx=xmx,
                               label="Dissect_Gen %s MaxTok=%d MaxSym=%d MaxSym3=%d%s" % ((mode,) + b + (" lite" if lite else "",)))

    def impl_job(b, pats, workers, cov):
        cfg = impl_cfg(*b).replace("{1,2,3,4,5,6,7,8,9}", pats)
        return lambda: run.tlc("DissectImpl_MC", cfg, workers=workers, timeout=3000, coverage=cov,
                               label="DissectImpl patterns %s x {cs,ic} MaxCalls=%d SlabRes=%d" % ((pats,) + b))

    trace_job = lambda: validate_traces(run, "Dissect_Trace", alltr, invariants=("Final",), xmx="8g", timeout=3000)

    # DissectShared: W instances of one compiled pattern, interleaved step by step.
    #   ("pass", ...)  must hold;  ("neg", ...) is a negative control: TLC must refute exactly the named property
    OWN_PROPS = "CompImmutable WritesOwn OwnRefines"
    def shared_job(kind, label, workers, *cfg, cov=False):
        def job():
            r = run.tlc("DissectShared_MC", shared_cfg(*cfg), workers=workers, timeout=3000, coverage=cov,
                        label="DissectShared %s, Workers=%s%s" % (label, cfg[5], " (negative control: must be refuted)" if kind == "neg" else ""))
            if kind == "pass":
                require_clean(run, r, "DissectShared " + label)
                if cov:
                    zero = [a for a in ("Call", "Prefix", "GetChk", "GetAlloc", "GetCarve", "GetAdvR", "GetAdvW", "Ret0", "TokStep", "Finish")
                            if r.coverage.get("DissectShared." + a, (0, 0))[0] == 0]
                    if zero:
                        raise Inconclusive("vacuous model: DissectShared actions never taken: %s" % zero)
            else:
                want = (cfg[9] or cfg[10]).split()
                if not r.violated or any(v not in want for v in r.violated):
                    raise Inconclusive("negative control %s was not refuted as expected (violated=%s)\n%s" % (label, r.violated, r.out[-2000:]))
            return r
        return job
    def neg_jobs(mc, wk="{1,2}", pats="{2,3}"):
        # one pool shared by all instances, no lock: every one of the four invariants is refuted
        js = [shared_job("neg", "one pool for all instances, no lock: %s" % inv, 1,
                         pats, "{1,2}", "{TRUE, FALSE}", mc, 2, wk, "shared", "any", "none", inv, "")
              for inv in ("Disjoint", "Lifetime", "Refines", "NoPanic")]
        # literals lowered on first use inside the shared compiled pattern
        js.append(shared_job("neg", "lazy lowering, flag published first: Refines", 1,
                             "{7}", "{3,4}", "{TRUE}", mc, 2, wk, "own", "any", "flagfirst", "Refines", ""))
        js.append(shared_job("neg", "lazy lowering, flag published last: CompImmutable", 1,
                             "{7}", "{3,4}", "{TRUE}", mc, 2, wk, "own", "any", "flaglast", "", "CompImmutable"))
        return lambda: [j() for j in js]
    if quick:
        sjobs = [shared_job("pass", "own pools, W=2, patterns {2,3} x {cs,ic}, MaxCalls=2, SlabRes=1", 2,
                            "{2,3}", "{1,2}", "{TRUE, FALSE}", 2, 1, "{1,2}", "own", "any", "none", ALL_INV + " OwnPools", OWN_PROPS, cov=True),
                 shared_job("pass", "one shared pool, calls never overlap (serial), W=2", 1,
                            "{2,3}", "{1,2}", "{TRUE, FALSE}", 2, 2, "{1,2}", "shared", "serial", "none", ALL_INV, "CompImmutable")]
        jobs = [gen("laws", True, (2, 3, 1), 2), gen("dump", True, (3, 3, 1), 3, "8g"),
                impl_job((3, 2), "{1,2,3,4,5,6,7,8,9}", 1, True), trace_job, race_job, neg_jobs(2)] + sjobs
        res = parallel(jobs, 6)
        laws, dump, impl, (tres, _), (rstat, races) = res[:5]
        laws, impl = [laws], [impl]
    else:
        sjobs = [shared_job("pass", "own pools, W=2, patterns {2,3,5,7} x {cs,ic}, MaxCalls=3", 2,
                            "{2,3,5,7}", "{1,2,3}", "{TRUE, FALSE}", 3, 2, "{1,2}", "own", "any", "none", ALL_INV + " OwnPools", OWN_PROPS),
                 shared_job("pass", "own pools, W=3, pattern 2, MaxCalls=2", 2,
                            "{2}", "{1,2}", "{TRUE, FALSE}", 2, 1, "{1,2,3}", "own", "any", "none", ALL_INV + " OwnPools", OWN_PROPS),
                 shared_job("pass", "one shared pool, calls never overlap (serial), W=2, MaxCalls=3", 1,
                            "{2,3}", "{1,2}", "{TRUE, FALSE}", 3, 2, "{1,2}", "shared", "serial", "none", ALL_INV, "CompImmutable"),
                 shared_job("pass", "one shared pool, Get under a mutex, W=2", 2,
                            "{2,3}", "{1,2}", "{TRUE, FALSE}", 3, 2, "{1,2}", "locked", "any", "none", ALL_INV, "CompImmutable"),
                 shared_job("pass", "lazy lowering, flag published last (sequentially consistent model): results still right", 1,
                            "{7}", "{3,4}", "{TRUE}", 3, 2, "{1,2}", "own", "any", "flaglast", ALL_INV, "")]
        jobs = [gen("dump", False, (3, 4, 2), 2, "10g"), gen("laws", False, (3, 4, 2), 2), trace_job,
                gen("laws", False, (1, 6, 1), 2),          # every 0/1-token pattern x every line of up to 6 symbols
                impl_job((4, 2), "{1,2,3,4,5,6,7,8,9}", 2, True), impl_job((5, 3), "{3,5}", 2, False),
                race_job] + sjobs + [neg_jobs(2), neg_jobs(2, "{1,2,3}", "{3,5}")]
        res = parallel(jobs, 5)
        dump, l1, (tres, _), l2, i1, i2, (rstat, races) = res[:7]
        laws, impl = [l1, l2], [i1, i2]
    for r in laws:
        require_clean(run, r, "Dissect laws")
    for r in impl:
        require_clean(run, r, "DissectImpl refinement/lifetime")
    impl = impl[0]
    zero = [a for a, (n, _) in impl.coverage.items() if n == 0 and a.split(".")[1] in ("Call", "Prefix", "GetChk", "GetAlloc", "GetCarve", "GetAdvR", "GetAdvW", "Ret0", "TokStep", "Finish")]
    if zero:
        raise Inconclusive("vacuous model: actions never taken: %s" % zero)
    if dump.violated or dump.errors or not dump.finished:
        raise Inconclusive("vector generator failed: %s" % dump.out[-2000:])

    # ---- B1: replay TLC's verdicts on the real matcher
    vec = os.path.join(run.scratch, "c12-vectors.out")
    with open(vec, "w") as f:
        f.write(dump.out)
    dump.out = ""
    res_path = os.path.join(run.scratch, "c12-replay.json")
    run.drv(["replay", "-in", vec, "-out", res_path, "-minres", 2200, "-maxcalls", 7000 if quick else 20000,
             "-every", 4 if quick else 1, "-deepevery", 41 if quick else 97, "-deepres", 40000 if quick else 80000])
    res = json.load(open(res_path))
    if res["vectors"] < 1000 or res["runs"] < 100000 or res["refilled_instances"] < 500 or res["deep_instances"] < 5:
        raise Inconclusive("replay too small: %s" % {k: res[k] for k in ("vectors", "runs", "refilled_instances")})
    run.cov["traces_validated_against_impl"] += res["runs"]
    run.cov["evaluations"] += res["calls"]
    run.cov["distinct_nontrivial"] += res["distinct_nontrivial"]
    run.cov["b1"] = {k: res[k] for k in ("vectors", "error_vectors", "runs", "calls", "refilled_instances", "deep_instances", "undetermined")}
    for s in res["samples"] or []:
        run.sample({"b1": s})
    for m in res["mismatches"] or []:
        n = (res["counts"] or {}).get(m["kind"], 1)
        # signature: binding : kind : does the pattern or line leave ASCII? (separates the byte-vs-rune class)
        nonascii = any(c >= 128 for c in m["pat"]) or any(c >= 128 for c in m.get("line") or [])
        run.violation("b1:%s:%s" % (m["kind"], "nonascii" if nonascii else "ascii"),
                      "dissect %s on line %s: real code gave %s, specification demands %s (%d cases of this kind)" % (
                          pat_s(m), b2s(m.get("line") or []), m["got"], m["want"], n), m)

    # ---- B2 verdicts
    ntr = tstat["traces"] + cstat["runs"] + kstat["runs"] + rstat["runs"]
    run.cov["traces_validated_against_impl"] += ntr
    run.cov["evaluations"] += tstat["calls"] + kstat["calls"] + kstat["cli_lines"]
    run.cov["distinct_nontrivial"] += tstat["matched"]
    run.cov["b2"] = {"traces": tstat["traces"], "calls": tstat["calls"], "matched": tstat["matched"],
                     "cli_runs": cstat["runs"], "cli_lines_printed": cstat["printed"], "events": tres["consumed"],
                     "concurrent": kstat, "concurrent_race_build": rstat, "race_reports_in_dissect_or_slicepool": len(races)}
    # data races between instances of one compiled pattern (DissectShared!Confined / CompImmutable)
    seen_fn = set()
    for fn, rep in races:
        if fn in seen_fn:
            continue
        seen_fn.add(fn)
        run.violation("race:%s" % fn,
                      "the race detector reports unsynchronised access to shared state while several instances of one "
                      "compiled dissect pattern match concurrently (%d reports): %s" % (len(races), " | ".join(
                          l.strip() for l in rep.splitlines()[:4])), rep)
    with open(alltr) as f:
        run.sample({"b2_trace_head": [json.loads(next(f)) for _ in range(3)]})
    lines = None
    for bad in tres["bad"]:
        if lines is None:
            lines = open(alltr).read().splitlines()
        ev = json.loads(lines[bad["l"] - 1])
        if ev["event"] in ("cli", "ccli"):
            kind, head, path = ev["event"], ev, run.save_replay("cli-%d.json" % bad["t"], ev)
            if kind == "ccli":
                kind = "conc:cli"
                ev = {k: v for k, v in ev.items() if k not in ("lines", "sent")}
        elif ev["event"] in ("cm", "clate", "ccrash"):
            sl = trace_slice(alltr, bad["t"])
            head = json.loads(sl.splitlines()[0])
            kind = "conc:%s:%s" % (head.get("via", "?"), {"cm": "returned", "clate": "late", "ccrash": "crash"}[ev["event"]])
            path = run.save_replay("conc-%d.ndjson" % bad["t"], sl)
        else:
            sl = trace_slice(alltr, bad["t"])
            head = json.loads(sl.splitlines()[0])
            kind = ev["event"] if ev["event"] != "reset" else "compile"
            path = run.save_replay("trace-%d.ndjson" % bad["t"], sl)
        nonascii = any(c >= 128 for c in head["pat"]) or any(c >= 128 for c in ev.get("line") or [])
        run.violation("b2:%s:%s:%s" % (kind, "ic" if head.get("ic") else "cs", "nonascii" if nonascii else "ascii"),
                      "recorded execution is not allowed by Dissect.tla: pattern %s, rejected event %s" % (
                          pat_s(head), json.dumps(ev)[:300]), path)
    run.cov["rule"] = ("B3: all generator patterns x lines within bounds; B1: one (pattern, flag, line) = one case, "
                       "non-trivial = the specification demands a match with at least one capture on a non-empty line; "
                       "B2: one FindSubmatchIndex call / CLI run each, non-trivial = calls that matched; the concurrent "
                       "scenarios count one run per goroutine+instance / extractor run / CLI run and every call as an evaluation "
                       "(compared through the distinct (line, result) pairs observed)")

"""C12 - dissect matching equals its specification; ignore-case only adds matches."""
import json
import os
from vf import Inconclusive, parallel, require_clean, validate_traces, trace_slice, b2s

CLAIM = {
    "text": "Dissect.tla states the dissect matcher declaratively (pattern syntax with the three documented error classes and the name table; first occurrence of the leading literal, per token the first following occurrence of its trailing literal or the end of the line, skipped tokens, {0}, ordered offsets; ignore-case = case-sensitive result on ASCII-lower-cased pattern and line). TLC proves on the model, for every pattern of the plan (prefix in {'',a,aB,e-acute}, up to 3 tokens, trailing literals {'',:,::,B,e-acute}, capturing/skipped/unclosed/conflicting) and every line over {a,A,b,:,space,e-acute,E-acute} up to the bound plus lines woven around the pattern's literals and the full one-byte fold table: the parse is a sound and complete first-occurrence parse, the line reassembles from it, offsets are well-formed, ignore-case never loses a match and equals the lower-cased case-sensitive result on ASCII, print/parse round trip. DissectImpl.tla models CompileEx (first error wins), the indexIgnoreCase switch, the scan loop and the int pool as a state machine and TLC checks it refines Dissect and that handed-out index slices are disjoint and never change. Every (pattern, flag, line) of the generator is replayed with TLC's verdict on dissect.CompileEx + FindSubmatchIndex using one instance per pattern for thousands of calls (pool refilled repeatedly) with all retained results re-read at the end; random patterns/lines over the small alphabet, printable ASCII and arbitrary bytes (long-lived instances, late re-reads) and `rare filter -d ... [-I] -l -e` runs are recorded and validated by TLC against the specification.",
    "note": "Bounded: exhaustive only within the stated pattern/line bounds; beyond that seeded random traces (lines up to ~300 bytes, up to 9 tokens). A bare % that opens no token, or a % inside a token name, is outside the domain (undocumented). For ignore-case over non-ASCII text the property (and the check) demands only well-formed offsets and 'matches whenever the case-sensitive matcher matches'. Concurrent use of one instance is not in scope (documented as not thread-safe). Trusted: Go strings.Index, TLC.",
    "technique": "TLA+ specification + refinement model checking (TLC) + model-vector replay + trace validation",
}


def gen_cfg(mode, lite, maxtok, maxsym, maxsym3):
    return ("SPECIFICATION GSpec\nCONSTANTS MaxTok = %d\n MaxSym = %d\n MaxSym3 = %d\n Mode = \"%s\"\n Lite = %s\n"
            "INVARIANTS Laws Dump\nCHECK_DEADLOCK FALSE\n" % (maxtok, maxsym, maxsym3, mode, "TRUE" if lite else "FALSE"))


def impl_cfg(maxcalls, slabres):
    return ("SPECIFICATION Spec\nCONSTANTS PatTexts <- MCPats\n Lines <- MCLines\n PatNos = {1,2,3,4,5,6,7,8,9}\n"
            " ICs = {TRUE, FALSE}\n MaxCalls = %d\n SlabRes = %d\n"
            "INVARIANTS TypeOK Lifetime Disjoint Refines CompileOK IndexOK\nCHECK_DEADLOCK FALSE\n" % (maxcalls, slabres))


def pat_s(m):
    return "%s%s" % (b2s(m["pat"]), " -I" if m.get("ic") else "")


def check(run):
    quick = run.tier == "quick"
    run.assumptions += [
        "domain: every % in a pattern opens a token (%{) and token names contain no %; other pattern texts are accepted with any outcome",
        "ignore-case over non-ASCII pattern or line: only well-formedness and 'case-sensitive match => match' are demanded",
        "one instance is used by one goroutine at a time (the package documents instances as not thread-safe)",
        "B3/B1 bounds: see tlc_runs (MaxTok, MaxSym = exhaustive line length in symbols, MaxSym3 = the same for 3-token patterns)",
    ]
    run.build_harness()
    rare = run.build_cli()

    # ---- B2 recordings first (cheap), validated below in parallel with the model checking
    tr = os.path.join(run.scratch, "c12-trace.ndjson")
    p = run.drv(["trace", "-out", tr, "-n", 240 if quick else 2500, "-long", 2 if quick else 6,
                 "-longn", 2300 if quick else 5000])
    tstat = json.loads(p.stdout.strip().splitlines()[-1])
    cli = os.path.join(run.scratch, "c12-cli.ndjson")
    p = run.drv(["cli", "-rare", rare, "-out", cli, "-n", 12 if quick else 80, "-dir", run.scratch])
    cstat = json.loads(p.stdout.strip().splitlines()[-1])
    if tstat["matched"] * 5 < tstat["calls"] or cstat["printed"] < cstat["runs"]:
        raise Inconclusive("B2 generators produce too few matches: %s %s" % (tstat, cstat))
    alltr = os.path.join(run.scratch, "c12-all.ndjson")
    with open(alltr, "w") as f:
        f.write(open(tr).read())
        f.write(open(cli).read())

    # ---- B3 (laws of the specification; refinement of the implementation-shaped model),
    #      B1 generation and B2 validation run side by side (8 TLC workers in total)
    def gen(mode, lite, b, workers, xmx="6g"):
        return lambda: run.tlc("Dissect_Gen", gen_cfg(mode, lite, *b), workers=workers, timeout=3000, xmx=xmx,
                               label="Dissect_Gen %s MaxTok=%d MaxSym=%d MaxSym3=%d%s" % ((mode,) + b + (" lite" if lite else "",)))

    def impl_job(b, pats, workers, cov):
        cfg = impl_cfg(*b).replace("{1,2,3,4,5,6,7,8,9}", pats)
        return lambda: run.tlc("DissectImpl_MC", cfg, workers=workers, timeout=3000, coverage=cov,
                               label="DissectImpl patterns %s x {cs,ic} MaxCalls=%d SlabRes=%d" % ((pats,) + b))

    trace_job = lambda: validate_traces(run, "Dissect_Trace", alltr, invariants=("Final",), xmx="8g", timeout=3000)
    if quick:
        jobs = [gen("laws", True, (2, 3, 1), 3), gen("dump", True, (3, 3, 1), 3, "8g"),
                impl_job((3, 2), "{1,2,3,4,5,6,7,8,9}", 1, True), trace_job]
        laws, dump, impl, (tres, _) = parallel(jobs, 4)
        laws, impl = [laws], [impl]
    else:
        jobs = [gen("dump", False, (3, 4, 2), 2, "10g"), gen("laws", False, (3, 4, 2), 2), trace_job,
                gen("laws", False, (1, 6, 1), 2),          # every 0/1-token pattern x every line of up to 6 symbols
                impl_job((4, 2), "{1,2,3,4,5,6,7,8,9}", 2, True), impl_job((5, 3), "{3,5}", 2, False)]
        dump, l1, (tres, _), l2, i1, i2 = parallel(jobs, 4)
        laws, impl = [l1, l2], [i1, i2]
    for r in laws:
        require_clean(run, r, "Dissect laws")
    for r in impl:
        require_clean(run, r, "DissectImpl refinement/lifetime")
    impl = impl[0]
    zero = [a for a, (n, _) in impl.coverage.items() if n == 0 and a.split(".")[1] in ("Call", "Prefix", "TokStep", "Finish")]
    if zero:
        raise Inconclusive("vacuous model: actions never taken: %s" % zero)
    if dump.violated or dump.errors or not dump.finished:
        raise Inconclusive("vector generator failed: %s" % dump.out[-2000:])

    # ---- B1: replay TLC's verdicts on the real matcher
    vec = os.path.join(run.scratch, "c12-vectors.out")
    with open(vec, "w") as f:
        f.write(dump.out)
    dump.out = ""
    res_path = os.path.join(run.scratch, "c12-replay.json")
    run.drv(["replay", "-in", vec, "-out", res_path, "-minres", 2200, "-maxcalls", 7000 if quick else 20000,
             "-every", 4 if quick else 1, "-deepevery", 41 if quick else 97, "-deepres", 40000 if quick else 80000])
    res = json.load(open(res_path))
    if res["vectors"] < 1000 or res["runs"] < 100000 or res["refilled_instances"] < 500 or res["deep_instances"] < 5:
        raise Inconclusive("replay too small: %s" % {k: res[k] for k in ("vectors", "runs", "refilled_instances")})
    run.cov["traces_validated_against_impl"] += res["runs"]
    run.cov["evaluations"] += res["calls"]
    run.cov["distinct_nontrivial"] += res["distinct_nontrivial"]
    run.cov["b1"] = {k: res[k] for k in ("vectors", "error_vectors", "runs", "calls", "refilled_instances", "deep_instances", "undetermined")}
    for s in res["samples"] or []:
        run.sample({"b1": s})
    for m in res["mismatches"] or []:
        n = (res["counts"] or {}).get(m["kind"], 1)
        # signature: binding : kind : does the pattern or line leave ASCII? (separates the byte-vs-rune class)
        nonascii = any(c >= 128 for c in m["pat"]) or any(c >= 128 for c in m.get("line") or [])
        run.violation("b1:%s:%s" % (m["kind"], "nonascii" if nonascii else "ascii"),
                      "dissect %s on line %s: real code gave %s, specification demands %s (%d cases of this kind)" % (
                          pat_s(m), b2s(m.get("line") or []), m["got"], m["want"], n), m)

    # ---- B2 verdicts
    ntr = tstat["traces"] + cstat["runs"]
    run.cov["traces_validated_against_impl"] += ntr
    run.cov["evaluations"] += tstat["calls"]
    run.cov["distinct_nontrivial"] += tstat["matched"]
    run.cov["b2"] = {"traces": tstat["traces"], "calls": tstat["calls"], "matched": tstat["matched"],
                     "cli_runs": cstat["runs"], "cli_lines_printed": cstat["printed"], "events": tres["consumed"]}
    with open(alltr) as f:
        run.sample({"b2_trace_head": [json.loads(next(f)) for _ in range(3)]})
    lines = None
    for bad in tres["bad"]:
        if lines is None:
            lines = open(alltr).read().splitlines()
        ev = json.loads(lines[bad["l"] - 1])
        if ev["event"] == "cli":
            kind, head, path = "cli", ev, run.save_replay("cli-%d.json" % bad["t"], ev)
        else:
            sl = trace_slice(alltr, bad["t"])
            head = json.loads(sl.splitlines()[0])
            kind = ev["event"] if ev["event"] != "reset" else "compile"
            path = run.save_replay("trace-%d.ndjson" % bad["t"], sl)
        nonascii = any(c >= 128 for c in head["pat"]) or any(c >= 128 for c in ev.get("line") or [])
        run.violation("b2:%s:%s:%s" % (kind, "ic" if head.get("ic") else "cs", "nonascii" if nonascii else "ascii"),
                      "recorded execution is not allowed by Dissect.tla: pattern %s, rejected event %s" % (
                          pat_s(head), json.dumps(ev)[:300]), path)
    run.cov["rule"] = ("B3: all generator patterns x lines within bounds; B1: one (pattern, flag, line) = one case, "
                       "non-trivial = the specification demands a match with at least one capture on a non-empty line; "
                       "B2: one FindSubmatchIndex call / CLI run each, non-trivial = calls that matched")

"""C06 - named inputs are each read once, decoded faithfully, and failures are reported."""
import json
import os
from vf import Inconclusive, parallel, require_clean, tlaps, validate_traces, vfj_lines, b2s

CLAIM = {
    "text": "Inputs.tla specifies one invocation over a file-system tree: expansion of every argument into mentions (path, glob with literal fallback, -R walk of regular files, '-'/none = <stdin>), the result of opening/reading each mention (plain, gzip under -z with fallback to byte 0, corrupt/truncated gzip, directory-as-file, missing) independently of its transport (regular file; FIFO, /dev/stdin, process substitution: cannot be rewound, report size 0), the output rows, the read-error count, the exit status with its precedence, and the resource bound: never more than --readers inputs open, whatever the number of mentions and the descriptor limit. TLC (a) decides relational laws of that specification over the whole bounded universe (per-argument additivity, walk completeness, nothing dropped, read-once multiplicity, fault isolation, -z transparency, decoding, transport transparency, independence of the descriptor limit, exit precedence), (b) explores every interleaving of the implementation-shaped reader life cycle InputsLife (expansion goroutine, semaphore dispatcher, open taking a descriptor / probe by gzip.NewReader resp. by peeking through a recorder on a pipe / rewind resp. replay / read / error / close / release) for every scenario and shows semaphore bound, descriptor bound open <= readers <= MaxFd (hence no readable input fails to open), no leak, termination and that the final deliveries/error count/exit status are exactly those of Inputs - and refutes five deliberately broken designs (slot leak on open error, open before the slot, probe of a pipe without recorder, with Seek, skipped for reported size 0), (c) enumerates every scenario with its demanded outcome, which the harness materialises on disk (FIFOs with driver-side writers, inherited pipes/files for /dev/stdin and /dev/fd/3) and runs through the REAL rare binary (filter and histogram --csv) and the batcher library, comparing rows, exit status, final message, reported errors, summary, ReadErrors() and - while a FIFO input holds its reader slot - the number of inputs the process has open (/proc/<pid>/fd); all observations, seeded random larger trees, and runs with MORE inputs than a lowered RLIMIT_NOFILE whose reader slots are all held by FIFOs, are validated record by record by TLC (Inputs_Trace). Gzip inputs are also MULTI-MEMBER files (cat a.gz b.gz, gzip -c >>: 2-4 members, empty members, lines spanning members; the life cycle decodes member after member, a decompressor that stops after the first member is refuted). The -R walk is also written like filepath.Walk + callback over trees that hold non-regular entries (FIFO, socket, symbolic link to a file / a directory / nothing, device node) before, between and after the regular files and sub-directories: every regular file below the directory is mentioned exactly once whatever the callback does with such entries (law LWalkImpl; a callback answering SkipDir for them is refuted); what the entry itself yields is not judged (rows under its name ignored, at most one read error each, the allowed ends of the run computed by the specification). Inputs larger than any read buffer or probe window have SYMBOLIC contents (InputsBig: optional first line, n fixed-width numbered records, unterminated tail; laws tie the symbolic lines to LinesOf of the bytes and show that a line end falls on / one byte next to every multiple of every window size the record width divides); TLC enumerates a corpus over several powers of two (16 KiB ... 256 KiB, 4 KiB, 32 KiB; files of 2 windows +- records, shifted by 1, w-1, 7 bytes; plain, plain under -z, gzip, multi-member gzip cut next to the window, FIFO, standard input, three inputs at once) with the demanded run-length observation, replayed on the real binary and the batcher library (lines looked at only after the input ended) and validated by InputsBig_Trace. InputsBuf (the byte-level scanner + reader loop + batch channel + worker + consumer of PipelineBuf) shows for every chunking and buffer size within the bounds that the consumer sees exactly LinesOf(input); recycling a full, completely consumed buffer in place is refuted. The reader-slot protocol itself (ReaderSlots.tla: never more than --readers inputs open, every taken slot belongs to exactly one live goroutine, every input handled exactly once, all slots free at the end) is PROVED with TLAPS for any number of inputs and slots.",
    "note": "Bounded: exhaustive within the universe of InputsUniv (7-node skeleton tree, one varied slot incl. FIFO variants, one external input /dev/stdin or /dev/fd/3, 19 argument forms, <=2 arguments); beyond that seeded random trees (<=4 levels, <=60 files, FIFOs, inherited descriptors) and descriptor-limit runs (30-60 inputs, limit readers+16..21). Glob syntax: * and ? and literals only. Without -z nothing is demanded about compressed files; '-' only as the sole argument; -z with '-' not covered. A pipe is mentioned at most once and never reached by a -R walk. Non-regular entries are in the domain only as passers-by of a -R walk (not named by an argument or hit by a glob; a FIFO passed at most once; a symbolic link to a directory points to an empty directory). Big inputs: record widths 64 and 1024, sizes <= 768 KiB; the expectation is symbolic (run-length form of numbered records), the driver's renderer is checked against TLC's bytes for 54 small descriptors. Permission errors are not producible as root. Trusted: filepath.Glob/Walk, compress/gzip, Go regexp, encoding/csv, the OS.",
    "technique": "TLA+ model checking (TLC): functional oracle + life-cycle state machine with resource bound and refuted broken designs, model-outcome replay on the real binary, trace validation; TLAPS proof of the reader-slot protocol for unbounded parameters",
}

LIFE_INV = "SemaOK FdOK ErrsOK LinesOnce MembersOK FinalOK NoStall"
LAWS = ("LDomain LAdditive LWalk LWalkImpl LSpecial LMembers LLiteral LOnce LTwice LIsolation LMissing LPlainUnderZ "
        "LDecoded LExit LTransport LLimit")
LIFE_ACTIONS = ("Produce", "Dispatch", "OpenFail", "Open", "Probe", "Rewind", "ReadLine", "ReadErr", "ReadEnd",
                "Release", "Close")


def life_cfg(level, pairs, sel="all", part=0, nparts=1, leak=False, openfirst=False, pipeprobe="record", multi="all"):
    """InputsLife: the design (all defaults) or one of the deliberately broken designs."""
    return ("SPECIFICATION Spec\nCONSTANTS Level = %d\n ProbeLen = 3\n Leak = %s\n LifePairs = {%s}\n"
            " LifeSel = \"%s\"\n Part = %d\n NParts = %d\n MaxFd = 2\n OpenFirst = %s\n PipeProbe = \"%s\"\n Multi = \"%s\"\n"
            "INVARIANTS %s\nPROPERTIES Terminates\n" % (
                level, "TRUE" if leak else "FALSE", ", ".join(map(str, pairs)), sel, part, nparts,
                "TRUE" if openfirst else "FALSE", pipeprobe, multi, LIFE_INV))


# the broken designs TLC must refute (sensitivity of the life-cycle model): label -> (cfg kwargs, pairs)
BROKEN = [
    ("Leak: the open-error path keeps its reader slot", dict(sel="t0", leak=True), (8,)),
    ("OpenFirst: the input is opened before the reader slot is taken", dict(sel="t0", openfirst=True), (13,)),
    ("PipeProbe=norecord: what the failed header check consumed from a pipe is lost", dict(sel="pipes", pipeprobe="norecord"), (1,)),
    ("PipeProbe=seek: a pipe is probed and rewound like a regular file", dict(sel="pipes", pipeprobe="seek"), (1,)),
    ("PipeProbe=sizeskip: no gzip probe when the reported size is 0", dict(sel="pipes", pipeprobe="sizeskip"), (1,)),
    ("Multi=first: the decompressor stops at the end of the first gzip member", dict(sel="members", multi="first"), (1,)),
]


def part_cfg(kind, level, part, nparts):
    if kind == "gen":
        return ("INIT GInit\nNEXT GNext\nCONSTANTS Level = %d\n Part = %d\n NParts = %d\nINVARIANTS Dump\n"
                "CHECK_DEADLOCK FALSE\n" % (level, part, nparts))
    return ("INIT MInit\nNEXT MNext\nCONSTANTS Level = %d\n Part = %d\n NParts = %d\nINVARIANTS %s\n"
            "CHECK_DEADLOCK FALSE\n" % (level, part, nparts, LAWS if kind == "mc" else kind))


SEEN = {}


def split_file(path, k):
    lines = open(path).read().splitlines(True)
    n = max(1, (len(lines) + k - 1) // k)
    out = []
    for i in range(0, len(lines), n):
        p = "%s.part%d" % (path, len(out))
        with open(p, "w") as f:
            f.writelines(lines[i:i + n])
        out.append(p)
    return out, len(lines)


def rec_class(rec):
    if not rec["args"] or rec["args"][0] == [[45]]:
        c = "stdin-" + rec["stdin"]["k"]
    else:
        ks = sorted(({n["k"] for n in rec["tree"]} - {"file", "dir"}) |
                    ({"pipe"} if any(n.get("tr") == "pipe" for n in rec["tree"]) else set()))
        c = "+".join(ks) or "plain"
    return c + (",z" if rec["gz"] else "") + (",R" if rec["rec"] else "")


def rec_argv(rec):
    return [b"/".join(bytes(c) for c in a).decode("latin1") for a in rec["args"]]


B2_BASE = 1000000      # record ids of the random (B2) records are shifted by this in the merged trace
FD_BASE = 2000000      # ... and those of the descriptor-limit records by this
TAG_BASE = {"b1t": 0, "b2": B2_BASE, "fd": FD_BASE}


def tag_of(t):
    return "fd" if t >= FD_BASE else "b2" if t >= B2_BASE else "b1t"


def validate(run, traces, chunks):
    """TLC (Inputs_Trace) over every record of the given (tag, path) traces, merged and cut into chunks
    (one JVM each).  Returns {tag: (records, outside_domain)}."""
    merged = os.path.join(run.scratch, "c06-merged-trace.ndjson")
    count = {}
    with open(merged, "w") as out:
        for tag, path in traces:
            count[tag] = 0
            for line in open(path):
                if TAG_BASE[tag]:
                    rec = json.loads(line)
                    rec["t"] += TAG_BASE[tag]
                    line = json.dumps(rec, separators=(",", ":")) + "\n"
                out.write(line)
                count[tag] += 1
    parts, n = split_file(merged, chunks)
    jobs = [lambda p=p, i=i: validate_traces(run, "Inputs_Trace", p, label="Inputs_Trace part %d" % i, xmx="4g")
            for i, p in enumerate(parts)]
    consumed = 0
    skipped = {tag: 0 for tag, _ in traces}
    for p, (res, r) in zip(parts, parallel(jobs, 6)):
        if not res.get("done"):
            raise Inconclusive("trace validation incomplete")
        consumed += res["consumed"]
        recs = {}
        if res["bad"] or res["skipped"]:
            for line in open(p):
                rec = json.loads(line)
                recs[rec["t"]] = rec
        for t in res["skippedt"]:
            skipped[tag_of(t)] += 1
        for b in res["bad"]:
            rec = recs[b["t"]]
            tag = tag_of(b["t"])
            why = "+".join(sorted(b["why"]))
            sig = "%s:%s:%s:%s" % (tag, rec["cmd"], why, rec_class(rec))
            # one replay file per signature (a broken build can disagree on thousands of records)
            rp = run.save_replay("%s-record-%d.json" % (tag, b["t"]), rec) if sig not in SEEN else SEEN[sig]
            SEEN.setdefault(sig, rp)
            run.violation(sig,
                          "run of `%s` %s (flags R=%s z=%s readers=%d) is not explained by Inputs.tla: "
                          "disagreeing observables %s; observed exit=%s msg=%s reported-errors=%s lib-errors=%s; "
                          "descriptor limit %s, inputs open at the same time: %s (library: %s)" % (
                              rec["cmd"], rec_argv(rec)[:12], rec["rec"], rec["gz"], rec["readers"], b["why"],
                              rec["obs"]["exit"], rec["obs"]["msg"], rec["obs"]["nlog"], rec["lib"]["nerr"],
                              rec["nofile"] or "default", rec["obs"]["peak"], rec["lib"]["peak"]), rp)
    if consumed != n:
        raise Inconclusive("trace validation consumed %d of %d records" % (consumed, n))
    for tag, _ in traces:
        if skipped[tag] * 5 > count[tag]:
            raise Inconclusive("%d of %d recorded %s runs are outside the specification's domain" % (
                skipped[tag], count[tag], tag))
    return {tag: (count[tag], skipped[tag]) for tag, _ in traces}


def check(run):
    os.environ.setdefault("JAVA_TOOL_OPTIONS", "-XX:ParallelGCThreads=2")
    quick = run.tier == "quick"
    level = 1 if quick else 2
    nparts = 6 if quick else 12
    run.assumptions += [
        "filepath.Glob / filepath.Walk, compress/gzip, Go regexp and encoding/csv are trusted; glob syntax limited to * ? and literals",
        "domain: clean relative paths; '-' only as the sole argument; without -z no compressed files are mentioned; -z with stdin excluded; no CR bytes",
        "a truncated gzip file may deliver any prefix of its content (one read error); all other kinds deliver exactly",
        "every failing input is reported by a [Log] line on stderr: lines in today's wording ('Error opening file <p>' / 'Error reading <p>') never outnumber the failures, and together with [Log] lines of unknown wording they are at least as many (so re-wording a report is accepted, dropping or duplicating one is not); the exact count is Batcher.ReadErrors(); final message '[Log] Read errors' / '[Log] Parse errors' (pinned by the repository's own tests)",
        "running as root: permission errors are not producible; faults used: missing path, path below a regular file, directory as file, directory as stdin, corrupt / checksum-damaged / truncated gzip",
        "inputs that cannot be rewound and report size 0 (FIFO in the tree, /dev/stdin, /dev/fd/3 = process substitution; fed from a pipe, the last two also from a regular file) are in the domain when mentioned at most once and not reached by a -R walk (the property speaks of regular files there); they must deliver exactly what the regular file with the same bytes delivers",
        "non-regular directory entries (FIFO, unix socket, symbolic links, device node) below a -R directory: the property demands the REGULAR files around them, each exactly once; whether such an entry is itself opened, what it delivers and whether it counts as a read error is not judged (the unchanged code sends every non-directory to the readers: a socket / dangling link is reported as an open error, a link to a directory as a read error, a FIFO and a link to a file are read)",
        "multi-member gzip files deliver the concatenation of all members (RFC 1952 2.2: a gzip file consists of a series of members); trailing non-gzip garbage after a member is not in the domain",
        "big inputs are judged in symbolic form: a delivered line is classified by comparing it with the rendering of the record number it starts with; the renderer is the one that materialises the input and is checked against InputsBig!BigBytes; window sizes are powers of two between 4 KiB and 256 KiB - no constant of the implementation is used",
        "descriptors: at most --readers mentioned inputs (non-directories) are open for reading at the same time, counted from /proc/<pid>/fd while FIFO inputs hold the reader slots (a count stands only if three consecutive samples reach it); under a descriptor limit of at least readers + 16 no readable input may fail (the unchanged binary needs readers + 5)",
    ]
    rare = run.build_cli()
    run.build_harness()

    # ---- stage 1: B3 life cycle (all interleavings; in the background until the end), B1 generator,
    #      random + descriptor-limit drivers, and the deliberately broken life cycles that TLC must refute
    from concurrent.futures import ThreadPoolExecutor
    pairs = (1, 8, 18) if quick else (1, 3, 8, 18)
    lparts = 2 if quick else 8
    bg = ThreadPoolExecutor(max_workers=3 if quick else 2)
    life_fs = [bg.submit(lambda i=i: run.tlc("InputsLife", life_cfg(1, pairs, part=i, nparts=lparts), workers=2,
                                             coverage=True, timeout=3000, xmx="4g",
                                             label="InputsLife Level=1 pairs=%s part %d/%d" % (pairs, i, lparts)))
               for i in range(lparts)]
    # many mentions against few reader slots / descriptors (6 mentions, --readers 1..2, MaxFd 2)
    t0pairs = (13, 14) if quick else (3, 10, 13, 14)
    life_fs.append(bg.submit(lambda: run.tlc("InputsLife", life_cfg(level, t0pairs, sel="t0"), workers=2, coverage=True,
                                             timeout=3000, xmx="3g",
                                             label="InputsLife default tree, pairs=%s: up to 6 mentions" % (t0pairs,))))
    gens = [lambda i=i: run.tlc("Inputs_Gen", part_cfg("gen", level, i, nparts), workers=1, timeout=3000, xmx="3g",
                                label="Inputs_Gen Level=%d part %d/%d" % (level, i, nparts)) for i in range(nparts)]
    rnd_out = os.path.join(run.scratch, "c06-random.json")
    rnd_tr = os.path.join(run.scratch, "c06-random-trace.ndjson")
    nrand = 600 if quick else 12000
    rnd_drv = lambda: run.drv(["random", "-n", nrand, "-out", rnd_out, "-trace", rnd_tr, "-rare", rare,
                               "-work", os.path.join(run.scratch, "w2"), "-par", 4], timeout=3000)
    fd_out = os.path.join(run.scratch, "c06-fdlimit.json")
    fd_tr = os.path.join(run.scratch, "c06-fdlimit-trace.ndjson")
    nfd = 18 if quick else 150
    fd_drv = lambda: run.drv(["fdlimit", "-n", nfd, "-out", fd_out, "-trace", fd_tr, "-rare", rare,
                              "-work", os.path.join(run.scratch, "w3"), "-par", 3], timeout=3000)
    # sensitivity of the model: each broken design must be refuted
    broken = [lambda b=b: run.tlc("InputsLife", life_cfg(1, b[2], **b[1]), workers=1, timeout=3000, xmx="3g",
                                  label="InputsLife broken design (must be refuted): " + b[0]) for b in BROKEN]
    # ... and the walk whose callback answers filepath.SkipDir for a FIFO / socket / device node
    walk_ctl = lambda: run.tlc("Inputs_MC", "INIT MInitSpecial\nNEXT MNext\nCONSTANTS Level = 1\n Part = 0\n NParts = 1\n"
                               "INVARIANTS CtlWalkSkipdir\nCHECK_DEADLOCK FALSE\n", workers=1, timeout=3000, xmx="3g",
                               label="Inputs_MC broken walk (must be refuted): SkipDir answered for a non-regular entry")
    broken.append(walk_ctl)
    BROKEN_ALL = BROKEN + [("WalkSkipdir: the walk callback answers SkipDir for a FIFO / socket / device node", {}, ())]
    # inputs larger than any read buffer / probe window: symbolic contents (InputsBig), corpus enumerated by TLC
    big_vec = os.path.join(run.scratch, "c06-big-vectors.ndjson")
    big_out = os.path.join(run.scratch, "c06-big.json")
    big_tr = os.path.join(run.scratch, "c06-big-trace.ndjson")

    def big_job():
        r = run.tlc("InputsBig_Gen", "INIT GInit\nNEXT GNext\nCONSTANTS Level = %d\nINVARIANTS Dump\nCHECK_DEADLOCK FALSE\n" % level,
                    workers=1, timeout=3000, xmx="2g", label="InputsBig_Gen Level=%d" % level)
        if r.violated or r.errors:
            raise Inconclusive("generator of the big inputs failed: %s" % r.out[-2000:])
        with open(big_vec, "w") as f:
            for v in vfj_lines(r.out):
                f.write(json.dumps(v, separators=(",", ":")) + "\n")
        run.drv(["big", "-in", big_vec, "-out", big_out, "-trace", big_tr, "-rare", rare,
                 "-work", os.path.join(run.scratch, "w4"), "-par", 4], timeout=3000)
        return r
    mcb = "INIT BInit\nNEXT BNext\nCONSTANTS MaxW = %d\n MaxN = %d\n MaxB = %d\nINVARIANTS %%s\nCHECK_DEADLOCK FALSE\n" % (
        (4, 4, 8) if quick else (6, 6, 12))
    pbuf = ("SPECIFICATION PSpec\nCONSTANTS Alphabet = {97, 98, 10}\n MaxLen = %d\n BufSize = %d\n MaxStall = 0\n PBatch = 2\n"
            " PCap = 1\n Reuse = \"%s\"\nINVARIANTS %s\nCHECK_DEADLOCK FALSE\n")
    extras = [
        big_job,
        lambda: run.tlc("InputsBig_MC", mcb % "Layout RunsLaw Geometry Distinct", workers=1, timeout=3000, xmx="2g",
                        label="InputsBig_MC laws of the symbolic contents"),
        lambda: run.tlc("InputsBig_MC", mcb % "CtlNoDivides", workers=1, timeout=3000, xmx="2g",
                        label="InputsBig_MC control (must be refuted): window boundary hit without the divisibility premise"),
        lambda: run.tlc("InputsBuf", pbuf % (4 if quick else 5, 2, "never", "CompleteOK PrefixOK6"), workers=2, timeout=3000, xmx="3g",
                        label="InputsBuf reuse=never (the code): complete delivery for every chunking"),
        lambda: run.tlc("InputsBuf", pbuf % (4, 2, "free", "CompleteOK PrefixOK6"), workers=2, timeout=3000, xmx="3g",
                        label="InputsBuf reuse=free (admissible): complete delivery"),
        lambda: run.tlc("InputsBuf", pbuf % (4, 2, "always", "CompleteOK PrefixOK6"), workers=1, timeout=3000, xmx="3g",
                        label="InputsBuf broken design (must be refuted): full and completely consumed buffer recycled in place"),
        lambda: run.tlc("InputsBuf", pbuf % (4, 2, "never", "NeverFullAndConsumed"), workers=1, timeout=3000, xmx="3g",
                        label="InputsBuf coverage (must be refuted): a line end on the last byte of a full buffer is reachable"),
    ] + ([] if quick else [
        lambda: run.tlc("InputsBuf", pbuf % (5, 3, "never", "CompleteOK PrefixOK6"), workers=2, timeout=3000, xmx="3g",
                        label="InputsBuf reuse=never BufSize=3"),
        lambda: run.tlc("InputsBuf", pbuf % (5, 1, "never", "CompleteOK PrefixOK6"), workers=2, timeout=3000, xmx="3g",
                        label="InputsBuf reuse=never BufSize=1"),
    ])
    res = parallel([rnd_drv, fd_drv] + broken + gens + extras + [lambda: tlaps(run, "ReaderSlots")], 7 if quick else 5)
    res = res[:-1]
    for b, r in zip(BROKEN_ALL, res[2:2 + len(BROKEN_ALL)]):
        if not r.violated:
            raise Inconclusive("the model does not refute the broken design '%s': %s" % (b[0], r.out[-1500:]))
    run.cov["broken_designs_refuted"] = [b[0] for b in BROKEN_ALL]
    res = res[2 + len(BROKEN_ALL):]
    xres = res[nparts:]
    res = res[:nparts]
    for i, want in ((1, False), (2, True), (3, False), (4, False), (5, True), (6, True)) + (() if quick else ((7, False), (8, False))):
        if want and not xres[i].violated:
            raise Inconclusive("the model does not refute a control: %s" % xres[i].out[-1500:])
        if not want:
            require_clean(run, xres[i], "InputsBig_MC / InputsBuf")
    run.cov["broken_designs_refuted"] += ["InputsBuf reuse=always (a buffer whose last byte ends a line is recycled in place)",
                                          "InputsBig_MC CtlNoDivides", "InputsBuf NeverFullAndConsumed (coverage)"]
    vec_path = os.path.join(run.scratch, "c06-vectors.ndjson")
    nvec = 0
    classes = {}
    with open(vec_path, "w") as f:
        for r in res:
            if r.violated or r.errors:
                raise Inconclusive("generator failed: %s" % r.out[-2000:])
            for v in vfj_lines(r.out):
                f.write(json.dumps(v, separators=(",", ":")) + "\n")
                nvec += 1
                e = v["exp"]
                pipes = [n for n in v["tree"] if n["tr"] == "pipe"]
                for c in ("exit%d-%s" % (e["exit"], e["msg"]),
                          "read+parse" if e["nerr"] and e["parse"] else None,
                          "partial" if e["partial"] else None,
                          "stdin" if v["usestdin"] else None,
                          "multi-mention" if len(v["mentions"]) > len(v["argv"]) else None,
                          "literal-fallback" if any(m in v["argv"] for m in v["mentions"]) and e["nerr"] else None,
                          "fifo" if any(n["p"][0] != 47 for n in pipes) else None,
                          "fifo-gzip" if any(n["p"][0] != 47 and n["k"] == "gz" for n in pipes) else None,
                          "fifo-magic-not-gzip" if any(n["k"] == "file" and n["data"][:2] == [31, 139] for n in pipes) else None,
                          "dev-stdin-or-fd" if any(n["p"][0] == 47 for n in v["tree"]) else None,
                          "multi-member-gzip" if any(n["k"] == "mgz" for n in v["tree"]) and v["gz"] else None,
                          "member-empty" if any(n["k"] == "mgz" and 0 in n["mem"] for n in v["tree"]) else None,
                          "walk-past-nonregular" if e["nfree"] else None,
                          "walk-past-fifo" if e["nfree"] and pipes else None):
                    if c:
                        classes[c] = classes.get(c, 0) + 1
    need = ["exit0-none", "exit1-none", "exit2-read", "exit2-parse", "read+parse", "partial", "stdin",
            "multi-mention", "literal-fallback", "fifo", "fifo-gzip", "fifo-magic-not-gzip", "dev-stdin-or-fd",
            "multi-member-gzip", "member-empty", "walk-past-nonregular", "walk-past-fifo"]
    if nvec < 3000 or any(c not in classes for c in need):
        raise Inconclusive("generator produced %d vectors, classes %s" % (nvec, classes))
    run.cov["b1_vector_classes"] = classes

    # ---- stage 2: replay on the real binary (B1), random scenarios (B2); laws of the oracle (B3) meanwhile
    rep_out = os.path.join(run.scratch, "c06-replay.json")
    rep_tr = os.path.join(run.scratch, "c06-replay-trace.ndjson")

    def drivers():
        run.drv(["replay", "-in", vec_path, "-out", rep_out, "-trace", rep_tr, "-rare", rare,
                 "-work", os.path.join(run.scratch, "w1"), "-par", 10], timeout=3000)
    laws = [lambda i=i: run.tlc("Inputs_MC", part_cfg("mc", level, i, nparts), workers=1, timeout=3000, xmx="3g",
                                label="Inputs_MC laws Level=%d part %d/%d" % (level, i, nparts)) for i in range(nparts)]
    res = parallel([drivers] + laws, 7 if quick else 5)
    for r in res[1:]:
        require_clean(run, r, "Inputs_MC laws")

    rep = json.load(open(rep_out))
    if rep["runs"] != nvec and not any(m["kind"] == "hang" for m in rep["mismatches"] or []):
        raise Inconclusive("replay ran %d of %d vectors" % (rep["runs"], nvec))
    run.cov["traces_validated_against_impl"] += rep["runs"]
    run.cov["evaluations"] += rep["runs"]
    run.cov["distinct_nontrivial"] += rep["distinct_nontrivial"]
    for s in rep["samples"] or []:
        run.sample({"b1_scenario": s})
    for m in rep["mismatches"] or []:
        sc = m["scenario"]
        run.violation("b1:%s:%s:%s" % (sc["cmd"], m["kind"], m["class"]),
                      "`rare %s` in tree %s: %s; stderr: %s" % (
                          " ".join(m["argv"]), [(bytes(n["p"]).decode("latin1"), n["k"], n["tr"]) for n in sc["tree"]],
                          m["detail"], m["stderr"][:400].replace("\n", " / ")), m)

    big = json.load(open(big_out))
    if not big["runs"] or not big["on_boundary"] or not big["near_boundary"] or big["rendered"] < 20:
        raise Inconclusive("the corpus of big inputs is vacuous: %s" % {k: v for k, v in big.items() if k != "mismatches"})
    run.cov["traces_validated_against_impl"] += big["runs"]
    run.cov["evaluations"] += big["runs"]
    run.cov["distinct_nontrivial"] += big["on_boundary"] + big["near_boundary"]
    run.cov["big_inputs"] = {k: v for k, v in big.items() if k != "mismatches"}
    seen_big = set()
    for m in big["mismatches"]:
        sig = "big:%s:%s" % (m["kind"], m["class"])
        if sig in seen_big:        # one report per class (a broken build disagrees on every window size)
            continue
        seen_big.add(sig)
        run.violation(sig, "`rare %s` over inputs %s: %s; stderr: %s" % (
            " ".join(m["argv"]), [(bytes(x["name"]).decode("latin1"), x["k"], x["via"], x["g"], x["mem"]) for x in m["vector"]["run"]["ins"]],
            m["detail"][:700], m["stderr"][:300].replace("\n", " / ")), m)

    # ---- stage 3: TLC validates every recorded observation (B1 records, B2 random records, descriptor-limit records)
    rls = [f.result() for f in life_fs]
    bg.shutdown()
    vres = validate(run, [("b1t", rep_tr), ("b2", rnd_tr), ("fd", fd_tr)], 6 if quick else 12)
    bres, _ = validate_traces(run, "InputsBig_Trace", big_tr, label="InputsBig_Trace", xmx="3g")
    if not bres.get("done") or bres["consumed"] != big["runs"] or bres["skipped"]:
        raise Inconclusive("validation of the big-input records incomplete: %s" % {k: bres.get(k) for k in ("done", "consumed", "skipped")})
    if bres["bad"]:
        recs = {}
        for line in open(big_tr):
            rec = json.loads(line)
            recs[rec["t"]] = rec
        for b in bres["bad"]:
            rec = recs[b["t"]]
            sig = "bigt:%s:%s%s" % ("+".join(sorted(b["why"])), "+".join("%s/%s" % (x["k"], x["via"]) for x in rec["ins"]), ",z" if rec["gz"] else "")
            if sig in seen_big:
                continue
            seen_big.add(sig)
            run.violation(sig, "run over big inputs %s (z=%s readers=%d batch=%d) is not explained by InputsBig.tla: disagreeing observables %s; "
                          "observed %s" % ([(bytes(x["name"]).decode("latin1"), x["k"], x["via"], x["g"]) for x in rec["ins"]], rec["gz"],
                                           rec["readers"], rec["batch"], b["why"], json.dumps(rec["obs"])[:600]),
                          run.save_replay("big-record-%d.json" % b["t"], rec))
    n2, sk2 = vres["b2"]
    if vres["b1t"][1]:
        raise Inconclusive("%d generated scenarios are outside the specification's own domain" % vres["b1t"][1])
    if vres["fd"][1]:
        raise Inconclusive("%d descriptor-limit scenarios are outside the specification's domain" % vres["fd"][1])
    rnd = json.load(open(rnd_out))
    fdr = json.load(open(fd_out))
    if fdr["runs"] and fdr["sampled"] * 2 < fdr["runs"]:
        raise Inconclusive("the open inputs could be counted in only %d of %d descriptor-limit runs" % (fdr["sampled"], fdr["runs"]))
    run.cov["traces_validated_against_impl"] += n2 - sk2 + vres["fd"][0]
    run.cov["evaluations"] += n2 + vres["fd"][0]
    run.cov["distinct_nontrivial"] += rnd["exit2_runs"]
    run.cov["b2_random"] = rnd
    run.cov["b2_outside_domain"] = sk2
    run.cov["fdlimit"] = fdr
    with open(rnd_tr) as f:
        rec = json.loads(next(f))
        run.sample({"b2_record": {"argv": rec_argv(rec), "R": rec["rec"], "z": rec["gz"], "nodes": len(rec["tree"]),
                                  "exit": rec["obs"]["exit"], "rows": len(rec["obs"]["rows"])}})
    with open(fd_tr) as f:
        rec = json.loads(next(f))
        run.sample({"fdlimit_record": {"argv": rec_argv(rec)[:8], "readers": rec["readers"], "nofile": rec["nofile"],
                                       "nodes": len(rec["tree"]), "exit": rec["obs"]["exit"],
                                       "inputs_open_at_once": rec["obs"]["peak"], "library": rec["lib"]["peak"]}})
    taken = {}
    for rl in rls:
        require_clean(run, rl, "InputsLife")
        for a in LIFE_ACTIONS:
            taken[a] = taken.get(a, 0) + rl.coverage.get("InputsLife." + a, (1, 1))[0]
    zero = [a for a in LIFE_ACTIONS if taken[a] == 0]
    if zero:
        raise Inconclusive("vacuous life-cycle model: actions never taken: %s" % zero)
    run.cov["rule"] = ("B3: every interleaving of InputsLife for every scenario of the bounded universe + laws of Inputs; "
                       "B1: every scenario of the universe run through the real binary and the batcher library, "
                       "non-trivial = at least one output row or read error demanded; B2: seeded random trees, "
                       "non-trivial = run ended with exit status 2; descriptor-limit runs: more inputs than descriptors")

"""C15 - follow mode delivers every appended byte exactly once, in order."""
import json
import os
import random
from vf import Inconclusive, parallel, require_clean, validate_traces, trace_slice, vfj_lines, b2s

CLAIM = {
    "text": "TLC exhaustively checks implementation-shaped models of both follow readers (FollowNotify: read-until-empty, select over the two coalescing 1-buffered signals, fsnotify/watcher goroutines, the delete branch as repaired; FollowPoll: read attempts, stat, size vs readBytes, a re-open block that replaces the handle - a new handle stands at offset 0 - and seeks it to readBytes or restarts; 1, 2, 3 and 5 read attempts per round, also on a file that stays in place and merely grew between the last read attempt and the stat, with the law that the reader's count is the offset of the handle it reads from; controls: a resume-seek that does not reach the new handle, or resumes at the stat'ed size, is refuted) against the abstract Follow specification for every interleaving of up to 3-4 appends, 1-2 removals-after-drain and 1-2 re-creations with all reader/watcher steps x {reopen} x {tail}: delivered stream always a prefix of the expected one (no loss, duplication, reordering), no EOF while the file exists, the poll side condition in its exact and its observable form, refinement, no lost wake-up, and liveness (quiet environment ~> everything delivered / stream ended) under weak fairness. Histories enumerated by TLC with the specification's expected stream are executed on real files with the real followreader.New (notify and poll), the harness placing Read calls before/while/after the operations; for the poller TLC also enumerates the PHASE of the polling round at which every operation lands (after the k-th empty read attempt, k = ReadAttempts being the window before the stat; FollowPoll_Gen) and the harness imposes it by timing on a free-running reader with PollDelay/ReadAttempts set from the vector, and end to end with the production 5 x 250 ms; every execution, seeded random multi-cycle histories and end-to-end runs through batchers.TailFilesToChan and `rare filter -f/-F` are recorded and validated by TLC against Follow.tla. The followed path is the file's own name or a symbolic link to it (same / another directory; Follow.tla's file at the path is what the path leads to - controls: a poller that looks at the link itself, a watcher that waits for the link's name, both refuted), and the directory has other entries whose names end with / begin with the followed name and are created, appended to, renamed and removed in every interleaving (Follow!EnvOther; law OthersInvisible; controls: name tests by suffix / by prefix / none refuted: the removal of a sibling ends a plain follow); both on real files in every replay. FollowBatch.tla carries the property to the END of the pipeline - the time-flushed batches (tailBatcher -> syncReaderToBatcherWithTimeFlush) in the hands of a consumer that holds them: backing arrays of the batches, flushes full / timer / final, laws HeldExact, HeldStable, StreamExact, MustFlush, FinalExact; controls: a recycled backing array after a timer flush / a full flush refuted; burst schedules enumerated by TLC (bursts of several lines, pauses longer than the flush interval) run on the real follow readers under the real reader loop with a holding consumer, also with the production interval through TailFilesToChan and `rare filter -f --batch N`, recorded and validated against FollowBatch_Trace.",
    "note": "Bounded: exhaustive only within the listed history bounds; real timing is sampled, not enumerated, for the inotify reader (each history is executed a few times; which signal select takes is up to the Go runtime); for the poller the phase of the round is imposed by sleeping (20 ms delays, operations mid-sleep), so a phase can be missed under load - that costs coverage, never a false alarm, and the hit rate is measured (re-opens of the path seen through inotify IN_OPEN); the few microseconds between the stat and the open cannot be targeted (model only). Liveness on the real code means 'within 10 s, repeated on re-run'. Trusted: fsnotify/inotify (modelled as in-order events, write/create dropped when the path is absent), the OS file system, TLC. Rename-based rotation, truncation and removal of undelivered data are outside the property's histories and not checked.",
    "technique": "TLA+ refinement + liveness model checking (TLC) + model-history replay on real files + trace validation",
}

NOTIFY_INV = "TypeOK PrefixOK NoEarlyEnd NoDomLoss NoLostWakeup OthersInvisible"
BATCH_INV = "BTypeOK HeldExact StreamExact PartitionOK OpenExact MustFlush FinalExact"
POLL_INV = "TypeOK PrefixOK NoEarlyEnd DomImplies PrefixOKP NoEarlyEndP HandleOK InPlaceExact"


def b(x):
    return "TRUE" if x else "FALSE"


def notify_cfg(reopen, tail, apps, cycles, lens="{1, 2}", branch="samefile", invs=NOTIFY_INV, props="Refines Live", initlen=1,
               name_filter="base", path="file", resolve=True, sibs="{}", others=0):
    return ("SPECIFICATION Spec\nCONSTANTS Reopen = %s\n TailMode = %s\n InitLen = %d\n AppLens = %s\n MaxAppends = %d\n"
            " MaxRemoves = %d\n MaxCreates = %d\n BufSize = 2\n DeleteBranch = \"%s\"\n NameFilter = \"%s\"\n PathKind = \"%s\"\n"
            " Resolve = %s\n Sibs = %s\n MaxOthers = %d\nINVARIANTS %s\n%sCHECK_DEADLOCK FALSE\n" % (
                b(reopen), b(tail), initlen, lens, apps, cycles, cycles, branch, name_filter, path, b(resolve), sibs, others, invs,
                ("PROPERTIES %s\n" % props) if props else ""))


def poll_cfg(reopen, tail, apps, cycles, lens="{1, 2}", attempts=2, invs=POLL_INV, props="Refines Live LiveP", initlen=1,
             resume="readBytes", buf=2, path="file", stat="stat", linklen=1):
    return ("SPECIFICATION Spec\nCONSTANTS Reopen = %s\n TailMode = %s\n InitLen = %d\n AppLens = %s\n MaxAppends = %d\n"
            " MaxRemoves = %d\n MaxCreates = %d\n BufSize = %d\n ReadAttempts = %d\n Resume = \"%s\"\n PathKind = \"%s\"\n"
            " StatMode = \"%s\"\n LinkLen = %d\nINVARIANTS %s\n%sCHECK_DEADLOCK FALSE\n" % (
                b(reopen), b(tail), initlen, lens, apps, cycles, cycles, buf, attempts, resume, path, stat, linklen, invs,
                ("PROPERTIES %s\n" % props) if props else ""))


def batch_cfg(pbatch, maxlines, lens="{1, 2, 3}", plain=True, reuse="never", invs=BATCH_INV, props="HeldStable BTerminates"):
    """FollowBatch: the end of the follow pipeline (time-flushed batches held by the consumer)."""
    return ("SPECIFICATION BSpec\nCONSTANTS PBatch = %d\n BurstLens = %s\n MaxLines = %d\n Plain = %s\n ReuseOn = \"%s\"\n"
            "INVARIANTS %s\n%sCHECK_DEADLOCK FALSE\n" % (pbatch, lens, maxlines, b(plain), reuse, invs,
                                                        ("PROPERTIES %s\n" % props) if props else ""))


def bgen_cfg(pbatch, maxlines, lens, plain):
    return ("INIT GInit\nNEXT GNext\nCONSTANTS PBatch = %d\n BurstLens = %s\n MaxLines = %d\n Plain = %s\n ReuseOn = \"never\"\n"
            "INVARIANTS GLaws Dump\nCHECK_DEADLOCK FALSE\n" % (pbatch, lens, maxlines, b(plain)))


def pgen_cfg(reopen, tail, attempts, buf, apps, cycles, lens, rounds=1):
    """FollowPoll_Gen: histories with the phase of the poller's round at which every operation lands."""
    return ("INIT GInit\nNEXT GNext\nCONSTANTS Reopen = %s\n TailMode = %s\n InitLen = 2\n AppLens = %s\n MaxAppends = %d\n"
            " MaxRemoves = %d\n MaxCreates = %d\n BufSize = %d\n ReadAttempts = %d\n Resume = \"readBytes\"\n MaxRounds = %d\n"
            " PathKind = \"file\"\n StatMode = \"stat\"\n LinkLen = 1\n"
            "INVARIANTS GenAgrees GHandleOK Dump\nCHECK_DEADLOCK FALSE\n" % (
                b(reopen), b(tail), lens, apps, cycles, cycles, buf, attempts, rounds))


def gen_cfg(poll, reopen, tail, apps, cycles, lens, starts=1, settles=1, drains=3, sibs="{}", others=0):
    return ("INIT GInit\nNEXT GNext\nCONSTANTS Poll = %s\n Reopen = %s\n TailMode = %s\n InitLen = 2\n AppLens = %s\n"
            " MaxAppends = %d\n MaxRemoves = %d\n MaxCreates = %d\n MaxStarts = %d\n MaxSettles = %d\n MaxDrains = %d\n"
            " Sibs = %s\n MaxOthers = %d\n"
            "INVARIANTS Dump\nPROPERTIES GSafe\nCHECK_DEADLOCK FALSE\n" % (
                b(poll), b(reopen), b(tail), lens, apps, cycles, cycles, starts, settles, drains, sibs, others))


CONTROLS = [
    ("FollowNotify", "control: original delete branch loses the wake-up (the repaired defect)",
     notify_cfg(True, False, 2, 1, lens="{1}", branch="close", invs="NoLostWakeup", props=""), "NoLostWakeup"),
    ("FollowNotify", "control: re-open without identity check re-delivers after a stale delete signal",
     notify_cfg(True, False, 2, 2, lens="{1}", branch="reopen", invs="PrefixOK", props=""), "PrefixOK"),
    ("FollowPoll", "control: without its side condition the poller loses data",
     poll_cfg(True, False, 3, 1, invs="PrefixAlways", props=""), "PrefixAlways"),
    # the file STAYS IN PLACE (no removal at all) in the next three
    ("FollowPoll", "control: resume-seek that does not reach the new handle re-delivers a file that only grew (stat window)",
     poll_cfg(True, False, 3, 0, attempts=2, resume="none", invs="PrefixOK", props=""), "PrefixOK"),
    ("FollowPoll", "control: resuming at the stat'ed size loses what was appended before the open",
     poll_cfg(True, False, 3, 0, attempts=2, resume="size", invs="PrefixOK", props=""), "PrefixOK"),
    ("FollowPoll", "control (reachability): a file that stays in place does go through the re-open block",
     poll_cfg(True, False, 2, 0, attempts=3, invs="NeverReopensInPlace", props=""), "NeverReopensInPlace"),
    # other entries of the directory: the followed file STAYS IN PLACE, a sibling is removed
    ("FollowNotify", "control: a name test by suffix takes the removal of a sibling (webapp.log next to app.log) for the end of a plain follow",
     notify_cfg(False, False, 1, 0, lens="{1}", name_filter="suffix", sibs='{"suf", "pre"}', others=1, invs="NoEarlyEnd", props=""), "NoEarlyEnd"),
    ("FollowNotify", "control: a name test by prefix lets events of app.log.1 through",
     notify_cfg(True, False, 1, 1, lens="{1}", name_filter="prefix", sibs='{"suf", "pre"}', others=1, invs="OthersInvisible", props=""), "OthersInvisible"),
    ("FollowNotify", "control: no name test at all",
     notify_cfg(False, False, 1, 0, lens="{1}", name_filter="any", sibs='{"oth"}', others=1, invs="NoEarlyEnd", props=""), "NoEarlyEnd"),
    # the followed path is a symbolic link
    ("FollowNotify", "control: watching the link's directory for the link's name loses every append to the file (same directory) - the repaired defect",
     notify_cfg(True, False, 2, 0, lens="{1}", path="link-same", resolve=False, invs="NoLostWakeup", props=""), "NoLostWakeup"),
    ("FollowNotify", "control: ... (the file lives in another directory)",
     notify_cfg(False, False, 2, 0, lens="{1}", path="link-other", resolve=False, invs="NoLostWakeup", props=""), "NoLostWakeup"),
    ("FollowPoll", "control: a look at the link itself (lstat) takes a link shorter than what was delivered for a re-created file - the whole file again after a quiet round",
     poll_cfg(True, False, 2, 0, initlen=2, path="link", stat="lstat", linklen=1, invs="PrefixOK", props=""), "PrefixOK"),
    # the end of the pipeline: batches held by the consumer
    ("FollowBatch", "control: a time-flushed partial batch that keeps its backing array is overwritten by the lines that follow",
     batch_cfg(3, 5, reuse="timer", invs="HeldExact", props=""), "HeldExact"),
    ("FollowBatch", "control: a full batch that keeps its backing array",
     batch_cfg(2, 5, reuse="full", invs="StreamExact", props=""), "StreamExact"),
    ("FollowBatch", "control (reachability): lines of a quiet stream can wait in the open batch",
     batch_cfg(3, 4, invs="NothingPending", props=""), "NothingPending"),
    ("FollowBatch", "control (reachability): a time-flushed partial batch is followed by more lines",
     batch_cfg(3, 4, invs="NoTimerThenMore", props=""), "NoTimerThenMore"),
]


def ops(v):
    return [s["op"] + (str(len(s["data"])) if s["op"] == "append" else "") for s in v["steps"]]


def rotation_before_read(v):
    """remove, re-create and append all happen between two drains (the reader sees them at once)."""
    seg = []
    for s in v["steps"]:
        if s["op"] == "drain":
            if "remove" in seg and "create" in seg and seg.index("create") < len(seg) - 1 and "append" in seg[seg.index("create"):]:
                return True
            seg = []
        else:
            seg.append(s["op"])
    return False


def two_rotations_before_read(v):
    """both removal/re-creation cycles and an append happen between two drains."""
    seg = []
    for s in v["steps"] + [{"op": "drain"}]:
        if s["op"] == "drain":
            if seg.count("remove") == 2 and seg.count("create") == 2 and "append" in seg:
                return True
            seg = []
        else:
            seg.append(s["op"])
    return False


def where(v, st):
    if st.get("pre"):
        return "pre"
    return "stat" if st.get("k", 0) >= v["attempts"] else "read"


def phase_sig(v):
    """placement class of a FollowPoll_Gen history: every environment operation with where it lands."""
    return ",".join("%s@%s%s" % (st["op"], where(v, st), "" if st.get("pre") or st.get("r", 0) == 0 else "+")
                    for st in v["steps"] if st["op"] in ("append", "remove", "create"))


def inplace_stat(v):
    """an append lands between the last read attempt of a round and the stat while the file stays in place."""
    for st in v["steps"]:
        if st["op"] == "remove":
            return False
        if st["op"] == "append" and where(v, st) == "stat":
            return True
    return False


def sib_sig(v):
    """class of a history with sibling activity: what happens to which sibling, after which operations on the followed file."""
    out, seen = [], []
    for st in v["steps"]:
        if st["op"] == "other":
            out.append("%s-%s@%s" % (st["what"], st["name"], "+".join(seen[-2:]) or "start"))
        elif st["op"] != "settle":
            seen.append(st["op"])
    return ",".join(out)


def burst_sig(v):
    return ",".join("%s%s%s" % (st["op"][0], st.get("n", ""), "L" if st.get("long") else "") for st in v["steps"])


def stratified(rng, vs, n, key):
    """n vectors, spread evenly over the classes given by key (round robin over shuffled classes)."""
    groups = {}
    for v in vs:
        groups.setdefault(key(v), []).append(v)
    keys = sorted(groups)
    rng.shuffle(keys)
    for k in keys:
        rng.shuffle(groups[k])
    out = []
    while len(out) < n and keys:
        for k in list(keys):
            if groups[k]:
                out.append(groups[k].pop())
                if len(out) >= n:
                    break
            else:
                keys.remove(k)
    return out


def shape_class(shape):
    """coarse, stable class of the operations since the last drain: used in violation signatures."""
    o, placement = shape.split("|")
    o = [x for x in o.split(",") if x and x != "settle"]
    out = []
    for x in o:
        if not out or out[-1] != x:
            out.append(x)
    return "+".join(out) + "@" + placement


def check(run):
    quick = run.tier == "quick"
    run.assumptions += [
        "fsnotify/inotify: one event per operation on the watched directory, delivered in order; a write/create event is dropped when the path does not exist at the moment fsnotify handles it (ignoreLinux); trusted",
        "domain: histories of append / pause / remove-after-drain / re-create on a file that exists when following starts; removal only after everything appended was delivered (the property's precondition)",
        "poll + re-open: demands apply only while the re-created file stays shorter than what was delivered from its predecessor until the reader delivered a first byte of it (observable form of 'when the poller notices it'; the exact form is checked on FollowPoll's ghost)",
        "plain follow + poll: the end of the stream is demanded only while the path stays empty (a poller cannot see a removal that was followed by a re-creation); plain follow + inotify: always",
        "liveness on the real code: expected bytes within 10 s; an overrun counts only when it repeats on re-run of the same history",
        "timing relative to the poller's round is imposed by timing (PollDelay 20 ms, operations in the middle of the chosen sleep; 250 ms end to end): the expectation does not depend on the phase, a missed phase only costs coverage (measured: b1_phase_stat_window_in_place)",
        "a followed path that is a symbolic link: the link itself stays (appends, removal and re-creation act on the file it leads to); retargeting a link is not modelled",
        "siblings of the followed path are regular files in the directory of the path (and, for a link, of the file) named <x><name> / <name><x> / unrelated; they are never renamed onto the followed name",
        "end of the pipeline: whole lines, one write per burst; when a partial batch surfaces is demanded only where the pause is controlled (reader loop with a flush interval chosen by the harness, pause = 3 intervals measured from the moment the loop is back in Read with everything delivered); with the production interval only exactness of what the held batches read, and completeness after the end of the stream, are demanded - no timer value enters a verdict",
        "not covered: rename-based rotation, truncation, removal of a file with undelivered data, a path that does not exist when following starts",
    ]
    run.build_harness()

    # ------------------------------------------------------------------ B3: exhaustive model check
    apps, cyc = (3, 1) if quick else (5, 2)
    jobs = []
    for reopen in (True, False):
        for tail in (True, False):
            jobs.append(("FollowNotify", "notify reopen=%s tail=%s apps=%d cycles=%d" % (reopen, tail, apps, cyc),
                         notify_cfg(reopen, tail, apps, cyc, initlen=2 if tail else 1), reopen and not tail))
            jobs.append(("FollowPoll", "poll reopen=%s tail=%s apps=%d cycles=%d" % (reopen, tail, apps, cyc),
                         poll_cfg(reopen, tail, apps, cyc, initlen=2 if tail else 1), reopen and not tail))
    # two removal/re-creation cycles (stale delete signals, a file that is never looked at)
    jobs.append(("FollowNotify", "notify reopen 2 cycles", notify_cfg(True, False, 3, 2 if quick else 3, lens="{1, 2}" if quick else "{1}"), False))
    jobs.append(("FollowPoll", "poll reopen 2 cycles", poll_cfg(True, False, 3, 2 if quick else 3, attempts=2 if quick else 3), False))
    # a file that stays in place (no removal): every timing of the appends relative to the read attempts, the
    # stat and the re-open block, for several lengths of the round incl. the production value
    # (the configurations above have 2 read attempts per round and include the histories without removal)
    for att, a in ((1, 4), (5, 2)) if quick else ((1, 6), (2, 6), (3, 5), (5, 4)):
        jobs.append(("FollowPoll", "poll reopen in place attempts=%d apps=%d" % (att, a),
                     poll_cfg(True, False, a, 0, attempts=att, buf=2 if att != 3 else 1), False))
    if not quick:
        jobs.append(("FollowPoll", "poll reopen tail in place attempts=3", poll_cfg(True, True, 6, 0, attempts=3, initlen=2), False))
    if not quick:
        jobs.append(("FollowNotify", "notify reopen apps=6 lens{1,2,3}", notify_cfg(True, False, 6, 1, lens="{1, 2, 3}"), False))
        jobs.append(("FollowPoll", "poll reopen apps=6 lens{1,2,3} attempts=5", poll_cfg(True, False, 6, 1, lens="{1, 2, 3}", attempts=5, initlen=3), False))
    # other entries of the watched directory (siblings whose names end with / begin with the followed name are created,
    # appended to, renamed among themselves, removed) in every interleaving with the history of the followed file
    for reopen, a, cy, o in ((False, 1, 1, 2), (True, 1, 1, 2)) if quick else ((False, 3, 1, 2), (True, 2, 1, 2), (True, 1, 2, 2)):
        jobs.append(("FollowNotify", "notify reopen=%s siblings apps=%d cycles=%d others=%d" % (reopen, a, cy, o),
                     notify_cfg(reopen, False, a, cy, lens="{1}", sibs='{"suf", "pre"}' if cy < 2 else '{"suf", "pre", "oth"}', others=o), False))
    # the followed path is a symbolic link (the code follows what it leads to: Resolve; the poller stats through it)
    jobs.append(("FollowNotify", "notify reopen link-other", notify_cfg(True, False, 2 if quick else 3, 1, path="link-other", lens="{1}"), False))
    jobs.append(("FollowPoll", "poll reopen link", poll_cfg(True, False, 3, 1, path="link", linklen=1), False))
    jobs.append(("FollowPoll", "poll plain link", poll_cfg(False, False, 2, 1, path="link", linklen=1), False))
    # the end of the pipeline: time-flushed batches in the hands of the consumer
    for pb, ml, plain in ((3, 5, True), (2, 4, True)) if quick else ((3, 8, True), (2, 7, True), (4, 8, False), (1, 5, True)):
        jobs.append(("FollowBatch", "batches size=%d lines<=%d plain=%s" % (pb, ml, plain), batch_cfg(pb, ml, plain=plain), pb == 2))
    gens = [(poll, reopen, tail) for poll in (False, True) for reopen in (True, False) for tail in (False, True)]
    # histories with sibling activity (Follow!EnvOther) for the inotify reader
    sgens = [(False, False), (False, True)] if quick else [(False, False), (False, True), (True, True)]
    # burst schedules for the end of the pipeline: (batch size, max lines, burst lengths, plain)
    bgens = [(3, 7, "{1, 2, 3}", True), (2, 5, "{1, 2}", False), (50, 5, "{1, 3}", False)]
    if not quick:
        bgens += [(4, 9, "{1, 2, 3}", True), (2, 7, "{1, 2, 3}", True)]
    # in plain follow the lengths of the appends play no role: one length keeps the generator small
    glens = lambda g: "{1, 2}" if (g[0] and g[1]) or not quick else "{1}"
    # FollowPoll_Gen: (reopen, tail, ReadAttempts, BufSize, appends, cycles, lengths, rounds)
    pgens = [(True, False, 1, 2, 3, 1, "{1, 2}", 1), (True, False, 2, 4, 3, 1, "{1}", 1), (True, False, 3, 3, 2, 1, "{1, 2}", 1),
             (True, True, 2, 4, 2, 1, "{1, 2}", 1), (False, False, 2, 4, 3, 1, "{1}", 1)]
    if not quick:
        pgens += [(False, True, 1, 4, 3, 1, "{1}", 1),
                  (True, False, 2, 4, 3, 1, "{1, 2}", 1), (True, False, 3, 2, 3, 1, "{1, 2}", 1), (True, False, 5, 8, 2, 1, "{1, 2}", 1), (True, False, 2, 1, 3, 2, "{1}", 2),
                  (True, True, 3, 4, 3, 1, "{1}", 1), (False, False, 3, 2, 3, 1, "{1}", 2), (True, False, 1, 1, 4, 1, "{1}", 2)]
    W = 1 if quick else 2     # at most 6 TLC workers at a time
    pool = [lambda j=j: (j, run.tlc(j[0], j[2], workers=W, label=j[1], coverage=j[3], timeout=3000)) for j in jobs]
    pool += [lambda g=g: run.tlc("Follow_Gen", gen_cfg(g[0], g[1], g[2], 3, 1, glens(g), drains=2 if quick and g[0] else 3),
                                 workers=W, timeout=1200, label="Follow_Gen poll=%s reopen=%s tail=%s" % g) for g in gens]
    pool += [lambda c=c: run.tlc(c[0], c[2], workers=W, label=c[1], timeout=600) for c in CONTROLS]
    # two removal/re-creation cycles under inotify (stale delete signals)
    pool += [lambda: run.tlc("Follow_Gen", gen_cfg(False, True, False, 2, 2, "{1}", drains=2 if quick else 3), workers=W, timeout=1200,
                             label="Follow_Gen notify reopen 2 cycles")]
    pool += [lambda g=g: run.tlc("FollowPoll_Gen", pgen_cfg(*g), workers=W, timeout=1800,
                                 label="FollowPoll_Gen reopen=%s tail=%s attempts=%d buf=%d apps=%d cycles=%d lens=%s rounds=%d" % g)
             for g in pgens]
    pool += [lambda g=g: run.tlc("Follow_Gen", gen_cfg(g[0], g[1], False, 1 if quick else 2, 1, "{1}", settles=0, drains=2,
                                                       sibs='{"suf", "pre"}', others=2 if not (quick and g[1]) else 1),
                                 workers=W, timeout=1800, label="Follow_Gen siblings poll=%s reopen=%s" % g) for g in sgens]
    pool += [lambda g=g: run.tlc("FollowBatch_Gen", bgen_cfg(*g), workers=W, timeout=1800,
                                 label="FollowBatch_Gen size=%d lines<=%d lens=%s plain=%s" % g) for g in bgens]
    allres = parallel(pool, 3)      # at most 3 (quick) / 6 (thorough) TLC workers at a time
    n1, n2, n3 = len(jobs), len(jobs) + len(gens), len(jobs) + len(gens) + len(CONTROLS)
    n4 = n3 + 1 + len(pgens)
    res, gres, cres, g2, pres = allres[:n1], allres[n1:n2], allres[n2:n3], allres[n3], allres[n3 + 1:n4]
    sres, bres = allres[n4:n4 + len(sgens)], allres[n4 + len(sgens):]
    for j, r in res:
        require_clean(run, r, j[1])
        if j[3]:
            names = ("Append1", "Remove1", "Create1", "KDeq", "WSig", "RRead", "RSelW", "RSelD", "RReopen",
                     "PRead", "PStat", "POpen", "Burst", "Pause", "Lag", "Remove", "Release", "BScan", "BAppend",
                     "FlushFull", "FlushTimer", "NoFlush", "FlushFinal")
            zero = [a for a, (n, _) in r.coverage.items() if n == 0 and a.split(".")[1] in names]
            if zero:
                raise Inconclusive("vacuous model: actions never taken: %s" % zero)
    # controls: the model must be able to see the defects it is there to exclude
    for (mod, label, cfg, want), r in zip(CONTROLS, cres):
        if want not in r.violated:
            raise Inconclusive("%s: expected %s to be violated, got %s" % (label, want, r.violated))

    # ------------------------------------------------------------------ B1: histories on real files
    rng = random.Random(run.seed)
    per_cfg = 110 if quick else 1000
    vec_path = os.path.join(run.scratch, "c15-vectors.ndjson")
    total, chosen = 0, []
    for g, r in zip(gens, gres):
        if r.violated or r.errors:
            raise Inconclusive("generator failed: %s" % r.out[-2000:])
        vs = vfj_lines(r.out)
        total += len(vs)
        if len(vs) < 500:
            raise Inconclusive("generator produced only %d histories for %s" % (len(vs), g))
        rot = [v for v in vs if rotation_before_read(v)]
        rest = [v for v in vs if not rotation_before_read(v) and sum(1 for s in v["steps"] if s["op"] in ("append", "remove", "create")) >= 2]
        k1 = min(len(rot), per_cfg // 2)
        pick = rng.sample(rot, k1) + rng.sample(rest, min(len(rest), per_cfg - k1))
        chosen += pick
    if g2.violated or g2.errors:
        raise Inconclusive("generator failed: %s" % g2.out[-2000:])
    vs2 = [v for v in vfj_lines(g2.out) if [s["op"] for s in v["steps"]].count("create") == 2]
    total += len(vs2)
    both = [v for v in vs2 if two_rotations_before_read(v)]
    if len(both) < 20:
        raise Inconclusive("two-cycle generator produced only %d suitable histories" % len(both))
    chosen += rng.sample(both, min(len(both), 60 if quick else 600))
    chosen += rng.sample(vs2, min(len(vs2), 30 if quick else 600))
    # histories with sibling activity, spread over the classes (which sibling, what happens to it, where)
    stotal = 0
    for g, r in zip(sgens, sres):
        if r.violated or r.errors:
            raise Inconclusive("sibling generator failed: %s" % r.out[-2000:])
        vs = [v for v in vfj_lines(r.out) if any(st["op"] == "other" for st in v["steps"])
              and any(st["op"] == "drain" for st in v["steps"][next(i for i, st in enumerate(v["steps"]) if st["op"] == "other"):])]
        stotal += len(vs)
        if len(vs) < 200:
            raise Inconclusive("sibling generator produced only %d histories for %s" % (len(vs), g))
        chosen += stratified(rng, vs, 70 if quick else 600, sib_sig)
    total += stotal
    run.cov["b1_sibling_histories_enumerated"] = stotal
    with open(vec_path, "w") as f:
        for v in chosen:
            f.write(json.dumps(v, separators=(",", ":")) + "\n")
    # burst schedules for the end of the pipeline (FollowBatch_Gen): those in which a time-flushed partial batch is
    # followed by more lines first, spread over the shapes
    bvec_path = os.path.join(run.scratch, "c15-burst-vectors.ndjson")
    btotal, bchosen = 0, []
    for g, r in zip(bgens, bres):
        if r.violated or r.errors:
            raise Inconclusive("FollowBatch_Gen %s: %s %s\n%s" % (g, r.violated, r.errors[:3], r.out[-2000:]))
        vs = {json.dumps(v, sort_keys=True): v for v in vfj_lines(r.out)}
        vs = [vs[k] for k in sorted(vs)]
        btotal += len(vs)
        if len(vs) < 50:
            raise Inconclusive("FollowBatch_Gen produced only %d schedules for %s" % (len(vs), g))
        hot = [v for v in vs if v["timer"] > 0]
        per_b = 60 if quick else 400
        bchosen += stratified(rng, hot, min(len(hot), per_b * 3 // 4), burst_sig)
        bchosen += stratified(rng, [v for v in vs if v["timer"] == 0 and len(v["steps"]) >= 2], per_b // 4, burst_sig)
    with open(bvec_path, "w") as f:
        for v in bchosen:
            f.write(json.dumps(v, separators=(",", ":")) + "\n")
    # histories with the phase of the poller's round at which every operation lands (FollowPoll_Gen), spread evenly
    # over the placement classes; half of them with an append in the stat window of a file that stays in place
    per_phase = 72 if quick else 400
    pvec_path = os.path.join(run.scratch, "c15-phase-vectors.ndjson")
    ptotal, pchosen, pclasses = 0, [], set()
    for g, r in zip(pgens, pres):
        if r.violated or r.errors:
            raise Inconclusive("FollowPoll_Gen %s: %s %s\n%s" % (g, r.violated, r.errors[:3], r.out[-2000:]))
        vs = vfj_lines(r.out)
        ptotal += len(vs)
        if len(vs) < 200:
            raise Inconclusive("FollowPoll_Gen produced only %d histories for %s" % (len(vs), g))
        pclasses |= {phase_sig(v) for v in vs}
        ip = [v for v in vs if inplace_stat(v)]
        other = [v for v in vs if not inplace_stat(v)]
        if g[0] and not ip:
            raise Inconclusive("FollowPoll_Gen %s: no history with an append in the stat window of a file in place" % (g,))
        k1 = min(len(ip), per_phase // 2) if g[0] else min(len(ip), per_phase // 4)
        pchosen += stratified(rng, ip, k1, phase_sig) + stratified(rng, other, per_phase - k1, phase_sig)
    with open(pvec_path, "w") as f:
        for v in pchosen:
            f.write(json.dumps(v, separators=(",", ":")) + "\n")
    bres_path = os.path.join(run.scratch, "c15-burst.json")
    b_trace = os.path.join(run.scratch, "c15-burst-trace.ndjson")
    pres_path = os.path.join(run.scratch, "c15-phase.json")
    p_trace = os.path.join(run.scratch, "c15-phase-trace.ndjson")
    res_path = os.path.join(run.scratch, "c15-replay.json")
    b1_trace = os.path.join(run.scratch, "c15-b1-trace.ndjson")
    tr = os.path.join(run.scratch, "c15-trace.ndjson")
    sm = os.path.join(run.scratch, "c15-trace.json")
    cli = os.path.join(run.scratch, "c15-cli.ndjson")
    rare_bin = run.build_cli()
    # the three drivers mostly wait; together they stay far below the inotify instance limit (128)
    parallel([
        lambda: run.drv(["replay", "-in", vec_path, "-out", res_path, "-trace", b1_trace, "-reps", 2,
                         "-par", 24], timeout=3000),
        lambda: run.drv(["trace", "-out", tr, "-summary", sm, "-n", 250 if quick else 4000, "-maxops", 14 if quick else 30,
                         "-big", 120 if quick else 600, "-par", 16], timeout=3000),
        lambda: run.drv(["cli", "-out", cli, "-bin", rare_bin, "-n", 3 if quick else 25], timeout=3000),
        lambda: run.drv(["phase", "-in", pvec_path, "-out", pres_path, "-trace", p_trace, "-reps", 1 if quick else 2,
                         "-par", 32, "-pd", 20], timeout=3000),
        lambda: run.drv(["burst", "-in", bvec_path, "-out", bres_path, "-trace", b_trace, "-bin", rare_bin, "-par", 12,
                         "-iv", 40, "-prod", 6 if quick else 40], timeout=3000),
    ], 5)
    br = json.load(open(bres_path))
    run.cov["traces_validated_against_impl"] += br["runs"]
    run.cov["evaluations"] += br["runs"]
    run.cov["distinct_nontrivial"] += br["histories"]
    run.cov["b1_burst_schedules_enumerated"] = btotal
    run.cov["b1_burst_schedules_replayed"] = br["histories"]
    run.cov["b1_burst_runs_with_timer_flush_followed_by_lines"] = br["runs_with_timer_flush_followed_by_lines"]
    run.cov["b1_burst_unconfirmed_timeouts"] = br["flaky_timeouts"]
    if bchosen:
        run.sample({"b1_burst_schedule": next((v for v in bchosen if v["timer"] > 0), bchosen[0])})
    for m in br["mismatches"] or []:
        o, v = m["outcome"], m["vector"]
        run.violation("b1:burst:%s:%s:%s" % (m["mode"], o["kind"], o["shape"] or "-"),
                      "end of the follow pipeline (%s, batch size %d), schedule %s: %s at step %d - %s; the held batches read %s, "
                      "the lines appended are %s" % (m["mode"], v["batch"], burst_sig(v), o["kind"], o["step"], o["detail"],
                                                     o["got"], o["want"]), m)
    pr = json.load(open(pres_path))
    run.cov["traces_validated_against_impl"] += pr["runs"]
    run.cov["evaluations"] += pr["runs"]
    run.cov["distinct_nontrivial"] += pr["histories"]
    run.cov["b1_phase_histories_enumerated"] = ptotal
    run.cov["b1_phase_placement_classes"] = len(pclasses)
    run.cov["b1_phase_histories_replayed"] = pr["histories"]
    run.cov["b1_phase_unconfirmed_timeouts"] = pr["flaky_timeouts"]
    # schedule fidelity (coverage only, never a verdict): re-opens of the path seen through inotify IN_OPEN
    run.cov["b1_phase_stat_window_in_place"] = {
        "planned": pr["stat_window_inplace_planned"], "measured": pr["stat_window_inplace_measured"],
        "reader_reopened": pr["stat_window_inplace_reopened"],
        "reopen_count_equals_model": "%d of %d" % (pr["reopen_count_as_model"], pr["reopen_measured"])}
    if pchosen:
        run.sample({"b1_phase_history": next((v for v in pchosen if inplace_stat(v)), pchosen[0])})
    for m in pr["mismatches"] or []:
        o, v = m["outcome"], m["vector"]
        run.violation("b1:phase:%s:%s:%s" % (m["mode"], o["kind"], o["shape"] or "-"),
                      "polling follow reader (%s, %d read attempts per round), history %s: %s at step %d after [%s] - %s; delivered %s, "
                      "specification expects %s (%d of %d executions)" % (
                          m["mode"], v["attempts"], phase_sig(v), o["kind"], o["step"], o["shape"], o["detail"], b2s(o["got"]),
                          b2s(o["want"]), m["seen"], m["runs"]), m)
    res = json.load(open(res_path))
    run.cov["traces_validated_against_impl"] += res["runs"]
    run.cov["evaluations"] += res["runs"]
    run.cov["distinct_nontrivial"] += res["distinct_nontrivial"]
    run.cov["b1_histories_enumerated"] = total
    run.cov["b1_histories_replayed"] = res["histories"]
    run.cov["b1_unconfirmed_timeouts"] = res["flaky_timeouts"]
    for v in chosen[:2]:
        run.sample({"b1_history": v})
    for m in res["mismatches"] or []:
        o, v = m["outcome"], m["vector"]
        run.violation("b1:%s:%s:%s" % (m["mode"], o["kind"], shape_class(o["shape"])),
                      "follow reader (%s), history %s: %s at step %d after [%s] - %s; delivered %s, specification expects %s (%d of %d executions)" % (
                          m["mode"], ops(v), o["kind"], o["step"], o["shape"], o["detail"], b2s(o["got"]), b2s(o["want"]),
                          m["seen"], m["runs"]), m)

    # ------------------------------------------------------------------ B2: recorded executions vs Follow.tla
    traces = [("b1", b1_trace), ("phase", p_trace)]
    summary = json.load(open(sm))
    run.cov["b2_random_recreations"] = summary["recreations"]
    run.cov["b2_unconfirmed_timeouts"] = summary["flaky_timeouts"]
    traces.append(("random", tr))
    traces.append(("e2e", cli))
    events = 0
    for name, path in traces:
        if not any('"event":"reset"' in line for line in open(path)):
            raise Inconclusive("no traces recorded (%s)" % name)
    vres = parallel([lambda n=name, p=path: validate_traces(run, "Follow_Trace", p, label="Follow_Trace " + n)
                     for name, path in traces], 4)
    for (name, path), (r_, r) in zip(traces, vres):
        ntr = sum(1 for line in open(path) if '"event":"reset"' in line)
        events += r_["consumed"]
        if name not in ("b1", "phase"):     # the b1 executions were counted above
            run.cov["traces_validated_against_impl"] += ntr
            run.cov["evaluations"] += ntr
            run.cov["distinct_nontrivial"] += ntr
        lines = open(path).read().splitlines()
        if name == "random":
            run.sample({"b2_trace_head": [json.loads(x) for x in lines[:8]]})
        for bad in r_["bad"]:
            sl = trace_slice(path, bad["t"])
            head = json.loads(sl.splitlines()[0])
            ev = json.loads(lines[bad["l"] - 1])
            mode = "%s:%s:%s" % ("poll" if head["poll"] else "notify", "reopen" if head["reopen"] else "plain",
                                 "tail" if head["tail"] else "start")
            s0 = next(i for i, x in enumerate(lines) if '"event":"reset"' in x and json.loads(x).get("t") == bad["t"])
            before = [e for e in (json.loads(x)["event"] for x in lines[s0:bad["l"] - 1])
                      if e in ("append", "remove", "create", "read")][-4:]
            p = run.save_replay("trace-%s-%d.ndjson" % (name, bad["t"]), sl)
            run.violation("b2:%s:%s:%s:%s" % (name, mode, ev["event"], "+".join(before)),
                          "recorded execution (%s, %s) is not a behaviour of Follow.tla: rejected record %s after %s" % (
                              name, mode, json.dumps(ev)[:200], before), p)
    # the executions at the end of the pipeline against FollowBatch's laws on the observation
    if not any('"event":"reset"' in line for line in open(b_trace)):
        raise Inconclusive("no traces recorded (burst)")
    r_, r = validate_traces(run, "FollowBatch_Trace", b_trace, label="FollowBatch_Trace")
    events += r_["consumed"]
    blines = open(b_trace).read().splitlines()
    for bad in r_["bad"]:
        sl = trace_slice(b_trace, bad["t"])
        head = json.loads(sl.splitlines()[0])
        ev = json.loads(blines[bad["l"] - 1])
        p = run.save_replay("trace-burst-%d.ndjson" % bad["t"], sl)
        run.violation("b2:burst:%s:%s:%s" % (head["sink"], "plain" if head["plain"] else "reopen", ev["event"]),
                      "recorded execution at the end of the follow pipeline (%s, batch size %d) is not a behaviour of FollowBatch: "
                      "rejected record %s" % (head["sink"], head["batch"], json.dumps(ev)[:300]), p)
    run.cov["b2_events"] = events
    run.cov["rule"] = ("B3: all behaviours of FollowNotify/FollowPoll within the listed bounds; B1: histories enumerated by TLC from "
                       "Follow_Gen (seeded sample, half of them with removal+re-creation+append between two reads), each executed "
                       "twice on real files, non-trivial = at least two environment operations; histories from FollowPoll_Gen "
                       "(every operation placed at a phase of the poller's round, sample spread over the placement classes); B2: every B1 execution, seeded "
                       "random multi-cycle histories and end-to-end runs, one trace each")

"""C15 - follow mode delivers every appended byte exactly once, in order."""
import json
import os
import random
from vf import Inconclusive, parallel, require_clean, validate_traces, trace_slice, vfj_lines, b2s

CLAIM = {
    "text": "TLC exhaustively checks implementation-shaped models of both follow readers (FollowNotify: read-until-empty, select over the two coalescing 1-buffered signals, fsnotify/watcher goroutines, the delete branch as repaired; FollowPoll: read attempts, stat, size vs readBytes, a re-open block that replaces the handle - a new handle stands at offset 0 - and seeks it to readBytes or restarts; 1, 2, 3 and 5 read attempts per round, also on a file that stays in place and merely grew between the last read attempt and the stat, with the law that the reader's count is the offset of the handle it reads from; controls: a resume-seek that does not reach the new handle, or resumes at the stat'ed size, is refuted) against the abstract Follow specification for every interleaving of up to 3-4 appends, 1-2 removals-after-drain and 1-2 re-creations with all reader/watcher steps x {reopen} x {tail}: delivered stream always a prefix of the expected one (no loss, duplication, reordering), no EOF while the file exists, the poll side condition in its exact and its observable form, refinement, no lost wake-up, and liveness (quiet environment ~> everything delivered / stream ended) under weak fairness. Histories enumerated by TLC with the specification's expected stream are executed on real files with the real followreader.New (notify and poll), the harness placing Read calls before/while/after the operations; for the poller TLC also enumerates the PHASE of the polling round at which every operation lands (after the k-th empty read attempt, k = ReadAttempts being the window before the stat; FollowPoll_Gen) and the harness imposes it by timing on a free-running reader with PollDelay/ReadAttempts set from the vector, and end to end with the production 5 x 250 ms; every execution, seeded random multi-cycle histories and end-to-end runs through batchers.TailFilesToChan and `rare filter -f/-F` are recorded and validated by TLC against Follow.tla.",
    "note": "Bounded: exhaustive only within the listed history bounds; real timing is sampled, not enumerated, for the inotify reader (each history is executed a few times; which signal select takes is up to the Go runtime); for the poller the phase of the round is imposed by sleeping (20 ms delays, operations mid-sleep), so a phase can be missed under load - that costs coverage, never a false alarm, and the hit rate is measured (re-opens of the path seen through inotify IN_OPEN); the few microseconds between the stat and the open cannot be targeted (model only). Liveness on the real code means 'within 10 s, repeated on re-run'. Trusted: fsnotify/inotify (modelled as in-order events, write/create dropped when the path is absent), the OS file system, TLC. Rename-based rotation, truncation and removal of undelivered data are outside the property's histories and not checked.",
    "technique": "TLA+ refinement + liveness model checking (TLC) + model-history replay on real files + trace validation",
}

NOTIFY_INV = "TypeOK PrefixOK NoEarlyEnd NoDomLoss NoLostWakeup"
POLL_INV = "TypeOK PrefixOK NoEarlyEnd DomImplies PrefixOKP NoEarlyEndP HandleOK InPlaceExact"


def b(x):
    return "TRUE" if x else "FALSE"


def notify_cfg(reopen, tail, apps, cycles, lens="{1, 2}", branch="samefile", invs=NOTIFY_INV, props="Refines Live", initlen=1):
    return ("SPECIFICATION Spec\nCONSTANTS Reopen = %s\n TailMode = %s\n InitLen = %d\n AppLens = %s\n MaxAppends = %d\n"
            " MaxRemoves = %d\n MaxCreates = %d\n BufSize = 2\n DeleteBranch = \"%s\"\nINVARIANTS %s\n%sCHECK_DEADLOCK FALSE\n" % (
                b(reopen), b(tail), initlen, lens, apps, cycles, cycles, branch, invs,
                ("PROPERTIES %s\n" % props) if props else ""))


def poll_cfg(reopen, tail, apps, cycles, lens="{1, 2}", attempts=2, invs=POLL_INV, props="Refines Live LiveP", initlen=1,
             resume="readBytes", buf=2):
    return ("SPECIFICATION Spec\nCONSTANTS Reopen = %s\n TailMode = %s\n InitLen = %d\n AppLens = %s\n MaxAppends = %d\n"
            " MaxRemoves = %d\n MaxCreates = %d\n BufSize = %d\n ReadAttempts = %d\n Resume = \"%s\"\nINVARIANTS %s\n%sCHECK_DEADLOCK FALSE\n" % (
                b(reopen), b(tail), initlen, lens, apps, cycles, cycles, buf, attempts, resume, invs,
                ("PROPERTIES %s\n" % props) if props else ""))


def pgen_cfg(reopen, tail, attempts, buf, apps, cycles, lens, rounds=1):
    """FollowPoll_Gen: histories with the phase of the poller's round at which every operation lands."""
    return ("INIT GInit\nNEXT GNext\nCONSTANTS Reopen = %s\n TailMode = %s\n InitLen = 2\n AppLens = %s\n MaxAppends = %d\n"
            " MaxRemoves = %d\n MaxCreates = %d\n BufSize = %d\n ReadAttempts = %d\n Resume = \"readBytes\"\n MaxRounds = %d\n"
            "INVARIANTS GenAgrees GHandleOK Dump\nCHECK_DEADLOCK FALSE\n" % (
                b(reopen), b(tail), lens, apps, cycles, cycles, buf, attempts, rounds))


def gen_cfg(poll, reopen, tail, apps, cycles, lens, starts=1, settles=1, drains=3):
    return ("INIT GInit\nNEXT GNext\nCONSTANTS Poll = %s\n Reopen = %s\n TailMode = %s\n InitLen = 2\n AppLens = %s\n"
            " MaxAppends = %d\n MaxRemoves = %d\n MaxCreates = %d\n MaxStarts = %d\n MaxSettles = %d\n MaxDrains = %d\n"
            "INVARIANTS Dump\nPROPERTIES GSafe\nCHECK_DEADLOCK FALSE\n" % (
                b(poll), b(reopen), b(tail), lens, apps, cycles, cycles, starts, settles, drains))


CONTROLS = [
    ("FollowNotify", "control: original delete branch loses the wake-up (the repaired defect)",
     notify_cfg(True, False, 2, 1, lens="{1}", branch="close", invs="NoLostWakeup", props=""), "NoLostWakeup"),
    ("FollowNotify", "control: re-open without identity check re-delivers after a stale delete signal",
     notify_cfg(True, False, 2, 2, lens="{1}", branch="reopen", invs="PrefixOK", props=""), "PrefixOK"),
    ("FollowPoll", "control: without its side condition the poller loses data",
     poll_cfg(True, False, 3, 1, invs="PrefixAlways", props=""), "PrefixAlways"),
    # the file STAYS IN PLACE (no removal at all) in the next three
    ("FollowPoll", "control: resume-seek that does not reach the new handle re-delivers a file that only grew (stat window)",
     poll_cfg(True, False, 3, 0, attempts=2, resume="none", invs="PrefixOK", props=""), "PrefixOK"),
    ("FollowPoll", "control: resuming at the stat'ed size loses what was appended before the open",
     poll_cfg(True, False, 3, 0, attempts=2, resume="size", invs="PrefixOK", props=""), "PrefixOK"),
    ("FollowPoll", "control (reachability): a file that stays in place does go through the re-open block",
     poll_cfg(True, False, 2, 0, attempts=3, invs="NeverReopensInPlace", props=""), "NeverReopensInPlace"),
]


def ops(v):
    return [s["op"] + (str(len(s["data"])) if s["op"] == "append" else "") for s in v["steps"]]


def rotation_before_read(v):
    """remove, re-create and append all happen between two drains (the reader sees them at once)."""
    seg = []
    for s in v["steps"]:
        if s["op"] == "drain":
            if "remove" in seg and "create" in seg and seg.index("create") < len(seg) - 1 and "append" in seg[seg.index("create"):]:
                return True
            seg = []
        else:
            seg.append(s["op"])
    return False


def two_rotations_before_read(v):
    """both removal/re-creation cycles and an append happen between two drains."""
    seg = []
    for s in v["steps"] + [{"op": "drain"}]:
        if s["op"] == "drain":
            if seg.count("remove") == 2 and seg.count("create") == 2 and "append" in seg:
                return True
            seg = []
        else:
            seg.append(s["op"])
    return False


def where(v, st):
    if st.get("pre"):
        return "pre"
    return "stat" if st.get("k", 0) >= v["attempts"] else "read"


def phase_sig(v):
    """placement class of a FollowPoll_Gen history: every environment operation with where it lands."""
    return ",".join("%s@%s%s" % (st["op"], where(v, st), "" if st.get("pre") or st.get("r", 0) == 0 else "+")
                    for st in v["steps"] if st["op"] in ("append", "remove", "create"))


def inplace_stat(v):
    """an append lands between the last read attempt of a round and the stat while the file stays in place."""
    for st in v["steps"]:
        if st["op"] == "remove":
            return False
        if st["op"] == "append" and where(v, st) == "stat":
            return True
    return False


def stratified(rng, vs, n, key):
    """n vectors, spread evenly over the classes given by key (round robin over shuffled classes)."""
    groups = {}
    for v in vs:
        groups.setdefault(key(v), []).append(v)
    keys = sorted(groups)
    rng.shuffle(keys)
    for k in keys:
        rng.shuffle(groups[k])
    out = []
    while len(out) < n and keys:
        for k in list(keys):
            if groups[k]:
                out.append(groups[k].pop())
                if len(out) >= n:
                    break
            else:
                keys.remove(k)
    return out


def shape_class(shape):
    """coarse, stable class of the operations since the last drain: used in violation signatures."""
    o, placement = shape.split("|")
    o = [x for x in o.split(",") if x and x != "settle"]
    out = []
    for x in o:
        if not out or out[-1] != x:
            out.append(x)
    return "+".join(out) + "@" + placement


def check(run):
    quick = run.tier == "quick"
    run.assumptions += [
        "fsnotify/inotify: one event per operation on the watched directory, delivered in order; a write/create event is dropped when the path does not exist at the moment fsnotify handles it (ignoreLinux); trusted",
        "domain: histories of append / pause / remove-after-drain / re-create on a file that exists when following starts; removal only after everything appended was delivered (the property's precondition)",
        "poll + re-open: demands apply only while the re-created file stays shorter than what was delivered from its predecessor until the reader delivered a first byte of it (observable form of 'when the poller notices it'; the exact form is checked on FollowPoll's ghost)",
        "plain follow + poll: the end of the stream is demanded only while the path stays empty (a poller cannot see a removal that was followed by a re-creation); plain follow + inotify: always",
        "liveness on the real code: expected bytes within 10 s; an overrun counts only when it repeats on re-run of the same history",
        "timing relative to the poller's round is imposed by timing (PollDelay 20 ms, operations in the middle of the chosen sleep; 250 ms end to end): the expectation does not depend on the phase, a missed phase only costs coverage (measured: b1_phase_stat_window_in_place)",
        "not covered: rename-based rotation, truncation, removal of a file with undelivered data, a path that does not exist when following starts",
    ]
    run.build_harness()

    # ------------------------------------------------------------------ B3: exhaustive model check
    apps, cyc = (3, 1) if quick else (5, 2)
    jobs = []
    for reopen in (True, False):
        for tail in (True, False):
            jobs.append(("FollowNotify", "notify reopen=%s tail=%s apps=%d cycles=%d" % (reopen, tail, apps, cyc),
                         notify_cfg(reopen, tail, apps, cyc, initlen=2 if tail else 1), reopen and not tail))
            jobs.append(("FollowPoll", "poll reopen=%s tail=%s apps=%d cycles=%d" % (reopen, tail, apps, cyc),
                         poll_cfg(reopen, tail, apps, cyc, initlen=2 if tail else 1), reopen and not tail))
    # two removal/re-creation cycles (stale delete signals, a file that is never looked at)
    jobs.append(("FollowNotify", "notify reopen 2 cycles", notify_cfg(True, False, 3, 2 if quick else 3, lens="{1, 2}" if quick else "{1}"), False))
    jobs.append(("FollowPoll", "poll reopen 2 cycles", poll_cfg(True, False, 3, 2 if quick else 3, attempts=2 if quick else 3), False))
    # a file that stays in place (no removal): every timing of the appends relative to the read attempts, the
    # stat and the re-open block, for several lengths of the round incl. the production value
    # (the configurations above have 2 read attempts per round and include the histories without removal)
    for att, a in ((1, 4), (5, 2)) if quick else ((1, 6), (2, 6), (3, 5), (5, 4)):
        jobs.append(("FollowPoll", "poll reopen in place attempts=%d apps=%d" % (att, a),
                     poll_cfg(True, False, a, 0, attempts=att, buf=2 if att != 3 else 1), False))
    if not quick:
        jobs.append(("FollowPoll", "poll reopen tail in place attempts=3", poll_cfg(True, True, 6, 0, attempts=3, initlen=2), False))
    if not quick:
        jobs.append(("FollowNotify", "notify reopen apps=6 lens{1,2,3}", notify_cfg(True, False, 6, 1, lens="{1, 2, 3}"), False))
        jobs.append(("FollowPoll", "poll reopen apps=6 lens{1,2,3} attempts=5", poll_cfg(True, False, 6, 1, lens="{1, 2, 3}", attempts=5, initlen=3), False))
    gens = [(poll, reopen, tail) for poll in (False, True) for reopen in (True, False) for tail in (False, True)]
    # in plain follow the lengths of the appends play no role: one length keeps the generator small
    glens = lambda g: "{1, 2}" if (g[0] and g[1]) or not quick else "{1}"
    # FollowPoll_Gen: (reopen, tail, ReadAttempts, BufSize, appends, cycles, lengths, rounds)
    pgens = [(True, False, 1, 2, 3, 1, "{1, 2}", 1), (True, False, 2, 4, 3, 1, "{1}", 1), (True, False, 3, 3, 2, 1, "{1, 2}", 1),
             (True, True, 2, 4, 2, 1, "{1, 2}", 1), (False, False, 2, 4, 3, 1, "{1}", 1)]
    if not quick:
        pgens += [(False, True, 1, 4, 3, 1, "{1}", 1),
                  (True, False, 2, 4, 3, 1, "{1, 2}", 1), (True, False, 3, 2, 3, 1, "{1, 2}", 1), (True, False, 5, 8, 2, 1, "{1, 2}", 1), (True, False, 2, 1, 3, 2, "{1}", 2),
                  (True, True, 3, 4, 3, 1, "{1}", 1), (False, False, 3, 2, 3, 1, "{1}", 2), (True, False, 1, 1, 4, 1, "{1}", 2)]
    W = 1 if quick else 2     # at most 6 TLC workers at a time
    pool = [lambda j=j: (j, run.tlc(j[0], j[2], workers=W, label=j[1], coverage=j[3], timeout=3000)) for j in jobs]
    pool += [lambda g=g: run.tlc("Follow_Gen", gen_cfg(g[0], g[1], g[2], 3, 1, glens(g), drains=2 if quick and g[0] else 3),
                                 workers=W, timeout=1200, label="Follow_Gen poll=%s reopen=%s tail=%s" % g) for g in gens]
    pool += [lambda c=c: run.tlc(c[0], c[2], workers=W, label=c[1], timeout=600) for c in CONTROLS]
    # two removal/re-creation cycles under inotify (stale delete signals)
    pool += [lambda: run.tlc("Follow_Gen", gen_cfg(False, True, False, 2, 2, "{1}", drains=2 if quick else 3), workers=W, timeout=1200,
                             label="Follow_Gen notify reopen 2 cycles")]
    pool += [lambda g=g: run.tlc("FollowPoll_Gen", pgen_cfg(*g), workers=W, timeout=1800,
                                 label="FollowPoll_Gen reopen=%s tail=%s attempts=%d buf=%d apps=%d cycles=%d lens=%s rounds=%d" % g)
             for g in pgens]
    allres = parallel(pool, 6 if quick else 3)
    n1, n2, n3 = len(jobs), len(jobs) + len(gens), len(jobs) + len(gens) + len(CONTROLS)
    res, gres, cres, g2, pres = allres[:n1], allres[n1:n2], allres[n2:n3], allres[n3], allres[n3 + 1:]
    for j, r in res:
        require_clean(run, r, j[1])
        if j[3]:
            names = ("Append1", "Remove1", "Create1", "KDeq", "WSig", "RRead", "RSelW", "RSelD", "RReopen",
                     "PRead", "PStat", "POpen")
            zero = [a for a, (n, _) in r.coverage.items() if n == 0 and a.split(".")[1] in names]
            if zero:
                raise Inconclusive("vacuous model: actions never taken: %s" % zero)
    # controls: the model must be able to see the defects it is there to exclude
    for (mod, label, cfg, want), r in zip(CONTROLS, cres):
        if want not in r.violated:
            raise Inconclusive("%s: expected %s to be violated, got %s" % (label, want, r.violated))

    # ------------------------------------------------------------------ B1: histories on real files
    rng = random.Random(run.seed)
    per_cfg = 110 if quick else 1000
    vec_path = os.path.join(run.scratch, "c15-vectors.ndjson")
    total, chosen = 0, []
    for g, r in zip(gens, gres):
        if r.violated or r.errors:
            raise Inconclusive("generator failed: %s" % r.out[-2000:])
        vs = vfj_lines(r.out)
        total += len(vs)
        if len(vs) < 500:
            raise Inconclusive("generator produced only %d histories for %s" % (len(vs), g))
        rot = [v for v in vs if rotation_before_read(v)]
        rest = [v for v in vs if not rotation_before_read(v) and sum(1 for s in v["steps"] if s["op"] in ("append", "remove", "create")) >= 2]
        k1 = min(len(rot), per_cfg // 2)
        pick = rng.sample(rot, k1) + rng.sample(rest, min(len(rest), per_cfg - k1))
        chosen += pick
    if g2.violated or g2.errors:
        raise Inconclusive("generator failed: %s" % g2.out[-2000:])
    vs2 = [v for v in vfj_lines(g2.out) if [s["op"] for s in v["steps"]].count("create") == 2]
    total += len(vs2)
    both = [v for v in vs2 if two_rotations_before_read(v)]
    if len(both) < 20:
        raise Inconclusive("two-cycle generator produced only %d suitable histories" % len(both))
    chosen += rng.sample(both, min(len(both), 60 if quick else 600))
    chosen += rng.sample(vs2, min(len(vs2), 30 if quick else 600))
    with open(vec_path, "w") as f:
        for v in chosen:
            f.write(json.dumps(v, separators=(",", ":")) + "\n")
    # histories with the phase of the poller's round at which every operation lands (FollowPoll_Gen), spread evenly
    # over the placement classes; half of them with an append in the stat window of a file that stays in place
    per_phase = 72 if quick else 400
    pvec_path = os.path.join(run.scratch, "c15-phase-vectors.ndjson")
    ptotal, pchosen, pclasses = 0, [], set()
    for g, r in zip(pgens, pres):
        if r.violated or r.errors:
            raise Inconclusive("FollowPoll_Gen %s: %s %s\n%s" % (g, r.violated, r.errors[:3], r.out[-2000:]))
        vs = vfj_lines(r.out)
        ptotal += len(vs)
        if len(vs) < 200:
            raise Inconclusive("FollowPoll_Gen produced only %d histories for %s" % (len(vs), g))
        pclasses |= {phase_sig(v) for v in vs}
        ip = [v for v in vs if inplace_stat(v)]
        other = [v for v in vs if not inplace_stat(v)]
        if g[0] and not ip:
            raise Inconclusive("FollowPoll_Gen %s: no history with an append in the stat window of a file in place" % (g,))
        k1 = min(len(ip), per_phase // 2) if g[0] else min(len(ip), per_phase // 4)
        pchosen += stratified(rng, ip, k1, phase_sig) + stratified(rng, other, per_phase - k1, phase_sig)
    with open(pvec_path, "w") as f:
        for v in pchosen:
            f.write(json.dumps(v, separators=(",", ":")) + "\n")
    pres_path = os.path.join(run.scratch, "c15-phase.json")
    p_trace = os.path.join(run.scratch, "c15-phase-trace.ndjson")
    res_path = os.path.join(run.scratch, "c15-replay.json")
    b1_trace = os.path.join(run.scratch, "c15-b1-trace.ndjson")
    tr = os.path.join(run.scratch, "c15-trace.ndjson")
    sm = os.path.join(run.scratch, "c15-trace.json")
    cli = os.path.join(run.scratch, "c15-cli.ndjson")
    rare_bin = run.build_cli()
    # the three drivers mostly wait; together they stay far below the inotify instance limit (128)
    parallel([
        lambda: run.drv(["replay", "-in", vec_path, "-out", res_path, "-trace", b1_trace, "-reps", 2,
                         "-par", 24], timeout=3000),
        lambda: run.drv(["trace", "-out", tr, "-summary", sm, "-n", 250 if quick else 4000, "-maxops", 14 if quick else 30,
                         "-big", 120 if quick else 600, "-par", 16], timeout=3000),
        lambda: run.drv(["cli", "-out", cli, "-bin", rare_bin, "-n", 3 if quick else 25], timeout=3000),
        lambda: run.drv(["phase", "-in", pvec_path, "-out", pres_path, "-trace", p_trace, "-reps", 1 if quick else 2,
                         "-par", 32, "-pd", 20], timeout=3000),
    ], 4)
    pr = json.load(open(pres_path))
    run.cov["traces_validated_against_impl"] += pr["runs"]
    run.cov["evaluations"] += pr["runs"]
    run.cov["distinct_nontrivial"] += pr["histories"]
    run.cov["b1_phase_histories_enumerated"] = ptotal
    run.cov["b1_phase_placement_classes"] = len(pclasses)
    run.cov["b1_phase_histories_replayed"] = pr["histories"]
    run.cov["b1_phase_unconfirmed_timeouts"] = pr["flaky_timeouts"]
    # schedule fidelity (coverage only, never a verdict): re-opens of the path seen through inotify IN_OPEN
    run.cov["b1_phase_stat_window_in_place"] = {
        "planned": pr["stat_window_inplace_planned"], "measured": pr["stat_window_inplace_measured"],
        "reader_reopened": pr["stat_window_inplace_reopened"],
        "reopen_count_equals_model": "%d of %d" % (pr["reopen_count_as_model"], pr["reopen_measured"])}
    if pchosen:
        run.sample({"b1_phase_history": next((v for v in pchosen if inplace_stat(v)), pchosen[0])})
    for m in pr["mismatches"] or []:
        o, v = m["outcome"], m["vector"]
        run.violation("b1:phase:%s:%s:%s" % (m["mode"], o["kind"], o["shape"] or "-"),
                      "polling follow reader (%s, %d read attempts per round), history %s: %s at step %d after [%s] - %s; delivered %s, "
                      "specification expects %s (%d of %d executions)" % (
                          m["mode"], v["attempts"], phase_sig(v), o["kind"], o["step"], o["shape"], o["detail"], b2s(o["got"]),
                          b2s(o["want"]), m["seen"], m["runs"]), m)
    res = json.load(open(res_path))
    run.cov["traces_validated_against_impl"] += res["runs"]
    run.cov["evaluations"] += res["runs"]
    run.cov["distinct_nontrivial"] += res["distinct_nontrivial"]
    run.cov["b1_histories_enumerated"] = total
    run.cov["b1_histories_replayed"] = res["histories"]
    run.cov["b1_unconfirmed_timeouts"] = res["flaky_timeouts"]
    for v in chosen[:2]:
        run.sample({"b1_history": v})
    for m in res["mismatches"] or []:
        o, v = m["outcome"], m["vector"]
        run.violation("b1:%s:%s:%s" % (m["mode"], o["kind"], shape_class(o["shape"])),
                      "follow reader (%s), history %s: %s at step %d after [%s] - %s; delivered %s, specification expects %s (%d of %d executions)" % (
                          m["mode"], ops(v), o["kind"], o["step"], o["shape"], o["detail"], b2s(o["got"]), b2s(o["want"]),
                          m["seen"], m["runs"]), m)

    # ------------------------------------------------------------------ B2: recorded executions vs Follow.tla
    traces = [("b1", b1_trace), ("phase", p_trace)]
    summary = json.load(open(sm))
    run.cov["b2_random_recreations"] = summary["recreations"]
    run.cov["b2_unconfirmed_timeouts"] = summary["flaky_timeouts"]
    traces.append(("random", tr))
    traces.append(("e2e", cli))
    events = 0
    for name, path in traces:
        if not any('"event":"reset"' in line for line in open(path)):
            raise Inconclusive("no traces recorded (%s)" % name)
    vres = parallel([lambda n=name, p=path: validate_traces(run, "Follow_Trace", p, label="Follow_Trace " + n)
                     for name, path in traces], 4)
    for (name, path), (r_, r) in zip(traces, vres):
        ntr = sum(1 for line in open(path) if '"event":"reset"' in line)
        events += r_["consumed"]
        if name not in ("b1", "phase"):     # the b1 executions were counted above
            run.cov["traces_validated_against_impl"] += ntr
            run.cov["evaluations"] += ntr
            run.cov["distinct_nontrivial"] += ntr
        lines = open(path).read().splitlines()
        if name == "random":
            run.sample({"b2_trace_head": [json.loads(x) for x in lines[:8]]})
        for bad in r_["bad"]:
            sl = trace_slice(path, bad["t"])
            head = json.loads(sl.splitlines()[0])
            ev = json.loads(lines[bad["l"] - 1])
            mode = "%s:%s:%s" % ("poll" if head["poll"] else "notify", "reopen" if head["reopen"] else "plain",
                                 "tail" if head["tail"] else "start")
            s0 = next(i for i, x in enumerate(lines) if '"event":"reset"' in x and json.loads(x).get("t") == bad["t"])
            before = [e for e in (json.loads(x)["event"] for x in lines[s0:bad["l"] - 1])
                      if e in ("append", "remove", "create", "read")][-4:]
            p = run.save_replay("trace-%s-%d.ndjson" % (name, bad["t"]), sl)
            run.violation("b2:%s:%s:%s:%s" % (name, mode, ev["event"], "+".join(before)),
                          "recorded execution (%s, %s) is not a behaviour of Follow.tla: rejected record %s after %s" % (
                              name, mode, json.dumps(ev)[:200], before), p)
    run.cov["b2_events"] = events
    run.cov["rule"] = ("B3: all behaviours of FollowNotify/FollowPoll within the listed bounds; B1: histories enumerated by TLC from "
                       "Follow_Gen (seeded sample, half of them with removal+re-creation+append between two reads), each executed "
                       "twice on real files, non-trivial = at least two environment operations; histories from FollowPoll_Gen "
                       "(every operation placed at a phase of the poller's round, sample spread over the placement classes); B2: every B1 execution, seeded "
                       "random multi-cycle histories and end-to-end runs, one trace each")

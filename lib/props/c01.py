"""C01 - every input line is read exactly once and classified exactly once."""
import json
import os
import re
import threading
import time
from vf import Inconclusive, parallel, require_clean, validate_traces, trace_slice, vfj_lines

CLAIM = {
    "text": "TLC exhaustively checks an implementation-shaped model of the pipeline (Pipeline.tla: opener with semaphore and WaitGroup, readers with full/timer/final batch cut, bounded batch channel, W workers with per-line classification and three atomic counters, readChan, close-after-Wait on both channels, consumer) for small file sets containing all four line classes: no send on a closed channel, every line classified at most once in every state and exactly once at the end, counters equal the ghost counts in every state, emitted bag = matched lines, refinement of the abstract bag specification PipelineObs, deadlock freedom and termination under weak fairness. TLC-simulated behaviours of that model (feed order, timer ticks, consumer pace) are replayed on the real batchers+extractor with the model's end state as expectation, and seeded random real executions (real files, FIFOs with chosen chunking, scripted stdin readers with the 250 ms and hook-shortened flush timer, lines longer than the 128 KiB buffer, CRLF, no trailing newline, random batch/workers/readers/buffer, regex/dissect/always matchers, random extract/ignore expressions) are recorded as batch/proc/ign/recv/final events and validated by the trace specification, which recomputes every line's class from the logged matcher/ignore/key facts; the `rare filter` binary's summary line and stdout keys are validated the same way. Two layers below the line-id model are specified and bound separately: PipelineBuf.tla composes the byte-level scanner model of C04 (ScannerImm, every chunk/buffer geometry within the bounds) with the reader loop, the batch channel, a worker and the consumer and states the assumption the pipeline makes of its scanner - no step changes the bytes under a view the pipeline still holds (HeldOK/HeldStable), hence every observer of line i sees the i-th input line (SeenOK, PFinalOK) - with a scanner that recycles a completely consumed buffer as negative control (refuted) and one that recycles only when nothing is held as the weaker design that still passes; PipelineIO.tla adds the input-opening layer (open, gzip probe consuming up to a window, rewind, stream inputs without open) to the reader life cycle, refines Pipeline when the fallback rewinds to the start and is refuted when it does not. The corpora exercise both: fixed-width lines dividing the 128 KiB read buffer in sources of k x 128 KiB +- a few lines with late-starting workers (files, FIFOs, scripted readers, the binary), and plain/gzip file sets read with -z whose plain sizes lie below, at and above the 4096-byte probe window.",
    "note": "Exhaustive only within the listed constants (<= 3 files, <= 5 lines, batch/workers/readers/buffer in 1..2); beyond that seeded random runs. Equal line contents are indistinguishable (identity by content). Expression evaluation and the matchers are taken as given (sequential reference uses the same library on an independent context); ignore values are restricted to ASCII for the truthiness rule. Non-atomic counter updates would show only as lost updates under contention (big multi-worker runs in the thorough tier).",
    "technique": "TLA+ refinement model checking (TLC) + model-behaviour replay + trace validation",
}

INVS = "TypeOK NoPanic SemaOK AtMostOnce CountersOK EmitOK LineNoOK FinalOK"


def consts(c, b, w, r, cap, rc, tf):
    return ("CONSTANTS\n Corpus = %d\n Lines <- MCLines\n Batch = %d\n Workers = %d\n Readers = %d\n"
            " BufCap = %d\n ReadCap = %d\n TimeFlush = %s\n" % (c, b, w, r, cap, rc, "TRUE" if tf else "FALSE"))


def mc_cfg(k, live):
    if live == "full":     # refinement including the abstract spec's fairness
        return "SPECIFICATION Spec\n" + consts(*k) + "INVARIANTS %s\nPROPERTIES Refines Terminates\n" % INVS
    if live == "step":     # invariants + safety part of the refinement (action property), no fairness
        return "INIT Init\nNEXT Next\n" + consts(*k) + "INVARIANTS %s\nPROPERTIES RefinesSafety\n" % INVS
    if live:               # safety part of the refinement as an action property + termination
        return "SPECIFICATION Spec\n" + consts(*k) + "INVARIANTS %s\nPROPERTIES RefinesSafety Terminates\n" % INVS
    return "INIT Init\nNEXT Next\n" + consts(*k) + "INVARIANTS %s\nVIEW View\n" % INVS


def gen_cfg(k):
    return "INIT GInit\nNEXT GNext\n" + consts(*k) + "INVARIANTS Dump\nCHECK_DEADLOCK FALSE\n"


# (corpus, batch, workers, readers, bufcap, readcap, timeflush), liveness+refinement?
# state counts measured: see evidence tlc_runs
QUICK_B3 = [   # index 3 is run with -coverage
    ((1, 2, 2, 2, 1, 1, True), "step"),   # 2x2 lines, everything concurrent, timer cuts: invariants + stepwise refinement
    ((1, 2, 2, 2, 1, 1, False), True),    # same without timer cuts: + termination under fairness
    ((2, 2, 2, 2, 1, 1, True), False),    # 3+2 lines: safety, ~139k states
    ((5, 1, 2, 2, 2, 2, False), False),   # 3 files (one empty) through a semaphore of 2
    ((4, 3, 1, 1, 1, 1, True), True),     # stdin shape (one source, timer flush), termination
    ((6, 2, 2, 1, 1, 1, False), "full"),  # nothing matches: readChan is closed without ever being used
    ((7, 1, 2, 1, 2, 1, False), True),    # everything matches, readChan of 1: workers block on the consumer
]
THOROUGH_B3 = [
    ((1, 2, 2, 2, 1, 1, True), "full"),
    ((1, 2, 2, 2, 1, 1, False), "full"),
    ((4, 3, 1, 1, 1, 1, True), "full"),
    ((3, 2, 2, 2, 1, 1, True), False),    # 2x3 lines: ~370k states
    ((3, 2, 2, 1, 1, 1, False), True),    # 2x3 lines, sequential readers: termination (the concurrent 2x3 liveness graph takes > 20 min)
    ((5, 1, 2, 2, 2, 2, False), False),
    ((3, 1, 2, 2, 2, 2, False), False),
    ((3, 3, 2, 1, 1, 2, True), False),
    ((2, 2, 2, 2, 1, 1, True), False),
    ((2, 2, 2, 2, 2, 1, True), "step"),    # (full liveness on 3+2 lines with buffer 2 takes > 12 min under load)
    ((2, 1, 1, 2, 1, 1, False), "full"),
    ((4, 3, 2, 1, 1, 1, True), "full"),
    ((4, 2, 2, 1, 2, 2, True), True),
    ((5, 2, 2, 2, 1, 1, True), True),
    ((5, 1, 1, 1, 1, 1, False), "full"),
    ((6, 2, 2, 1, 1, 1, False), "full"),
    ((7, 1, 2, 1, 2, 1, False), "full"),
    ((7, 2, 2, 1, 1, 5, True), True),
    ((8, 2, 2, 2, 1, 1, False), False),
    ((5, 1, 2, 3, 2, 2, False), "step"),  # three concurrent readers (corpus 8 with 3 readers exceeds 15 min)
    ((1, 1, 2, 1, 1, 5, False), "full"),
]
GEN = [  # behaviours replayed on the real code (ReadCap = 5 as in extractor.New)
    (1, 2, 2, 2, 1, 5, False), (2, 2, 2, 2, 1, 5, False), (3, 1, 2, 2, 2, 5, False), (5, 2, 2, 2, 1, 5, False),
    (8, 2, 2, 3, 1, 5, False), (4, 2, 2, 1, 1, 5, True), (7, 3, 2, 1, 1, 5, True), (6, 2, 2, 2, 1, 5, False),
]
GEN_MORE = [(3, 2, 2, 1, 2, 5, False), (5, 1, 2, 1, 1, 5, False), (4, 3, 1, 1, 2, 5, True), (7, 1, 2, 1, 1, 5, False)]
# ---- PipelineBuf (scanner views held by the pipeline) and PipelineIO (open / probe / rewind)
PB_INVS = "PTypeOK HeldOK SeenOK OnceOK PFinalOK Bounds"


def pb_cfg(maxlen, buf, batch, cap, reuse, invs=PB_INVS, props="HeldStable PTerminates"):
    if reuse == "never":
        invs += " Lifetime PrefixOK"
        props += " ScannerIsImm"
    return ("SPECIFICATION PSpec\nCONSTANTS Alphabet = {97, 98, 10}\n MaxLen = %d\n BufSize = %d\n MaxStall = 0\n"
            " PBatch = %d\n PCap = %d\n Reuse = \"%s\"\nINVARIANTS %s\n%sCHECK_DEADLOCK FALSE\n" % (
                maxlen, buf, batch, cap, reuse, invs, ("PROPERTIES %s\n" % props) if props else ""))


def io_cfg(k, gunzip, gz, streams, probe, rewind, live, invs=None, fifos=(), fifoprobe="peek"):
    c = consts(*k) + (" Gunzip = %s\n GzFiles = {%s}\n StreamFiles = {%s}\n ProbeLen = %d\n RewindTo = \"%s\"\n"
                      " FifoFiles = {%s}\n FifoProbe = \"%s\"\n") % (
        "TRUE" if gunzip else "FALSE", ",".join(map(str, gz)), ",".join(map(str, streams)), probe, rewind,
        ",".join(map(str, fifos)), fifoprobe)
    invs = invs or "TypeOKIO NoPanic SemaOKIO AtMostOnce CountersOK EmitOK LineNoOK FinalOK ScanFromStartOK"
    if live:
        return "SPECIFICATION SpecIO\n" + c + "INVARIANTS %s\nPROPERTIES IORefines Terminates\n" % invs
    if rewind != "start" or fifoprobe != "peek":   # negative control: only the named invariant
        return "INIT Init\nNEXT NextIO\n" + c + "INVARIANTS %s\n" % invs
    return "INIT Init\nNEXT NextIO\n" + c + "INVARIANTS %s\nPROPERTIES IORefines\n" % invs


# (module, cfg, label, expectation): expectation None = must pass; otherwise the invariant TLC must refute
def layer_jobs(quick):
    j = [
        ("PipelineBuf", pb_cfg(4, 2, 2, 1, "never"), "PipelineBuf MaxLen=4 BufSize=2 batch=2 cap=1 reuse=never (the code)", None),
        ("PipelineBuf", pb_cfg(4, 2, 2, 1, "free"), "PipelineBuf reuse only when nothing is held (weaker than C04 Lifetime, passes)", None),
        ("PipelineBuf", pb_cfg(4, 2, 2, 1, "always", props=""), "PipelineBuf reuse=always (negative control: must be refuted)", "HeldOK"),
        # plain file of 3 lines (above the window of 2) + gzip file, -z: refines Pipeline, terminates
        ("PipelineIO", io_cfg((2, 2, 2, 2, 1, 1, False), True, (2,), (), 2, "start", True), "PipelineIO corpus=2 -z plain+gz window=2 rewind=start refines+terminates", None),
        ("PipelineIO", io_cfg((2, 2, 2, 2, 1, 1, False), True, (2,), (), 2, "current", False, invs="FinalOK"), "PipelineIO rewind=current (negative control: must be refuted)", "FinalOK"),
        # three files: 1 line (below the window, a FIFO), empty, 3 lines (above); the third is a stream (no open/probe)
        ("PipelineIO", io_cfg((5, 1, 2, 2, 2, 2, False), True, (), (3,), 2, "start", False, fifos=(1,)), "PipelineIO corpus=5 -z fifo(below)+empty+stream safety+refines", None),
        ("PipelineIO", io_cfg((5, 1, 2, 2, 2, 2, False), True, (), (3,), 2, "start", False, invs="FinalOK", fifos=(1,), fifoprobe="consume"),
         "PipelineIO -z on a FIFO probed by consuming (the defect fixed by 0ceebc0: must be refuted)", "FinalOK"),
    ]
    if not quick:
        j += [
            ("PipelineBuf", pb_cfg(5, 2, 2, 1, "never"), "PipelineBuf MaxLen=5 BufSize=2 never", None),
            ("PipelineBuf", pb_cfg(5, 3, 1, 2, "never"), "PipelineBuf MaxLen=5 BufSize=3 batch=1 cap=2 never", None),
            ("PipelineBuf", pb_cfg(5, 1, 2, 2, "never"), "PipelineBuf MaxLen=5 BufSize=1 batch=2 cap=2 never", None),
            ("PipelineBuf", pb_cfg(5, 2, 1, 1, "free"), "PipelineBuf MaxLen=5 BufSize=2 batch=1 free", None),
            ("PipelineBuf", pb_cfg(4, 2, 1, 1, "free", invs="Lifetime", props=""), "PipelineBuf reuse=free violates C04's Lifetime (the pipeline's assumption is weaker)", "Lifetime"),
            ("PipelineBuf", pb_cfg(5, 2, 1, 1, "always", invs="PFinalOK", props=""), "PipelineBuf reuse=always: the consumer sees a line that is not in the input (must be refuted)", "PFinalOK"),
            ("PipelineBuf", pb_cfg(5, 3, 2, 2, "always", invs="SeenOK", props=""), "PipelineBuf BufSize=3 reuse=always (must be refuted)", "SeenOK"),
            ("PipelineIO", io_cfg((2, 2, 2, 2, 1, 1, True), True, (2,), (), 3, "start", False), "PipelineIO corpus=2 window=3 (= size of file 1) timer flush", None),
            ("PipelineIO", io_cfg((3, 2, 2, 2, 1, 1, False), True, (1,), (), 2, "start", False), "PipelineIO corpus=3 gz+plain(above)", None),
            ("PipelineIO", io_cfg((3, 2, 2, 2, 1, 1, False), True, (1,), (), 2, "start", False, fifos=(1, 2)), "PipelineIO corpus=3 gz and plain(above) through FIFOs", None),
            ("PipelineIO", io_cfg((3, 2, 2, 2, 1, 1, False), False, (), (), 2, "start", False), "PipelineIO corpus=3 without -z (open only)", None),
            ("PipelineIO", io_cfg((4, 3, 1, 1, 1, 1, True), True, (), (1,), 2, "start", True), "PipelineIO corpus=4 stdin stream under -z", None),
            ("PipelineIO", io_cfg((5, 1, 2, 2, 2, 2, False), True, (1,), (), 2, "start", True), "PipelineIO corpus=5 gz+empty+plain(above) refines+terminates", None),
            ("PipelineIO", io_cfg((3, 2, 2, 2, 1, 1, False), True, (), (), 1, "current", False, invs="LineNoOK"), "PipelineIO rewind=current breaks the line numbers too (must be refuted)", "LineNoOK"),
        ]
    return j


ACTIONS = ("OpenerStart", "OpenerLoopEnd", "OpenerClose", "ReaderScan", "ReaderSend", "ReaderExit",
           "WorkerRecv", "WorkerLine", "WorkerClassify", "WorkerSend", "Closer", "Consumer")


_start = threading.Lock()


def tlc(run, *a, **kw):
    """run.tlc with staggered starts (its working-directory counter is not thread safe)."""
    with _start:
        time.sleep(0.06)
    return run.tlc(*a, **kw)


def crash_verdict(run, p, what, current):
    """A dead driver is infrastructure trouble unless the Go runtime reports a panic / fatal error
    raised inside rare's pipeline packages (send on closed channel, negative WaitGroup, deadlock)."""
    err = p.stderr or ""
    m = re.search(r"^(panic: .*|fatal error: .*)$", err, re.M)
    cur = ""
    if current and os.path.exists(current):
        cur = open(current).read().strip()
    if m and re.search(r"rare/pkg/extractor", err):
        first = m.group(1)
        sig = "crash:" + re.sub(r"[^a-z]+", "-", first.lower())[:50].strip("-")
        run.violation(sig, "%s: the real pipeline crashed: %s (%s)" % (what, first, cur),
                      {"stderr": err[-6000:], "scenario": cur})
        return
    raise Inconclusive("driver %s failed (%d): %s" % (what, p.returncode, err[-3000:]))


def check(run):
    try:
        _check(run)
    except Inconclusive:
        raise
    except Exception as e:      # a bug in the machinery is never a verdict about the code
        import traceback
        raise Inconclusive("check failed: %s\n%s" % (e, traceback.format_exc()))


def _check(run):
    quick = run.tier == "quick"
    run.assumptions += [
        "B3 bounds: corpora of <= 3 files / <= 5 lines with all four classes, Batch/Workers/Readers/BufCap/ReadCap as listed in tlc_runs",
        "weak fairness of every goroutine (Go scheduler) for the termination property",
        "identity of lines is by content; expression evaluation and matchers are the library's (C08-C12)",
        "ignore-expression values are ASCII (domain of the truthiness rule in the trace spec)",
        "unbuffered batch channel (--batch-buffer 0) is outside the property's quantifier (buffer >= 1)",
        "PipelineBuf bounds: alphabet {a, b, LF}, streams <= 4 (5) bytes, buffer sizes 1..3, one worker, batch/channel sizes 1..2; the real 128 KiB geometry is exercised by the trace corpora only",
        "PipelineIO measures the probe window in lines (bytes and line fragments only in the trace corpora); under -z the lines of an input are the lines of its decoded content when it is a gzip stream (one or two members) and of its raw bytes otherwise; plain inputs that begin with the gzip magic number, corrupt and truncated gzip streams are not generated (C06)",
    ]
    run.build_harness()
    rare = run.build_cli()
    sc = run.scratch

    # ------------------------------------------------------------------ B3
    def b3():
        jobs = []
        cfgs = QUICK_B3 if quick else THOROUGH_B3
        for i, (k, live) in enumerate(cfgs):
            jobs.append(lambda k=k, live=live, i=i: (k, live, tlc(
                run, "Pipeline_MC", mc_cfg(k, live), workers=2, timeout=3000, coverage=(i == 3),
                label="Pipeline corpus=%d B=%d W=%d R=%d cap=%d rcap=%d tf=%s %s" % (k + ({"full": "refines+terminates", True: "refines(safety)+terminates", "step": "safety+refines(safety)", False: "safety"}[live],)))))
        lj = layer_jobs(quick)
        for mod, cfg, label, expect in lj:
            jobs.append(lambda mod=mod, cfg=cfg, label=label, expect=expect: (mod, expect, tlc(
                run, mod, cfg, workers=2, timeout=3000, label=label, coverage=(expect is None and "(the code)" in label))))
        out = parallel(jobs, 3)
        layers, out = out[len(cfgs):], out[:len(cfgs)]
        for k, live, r in out:
            require_clean(run, r, "Pipeline %s" % (k,))
        refuted = 0
        for (mod, expect, r), (_, _, label, _) in zip(layers, lj):
            if expect is None:
                require_clean(run, r, label)
            elif expect not in r.violated:
                raise Inconclusive("negative control not refuted as expected (%s): %s violated=%s\n%s" % (expect, label, r.violated, r.out[-1500:]))
            else:
                refuted += 1
        rpb = layers[0][2]
        zero = [a for a in ("ReaderScan", "ReaderSend", "ReaderClose", "WorkerRecv", "WorkerLine", "WorkerSend", "Consume")
                if rpb.coverage.get("PipelineBuf." + a, (0, 0))[0] == 0]
        if zero:
            raise Inconclusive("vacuous model: PipelineBuf actions never taken: %s" % zero)
        run.cov["b3_layer_configs"] = len(lj)
        run.cov["b3_negative_controls_refuted"] = refuted
        r0 = out[3][2]
        zero = [a for a in ACTIONS if r0.coverage.get("Pipeline." + a, (0, 0))[0] == 0]
        if zero:
            raise Inconclusive("vacuous model: actions never taken: %s" % zero)
        run.cov["b3_configs"] = len(cfgs)

    # ------------------------------------------------------------------ B1
    vec_path = os.path.join(sc, "c01-vectors.ndjson")

    def b1_gen():
        num = 60 if quick else 500
        jobs = [lambda k=k: tlc(run, "Pipeline_Gen", gen_cfg(k), workers=1, simulate="num=%d" % num, depth=400,
                                timeout=600, xmx="1g", label="Pipeline_Gen %s" % (k,))
                for k in (GEN if quick else GEN + GEN_MORE)]
        seen = set()
        with open(vec_path, "w") as f:
            for r in parallel(jobs, 4):
                if r.violated or r.errors:
                    raise Inconclusive("generator failed: %s" % r.out[-2000:])
                for v in vfj_lines(r.out):
                    key = json.dumps(v, sort_keys=True)
                    if key not in seen:
                        seen.add(key)
                        f.write(json.dumps(v, separators=(",", ":")) + "\n")
        if len(seen) < 50:
            raise Inconclusive("generator produced only %d behaviours" % len(seen))

    def b1_replay():
        res_path = os.path.join(sc, "c01-replay.json")
        d = os.path.join(sc, "replay-in")
        os.makedirs(d)
        p = run.drv(["replay", "-in", vec_path, "-out", res_path, "-dir", d, "-par", 6], check=False)
        if p.returncode != 0:
            crash_verdict(run, p, "B1 replay", None)
            return
        res = json.load(open(res_path))
        run.cov["traces_validated_against_impl"] += res["runs"]
        run.cov["evaluations"] += res["runs"]
        run.cov["distinct_nontrivial"] += res["distinct_nontrivial"]
        run.cov["b1_behaviours"] = res["runs"]
        run.cov["b1_batch_cuts_as_in_model"] = res["cuts_honoured"]
        run.cov["b1_with_timer_cut"] = res["with_timer_cut"]
        for s in res["samples"] or []:
            run.sample({"b1_behaviour": s})
        for m in res["mismatches"] or []:
            v = m["vector"]
            run.violation("b1:%s" % m["kind"],
                          "model behaviour (corpus %s, batch %d, workers %d, readers %d, buffer %d, timer %d, feed %s): real pipeline ended with %s, Pipeline.tla with %s" % (
                              v["kinds"], v["batch"], v["workers"], v["readers"], v["buf"], v["tf"], v["feed"], m["got"], m["want"]), m)

    # ------------------------------------------------------------------ B2
    both = os.path.join(sc, "c01-all.ndjson")
    b2st = {}

    def b2_run():
        d = os.path.join(sc, "trace-in")
        os.makedirs(d)
        tr = os.path.join(sc, "c01-trace.ndjson")
        cur = os.path.join(d, "current.txt")
        p = run.drv(["trace", "-out", tr, "-result", os.path.join(sc, "trace-result.json"), "-dir", d,
                     "-n", 110 if quick else 1000, "-big", 3 if quick else 12, "-slow", 1 if quick else 6,
                     "-huge", 1 if quick else 4, "-hugelines", 20000 if quick else 100000], check=False)
        if p.returncode != 0:
            crash_verdict(run, p, "B2 random scenarios", cur)
            return
        st = json.load(open(os.path.join(sc, "trace-result.json")))
        cl = os.path.join(sc, "c01-cli.ndjson")
        p = run.drv(["cli", "-rare", rare, "-out", cl, "-result", os.path.join(sc, "cli-result.json"), "-dir", d,
                     "-n", 16 if quick else 120, "-maxlines", 500 if quick else 2000], check=False)
        if p.returncode != 0:
            raise Inconclusive("cli driver failed: %s" % p.stderr[-2000:])
        cst = json.load(open(os.path.join(sc, "cli-result.json")))
        with open(both, "w") as f:
            f.write(open(tr).read())
            f.write(open(cl).read())
        b2st["st"], b2st["cst"] = st, cst

    # corpus families of PipelineBuf (buffer geometry) and PipelineIO (-z on mixed file sets): own trace file
    layers_tr = os.path.join(sc, "c01-layers.ndjson")
    b2lst = {}

    def b2_layers_run():
        d = os.path.join(sc, "layers-in")
        os.makedirs(d)
        cur = os.path.join(d, "current.txt")
        p = run.drv(["trace", "-out", layers_tr, "-result", os.path.join(sc, "layers-result.json"), "-dir", d,
                     "-n", 0, "-big", 0, "-slow", 0, "-huge", 0, "-first", 200001,
                     "-geom", 7 if quick else 48, "-gz", 9 if quick else 60], check=False)
        if p.returncode != 0:
            crash_verdict(run, p, "B2 geometry / gunzip scenarios", cur)
            return
        b2lst["st"] = json.load(open(os.path.join(sc, "layers-result.json")))

    def b2_layers_validate():
        if not b2lst:
            return
        st = b2lst["st"]
        if st["geometry"] == 0 or st["boundary_fills"] == 0:
            raise Inconclusive("no read-buffer fill ended on a line boundary in the geometry corpus")
        for k in ("below", "at", "above", "gz"):
            if st["gz_window"].get(k, 0) == 0:
                raise Inconclusive("the -z corpus has no %s file" % k)
        run.cov["b2_geometry_scenarios"] = st["geometry"]
        run.cov["b2_buffer_fills_ending_on_a_line_boundary"] = st["boundary_fills"]
        run.cov["b2_gunzip_scenarios"] = st["gunzip"]
        run.cov["b2_gunzip_files_by_probe_window"] = st["gz_window"]
        run.cov["b2_lines_layers"] = st["lines"]
        for k in ("matched", "ignored", "unmatched"):
            run.cov.setdefault("b2_classes_layers", {})[k] = st["classes"].get(k, 0)
        b2_report(layers_tr, "Pipeline_Trace (geometry / gunzip corpora)", st["multi_worker"])

    def b2_validate():
        if not b2st:
            return
        st, cst = b2st["st"], b2st["cst"]
        run.cov["b2_lines"] = st["lines"] + cst["lines"]
        run.cov["b2_modes"] = st["modes"]
        run.cov["b2_cli_runs"] = cst["scenarios"]
        run.cov["b2_cli_gunzip_runs"] = cst.get("gunzip", 0)
        run.cov["b2_cli_geometry_runs"] = cst.get("geometry", 0)
        run.cov["b2_scenarios_with_timer_cut"] = st["timer_cuts"]
        run.cov["b2_lines_longer_than_read_buffer"] = st["big_lines"] + cst["big_lines"]
        run.cov["b2_classes"] = {k: st["classes"].get(k, 0) + cst["classes"].get(k, 0) for k in ("matched", "ignored", "unmatched")}
        for k in ("matched", "ignored", "unmatched"):
            if run.cov["b2_classes"][k] == 0:
                raise Inconclusive("no %s line in the random scenarios" % k)
        if st["modes"].get("reader", 0) == 0 or st["timer_cuts"] == 0:
            raise Inconclusive("the timer-flush path was not exercised")
        if cst.get("gunzip", 0) == 0:
            raise Inconclusive("no -z run of the binary")
        for s in (st["samples"] or [])[:2] + (cst["samples"] or [])[:1]:
            run.sample({"b2_scenario": s})
        b2_report(both, "Pipeline_Trace", st["multi_worker"] + cst["scenarios"])

    def b2_report(both, label, nontrivial):
        res, r = validate_traces(run, "Pipeline_Trace", both, invariants=("Final",), xmx="8g", label=label)
        modes, fam, ntr = {}, {}, 0
        with open(both) as f:
            for line in f:
                if '"event":"reset"' in line:
                    rec = json.loads(line)
                    modes[rec["t"]] = rec["mode"]
                    fam[rec["t"]] = (rec.get("family") or "") + (",-z" if rec.get("gunzip") else "")
                    ntr += 1
        if not res["done"] and not any(b["t"] == max(modes) for b in res["bad"]):
            raise Inconclusive("last trace incomplete")
        with _start:
            run.cov["traces_validated_against_impl"] += ntr
            run.cov["evaluations"] += ntr
            run.cov["distinct_nontrivial"] += nontrivial
            run.cov["b2_events"] = run.cov.get("b2_events", 0) + res["consumed"]
        lines = None
        for bad in res["bad"]:
            if lines is None:
                lines = open(both).read().splitlines()
            ev = lines[bad["l"] - 1]
            try:
                evname = json.loads(ev)["event"]
            except Exception:
                evname = "?"
            mode = modes.get(bad["t"], "?")
            path = run.save_replay("trace-%d.ndjson" % bad["t"], trace_slice(both, bad["t"])[:4000000])
            hdr = json.loads(trace_slice(both, bad["t"]).splitlines()[0])
            run.violation("b2:%s:%s" % ("cli" if mode.startswith("cli") else "pipe", evname),
                          "recorded run %d (%s%s, batch %s workers %s readers %s buffer %s) is not a behaviour of the pipeline specification: rejected record %s" % (
                              bad["t"], mode, (" " + fam[bad["t"]]) if fam.get(bad["t"]) else "", hdr.get("batch"), hdr.get("workers"), hdr.get("readers"), hdr.get("buf"), ev[:400]), path)

    parallel([b1_gen, b2_run, b2_layers_run], 3)   # TLC simulation (4 x 1 worker) next to the Go drivers
    parallel([b3, b1_replay, b2_validate, b2_layers_validate], 4)   # TLC: 3 x 2 workers + 1 + 1
    run.cov["rule"] = ("B3: all interleavings of Pipeline.tla within the listed constants; B1: distinct complete model behaviours "
                       "replayed on the real pipeline, non-trivial = >= 2 distinct emitted keys; B2: one trace per seeded "
                       "scenario / CLI run (incl. the buffer-geometry and -z corpora), non-trivial = scenarios in which >= 2 worker instances processed lines, and CLI runs")

"""C01 - every input line is read exactly once and classified exactly once."""
import json
import os
import re
import threading
import time
from vf import Inconclusive, parallel, require_clean, validate_traces, trace_slice, vfj_lines, tlaps

CLAIM = {
    "text": "TLC exhaustively checks an implementation-shaped model of the pipeline (Pipeline.tla: opener with semaphore and WaitGroup, readers with full/timer/final batch cut, bounded batch channel, W workers with per-line classification and three atomic counters, readChan, close-after-Wait on both channels, consumer) for small file sets containing all four line classes: no send on a closed channel, every line classified at most once in every state and exactly once at the end, counters equal the ghost counts in every state, emitted bag = matched lines, refinement of the abstract bag specification PipelineObs, deadlock freedom and termination under weak fairness; the close order and the batch accounting are additionally proved with TLAPS for unbounded parameters (PipeClose.tla). TLC-simulated behaviours of that model (feed order, timer ticks, consumer pace) are replayed on the real batchers+extractor with the model's end state as expectation, and seeded random real executions (real files, FIFOs with chosen chunking, scripted stdin readers with the 250 ms and hook-shortened flush timer, lines longer than the 128 KiB buffer, CRLF, no trailing newline, random batch/workers/readers/buffer, regex/dissect/always matchers, random extract/ignore expressions) are recorded as batch/proc/ign/recv/final events and validated by the trace specification, which recomputes every line's class from the logged matcher/ignore/key facts; the `rare filter` binary's summary line and stdout keys are validated the same way. Two layers below the line-id model are specified and bound separately: PipelineBuf.tla composes the byte-level scanner model of C04 (ScannerImm, every chunk/buffer geometry within the bounds) with the reader loop, the batch channel, a worker and the consumer and states the assumption the pipeline makes of its scanner - no step changes the bytes under a view the pipeline still holds (HeldOK/HeldStable), hence every observer of line i sees the i-th input line (SeenOK, PFinalOK) - with a scanner that recycles a completely consumed buffer as negative control (refuted) and one that recycles only when nothing is held as the weaker design that still passes; PipelineIO.tla adds the input-opening layer (open, gzip probe consuming up to a window, rewind, stream inputs without open) to the reader life cycle, refines Pipeline when the fallback rewinds to the start and is refuted when it does not. The corpora exercise both: fixed-width lines dividing the 128 KiB read buffer in sources of k x 128 KiB +- a few lines with late-starting workers (files, FIFOs, scripted readers, the binary), and plain/gzip file sets read with -z whose plain sizes lie below, at and above the 4096-byte probe window. Two further layers make explicit what Pipeline.tla takes as constants. PipelineKey.tla: the class and the key of a line are values of expressions evaluated in the context object a worker re-uses from line to line - the match, and the facts of the LINE: {src} and {line} = BatchStart + index, BatchStart computed by the reader that cut the batch; law: for every batch size, timer cut, worker count and arrival order every line gets the class and key of the sequential one-line-at-a-time evaluation (ClassOK, KeysOK, KCountersOK, KFinalOK, refinement of PipelineObs instantiated with the sequentially evaluated facts); refuted designs: batchStart advanced by the batch size (only behind a timer-cut batch), src/line stored after the ignore set was consulted (the ignore expressions see the worker's previous kept line), one context shared by the workers; an equivalent arrangement (src once per batch) and the late store without line-reading ignore expressions pass. TLC enumerates input sets x ignore expressions x key expressions with the sequential evaluation as expectation, replayed on the real pipeline over files (several sources, workers, batch sizes) and streams with timer-cut batches; a trace corpus with pairwise distinct lines and {src}/{line} in ignore and extract expressions runs through the trace specification and the binary. PipelineRead.tla: the reader stack below the batch loop (source Read results -> byte-counting stage -> scanner -> batch cut / final flush) for every script of Read results, the last of which returns data together with io.EOF or a hard error; law: the lines of everything the source delivered leave the reader exactly once, in order, the partial batch is flushed, a hard error is reported once; refuted designs: a stage or scanner that drops the bytes of an erroneous Read, a reader that returns without the final flush. Every script is played to the real batcher as an io.Reader; streams failing in the middle of a line / at a line end / right after a full batch and truncated or damaged gzip files under -z are in the trace and binary corpora.",
    "note": "Exhaustive only within the listed constants (<= 3 files, <= 5 lines, batch/workers/readers/buffer in 1..2); beyond that seeded random runs. Equal line contents are indistinguishable (identity by content). Expression evaluation and the matchers are taken as given (sequential reference uses the same library on an independent context); ignore values are restricted to ASCII for the truthiness rule. Non-atomic counter updates would show only as lost updates under contention (big multi-worker runs in the thorough tier).",
    "technique": "TLA+ refinement model checking (TLC) + TLAPS proof (PipeClose) + model-behaviour replay + trace validation",
}

INVS = "TypeOK NoPanic SemaOK AtMostOnce CountersOK EmitOK LineNoOK FinalOK"


def consts(c, b, w, r, cap, rc, tf):
    return ("CONSTANTS\n Corpus = %d\n Lines <- MCLines\n Batch = %d\n Workers = %d\n Readers = %d\n"
            " BufCap = %d\n ReadCap = %d\n TimeFlush = %s\n" % (c, b, w, r, cap, rc, "TRUE" if tf else "FALSE"))


def mc_cfg(k, live):
    if live == "full":     # refinement including the abstract spec's fairness
        return "SPECIFICATION Spec\n" + consts(*k) + "INVARIANTS %s\nPROPERTIES Refines Terminates\n" % INVS
    if live == "step":     # invariants + safety part of the refinement (action property), no fairness
        return "INIT Init\nNEXT Next\n" + consts(*k) + "INVARIANTS %s\nPROPERTIES RefinesSafety\n" % INVS
    if live:               # safety part of the refinement as an action property + termination
        return "SPECIFICATION Spec\n" + consts(*k) + "INVARIANTS %s\nPROPERTIES RefinesSafety Terminates\n" % INVS
    return "INIT Init\nNEXT Next\n" + consts(*k) + "INVARIANTS %s\nVIEW View\n" % INVS


def gen_cfg(k):
    return "INIT GInit\nNEXT GNext\n" + consts(*k) + "INVARIANTS Dump\nCHECK_DEADLOCK FALSE\n"


# (corpus, batch, workers, readers, bufcap, readcap, timeflush), liveness+refinement?
# state counts measured: see evidence tlc_runs
QUICK_B3 = [   # index 3 is run with -coverage
    ((1, 2, 2, 2, 1, 1, True), "step"),   # 2x2 lines, everything concurrent, timer cuts: invariants + stepwise refinement
    ((1, 2, 2, 2, 1, 1, False), True),    # same without timer cuts: + termination under fairness
    ((2, 2, 2, 2, 1, 1, True), False),    # 3+2 lines: safety, ~139k states
    ((5, 1, 2, 2, 2, 2, False), False),   # 3 files (one empty) through a semaphore of 2
    ((4, 3, 1, 1, 1, 1, True), True),     # stdin shape (one source, timer flush), termination
    ((6, 2, 2, 1, 1, 1, False), "full"),  # nothing matches: readChan is closed without ever being used
    ((7, 1, 2, 1, 2, 1, False), True),    # everything matches, readChan of 1: workers block on the consumer
]
THOROUGH_B3 = [
    ((1, 2, 2, 2, 1, 1, True), "full"),
    ((1, 2, 2, 2, 1, 1, False), "full"),
    ((4, 3, 1, 1, 1, 1, True), "full"),
    ((3, 2, 2, 2, 1, 1, True), False),    # 2x3 lines: ~370k states
    ((3, 2, 2, 1, 1, 1, False), True),    # 2x3 lines, sequential readers: termination (the concurrent 2x3 liveness graph takes > 20 min)
    ((5, 1, 2, 2, 2, 2, False), False),
    ((3, 1, 2, 2, 2, 2, False), False),
    ((3, 3, 2, 1, 1, 2, True), False),
    ((2, 2, 2, 2, 1, 1, True), False),
    ((2, 2, 2, 2, 2, 1, True), "step"),    # (full liveness on 3+2 lines with buffer 2 takes > 12 min under load)
    ((2, 1, 1, 2, 1, 1, False), "full"),
    ((4, 3, 2, 1, 1, 1, True), "full"),
    ((4, 2, 2, 1, 2, 2, True), True),
    ((5, 2, 2, 2, 1, 1, True), True),
    ((5, 1, 1, 1, 1, 1, False), "full"),
    ((6, 2, 2, 1, 1, 1, False), "full"),
    ((7, 1, 2, 1, 2, 1, False), "full"),
    ((7, 2, 2, 1, 1, 5, True), True),
    ((8, 2, 2, 2, 1, 1, False), False),
    ((5, 1, 2, 3, 2, 2, False), "step"),  # three concurrent readers (corpus 8 with 3 readers exceeds 15 min)
    ((1, 1, 2, 1, 1, 5, False), "full"),
]
GEN = [  # behaviours replayed on the real code (ReadCap = 5 as in extractor.New)
    (1, 2, 2, 2, 1, 5, False), (2, 2, 2, 2, 1, 5, False), (3, 1, 2, 2, 2, 5, False), (5, 2, 2, 2, 1, 5, False),
    (8, 2, 2, 3, 1, 5, False), (4, 2, 2, 1, 1, 5, True), (7, 3, 2, 1, 1, 5, True), (6, 2, 2, 2, 1, 5, False),
]
GEN_MORE = [(3, 2, 2, 1, 2, 5, False), (5, 1, 2, 1, 1, 5, False), (4, 3, 1, 1, 2, 5, True), (7, 1, 2, 1, 1, 5, False)]
# ---- PipelineBuf (scanner views held by the pipeline) and PipelineIO (open / probe / rewind)
PB_INVS = "PTypeOK HeldOK SeenOK OnceOK PFinalOK Bounds"


def pb_cfg(maxlen, buf, batch, cap, reuse, invs=PB_INVS, props="HeldStable PTerminates"):
    if reuse == "never":
        invs += " Lifetime PrefixOK"
        props += " ScannerIsImm"
    return ("SPECIFICATION PSpec\nCONSTANTS Alphabet = {97, 98, 10}\n MaxLen = %d\n BufSize = %d\n MaxStall = 0\n"
            " PBatch = %d\n PCap = %d\n Reuse = \"%s\"\nINVARIANTS %s\n%sCHECK_DEADLOCK FALSE\n" % (
                maxlen, buf, batch, cap, reuse, invs, ("PROPERTIES %s\n" % props) if props else ""))


def io_cfg(k, gunzip, gz, streams, probe, rewind, live, invs=None, fifos=(), fifoprobe="peek"):
    c = consts(*k) + (" Gunzip = %s\n GzFiles = {%s}\n StreamFiles = {%s}\n ProbeLen = %d\n RewindTo = \"%s\"\n"
                      " FifoFiles = {%s}\n FifoProbe = \"%s\"\n") % (
        "TRUE" if gunzip else "FALSE", ",".join(map(str, gz)), ",".join(map(str, streams)), probe, rewind,
        ",".join(map(str, fifos)), fifoprobe)
    invs = invs or "TypeOKIO NoPanic SemaOKIO AtMostOnce CountersOK EmitOK LineNoOK FinalOK ScanFromStartOK"
    if live:
        return "SPECIFICATION SpecIO\n" + c + "INVARIANTS %s\nPROPERTIES IORefines Terminates\n" % invs
    if rewind != "start" or fifoprobe != "peek":   # negative control: only the named invariant
        return "INIT Init\nNEXT NextIO\n" + c + "INVARIANTS %s\n" % invs
    return "INIT Init\nNEXT NextIO\n" + c + "INVARIANTS %s\nPROPERTIES IORefines\n" % invs


# ---- PipelineKey (facts of the line in the worker's context: key AND ignore expressions)
PK_INVS = "KTypeOK ClassOK KeysOK KCountersOK KFinalOK KObsCountersOK KObsFinalOK"
PK_ACTIONS = ("ReaderCut", "WorkerRecv", "WorkerBind", "WorkerEval", "WorkerSend")


def pk_cfg(scn, batch, workers, cap, tf, advance="len", setfacts="first", shared=False, invs=None, live=False, props=None):
    code = advance == "len" and setfacts in ("first", "batch") and not shared
    if invs is None:
        invs = PK_INVS + (" CtxFreshOK" if code else "")
    c = ("CONSTANTS\n Scn = %d\n Files <- MCFiles\n Ign <- MCIgn\n KeyE <- MCKey\n Batch = %d\n Workers = %d\n BufCap = %d\n"
         " TimeFlush = %s\n Advance = \"%s\"\n SetFacts = \"%s\"\n Shared = %s\n" % (
             scn, batch, workers, cap, "TRUE" if tf else "FALSE", advance, setfacts, "TRUE" if shared else "FALSE"))
    if live:
        return "SPECIFICATION KSpec\n" + c + "INVARIANTS %s\nPROPERTIES KRefines KTerminates\n" % invs
    if props:
        return "SPECIFICATION KSpec\n" + c + "INVARIANTS %s\nPROPERTIES %s\n" % (invs, props)
    if code:
        return "INIT KInit\nNEXT KNext\n" + c + "INVARIANTS %s\nPROPERTIES KRefines\n" % invs
    return "INIT KInit\nNEXT KNext\n" + c + "INVARIANTS %s\n" % invs


def key_jobs(quick):
    j = [
        ("PipelineKey_MC", pk_cfg(2, 2, 2, 1, True, live=True), "PipelineKey scn=2 two inputs, ignore {eq {src}} / {eq {line}}, key {src}:{line}:{1}, B=2 W=2 timer (the code): class and key of every line = sequential evaluation, refines PipelineObs, terminates", None),
        ("PipelineKey_MC", pk_cfg(1, 3, 2, 1, True), "PipelineKey scn=1 stream, ignore {gt {line} 4}, key {line}, B=3 W=2 timer cuts, advance=len", None),
        ("PipelineKey_MC", pk_cfg(3, 2, 2, 2, False, setfacts="batch"), "PipelineKey scn=3 {not {eq {src}}}: src stored once per batch, line per line (equivalent arrangement, passes)", None),
        ("PipelineKey_MC", pk_cfg(2, 2, 1, 1, True, setfacts="kept", invs="ClassOK"), "PipelineKey src/line stored after the ignore set was consulted: ignore sees the previous kept line (negative control: must be refuted)", "ClassOK"),
        ("PipelineKey_MC", pk_cfg(7, 2, 1, 1, False, setfacts="kept", invs="KFinalOK"), "PipelineKey stale line number, one worker, {gt {line} 2}: totals and keys differ (negative control: must be refuted)", "KFinalOK"),
        ("PipelineKey_MC", pk_cfg(6, 2, 2, 1, True, setfacts="kept"), "PipelineKey src/line stored late but NO ignore expression reads a fact of the line (indistinguishable, passes)", None),
        ("PipelineKey_MC", pk_cfg(1, 3, 1, 1, True, advance="size", invs="KeysOK"), "PipelineKey advance=batch size behind a timer-cut short batch (negative control: must be refuted)", "KeysOK"),
        ("PipelineKey_MC", pk_cfg(1, 3, 1, 1, False, advance="size"), "PipelineKey advance=batch size WITHOUT timer cuts (file path: indistinguishable, passes)", None),
        ("PipelineKey_MC", pk_cfg(2, 2, 2, 1, False, shared=True, invs="ClassOK"), "PipelineKey one context shared by two workers (negative control: must be refuted)", "ClassOK"),
    ]
    if not quick:
        j += [
            ("PipelineKey_MC", pk_cfg(1, 2, 3, 2, True, live=True), "PipelineKey scn=1 B=2 W=3 cap=2 timer refines+terminates", None),
            ("PipelineKey_MC", pk_cfg(2, 1, 3, 2, True), "PipelineKey scn=2 B=1 W=3 cap=2", None),
            ("PipelineKey_MC", pk_cfg(3, 2, 2, 1, True, live=True), "PipelineKey scn=3 B=2 W=2 timer refines+terminates", None),
            ("PipelineKey_MC", pk_cfg(4, 2, 2, 1, True, live=True), "PipelineKey scn=4 key decides by source (empty key = ignored) refines+terminates", None),
            ("PipelineKey_MC", pk_cfg(5, 3, 3, 2, False), "PipelineKey scn=5 three inputs (one empty) B=3 W=3", None),
            ("PipelineKey_MC", pk_cfg(5, 2, 2, 1, True, setfacts="batch", live=True), "PipelineKey scn=5 src per batch, timer, refines+terminates", None),
            ("PipelineKey_MC", pk_cfg(7, 2, 3, 1, True, live=True), "PipelineKey scn=7 B=2 W=3 timer refines+terminates", None),
            ("PipelineKey_MC", pk_cfg(6, 3, 2, 2, True), "PipelineKey scn=6 (match facts only) B=3", None),
            ("PipelineKey_MC", pk_cfg(3, 2, 2, 1, False, setfacts="kept", invs="KCountersOK ClassOK"), "PipelineKey scn=3 stale src under {not {eq {src}}} (must be refuted)", "ClassOK"),
            ("PipelineKey_MC", pk_cfg(5, 2, 2, 1, False, setfacts="kept", invs="KObsFinalOK"), "PipelineKey scn=5 stale context: PipelineObs's final law read through the refinement mapping fails (must be refuted)", "KObsFinalOK"),
            ("PipelineKey_MC", pk_cfg(4, 2, 2, 1, False, setfacts="kept", invs="KeysOK"), "PipelineKey scn=4 late src/line with match-only ignores: the KEY still sees the line's own facts (passes)", None),
            ("PipelineKey_MC", pk_cfg(7, 2, 2, 1, True, advance="size", invs="ClassOK"), "PipelineKey scn=7 advance=batch size: {gt {line}} classes drift behind a timer cut (must be refuted)", "ClassOK"),
            ("PipelineKey_MC", pk_cfg(4, 2, 2, 1, False, shared=True, invs="KeysOK"), "PipelineKey scn=4 shared context: keys of another worker's line (must be refuted)", "KeysOK"),
        ]
    return j


# ---- PipelineRead (Read results carrying data AND an error)
def pr_cfg(reads, chunk, batch, tf, stage="pass", scan="keep", onerr="flush", invs="RTypeOK DeliveredOK RFinalOK", live=True):
    c = ("CONSTANTS\n Alphabet = {97, 10}\n MaxReads = %d\n MaxChunk = %d\n Batch = %d\n TimeFlush = %s\n Stage = \"%s\"\n"
         " ScanOnErr = \"%s\"\n OnErr = \"%s\"\n" % (reads, chunk, batch, "TRUE" if tf else "FALSE", stage, scan, onerr))
    return "SPECIFICATION RSpec\n" + c + "INVARIANTS %s\n%s" % (invs, "PROPERTIES RTerminates\n" if live else "")


PR_ACTIONS = ("ScannerRead", "ScannerLine", "ReaderEnd")


def read_jobs(quick):
    j = [
        ("PipelineRead", pr_cfg(3, 2, 2, True), "PipelineRead all scripts of <= 3 reads x <= 2 bytes over {a, LF}, final read (data, EOF | error), batch 2 + timer cuts (the code): every delivered line leaves the reader exactly once, final flush, one error report", None),
        ("PipelineRead", pr_cfg(3, 2, 2, False, stage="lossy", invs="RFinalOK", live=False), "PipelineRead stage returns n = 0 with a hard error (\"a failed read has nothing to count\"; negative control: must be refuted)", "RFinalOK"),
        ("PipelineRead", pr_cfg(2, 2, 2, False, scan="drop", invs="RFinalOK", live=False), "PipelineRead scanner ignores the bytes of an erroneous Read (negative control: must be refuted)", "RFinalOK"),
        ("PipelineRead", pr_cfg(3, 2, 3, False, onerr="abort", invs="RFinalOK", live=False), "PipelineRead reader returns at once on a hard error, partial batch not flushed (negative control: must be refuted)", "RFinalOK"),
    ]
    if not quick:
        j += [
            ("PipelineRead", pr_cfg(4, 2, 3, True), "PipelineRead <= 4 reads x <= 2 bytes, batch 3 + timer", None),
            ("PipelineRead", pr_cfg(3, 3, 2, False), "PipelineRead <= 3 reads x <= 3 bytes, batch 2", None),
            ("PipelineRead", pr_cfg(3, 2, 1, False), "PipelineRead batch 1", None),
            ("PipelineRead", pr_cfg(2, 2, 2, False, stage="lossyeof", invs="RFinalOK", live=False), "PipelineRead stage drops the data of ANY erroneous read, io.EOF included (must be refuted)", "RFinalOK"),
        ]
    return j


# (module, cfg, label, expectation): expectation None = must pass; otherwise the invariant TLC must refute
def layer_jobs(quick):
    j = [
        ("PipelineBuf", pb_cfg(4, 2, 2, 1, "never"), "PipelineBuf MaxLen=4 BufSize=2 batch=2 cap=1 reuse=never (the code)", None),
        ("PipelineBuf", pb_cfg(4, 2, 2, 1, "free"), "PipelineBuf reuse only when nothing is held (weaker than C04 Lifetime, passes)", None),
        ("PipelineBuf", pb_cfg(4, 2, 2, 1, "always", props=""), "PipelineBuf reuse=always (negative control: must be refuted)", "HeldOK"),
        # plain file of 3 lines (above the window of 2) + gzip file, -z: refines Pipeline, terminates
        ("PipelineIO", io_cfg((2, 2, 2, 2, 1, 1, False), True, (2,), (), 2, "start", True), "PipelineIO corpus=2 -z plain+gz window=2 rewind=start refines+terminates", None),
        ("PipelineIO", io_cfg((2, 2, 2, 2, 1, 1, False), True, (2,), (), 2, "current", False, invs="FinalOK"), "PipelineIO rewind=current (negative control: must be refuted)", "FinalOK"),
        # three files: 1 line (below the window, a FIFO), empty, 3 lines (above); the third is a stream (no open/probe)
        ("PipelineIO", io_cfg((5, 1, 2, 2, 2, 2, False), True, (), (3,), 2, "start", False, fifos=(1,)), "PipelineIO corpus=5 -z fifo(below)+empty+stream safety+refines", None),
        ("PipelineIO", io_cfg((5, 1, 2, 2, 2, 2, False), True, (), (3,), 2, "start", False, invs="FinalOK", fifos=(1,), fifoprobe="consume"),
         "PipelineIO -z on a FIFO probed by consuming (the defect fixed by 0ceebc0: must be refuted)", "FinalOK"),
    ]
    if not quick:
        j += [
            ("PipelineBuf", pb_cfg(5, 2, 2, 1, "never"), "PipelineBuf MaxLen=5 BufSize=2 never", None),
            ("PipelineBuf", pb_cfg(5, 3, 1, 2, "never"), "PipelineBuf MaxLen=5 BufSize=3 batch=1 cap=2 never", None),
            ("PipelineBuf", pb_cfg(5, 1, 2, 2, "never"), "PipelineBuf MaxLen=5 BufSize=1 batch=2 cap=2 never", None),
            ("PipelineBuf", pb_cfg(5, 2, 1, 1, "free"), "PipelineBuf MaxLen=5 BufSize=2 batch=1 free", None),
            ("PipelineBuf", pb_cfg(4, 2, 1, 1, "free", invs="Lifetime", props=""), "PipelineBuf reuse=free violates C04's Lifetime (the pipeline's assumption is weaker)", "Lifetime"),
            ("PipelineBuf", pb_cfg(5, 2, 1, 1, "always", invs="PFinalOK", props=""), "PipelineBuf reuse=always: the consumer sees a line that is not in the input (must be refuted)", "PFinalOK"),
            ("PipelineBuf", pb_cfg(5, 3, 2, 2, "always", invs="SeenOK", props=""), "PipelineBuf BufSize=3 reuse=always (must be refuted)", "SeenOK"),
            ("PipelineIO", io_cfg((2, 2, 2, 2, 1, 1, True), True, (2,), (), 3, "start", False), "PipelineIO corpus=2 window=3 (= size of file 1) timer flush", None),
            ("PipelineIO", io_cfg((3, 2, 2, 2, 1, 1, False), True, (1,), (), 2, "start", False), "PipelineIO corpus=3 gz+plain(above)", None),
            ("PipelineIO", io_cfg((3, 2, 2, 2, 1, 1, False), True, (1,), (), 2, "start", False, fifos=(1, 2)), "PipelineIO corpus=3 gz and plain(above) through FIFOs", None),
            ("PipelineIO", io_cfg((3, 2, 2, 2, 1, 1, False), False, (), (), 2, "start", False), "PipelineIO corpus=3 without -z (open only)", None),
            ("PipelineIO", io_cfg((4, 3, 1, 1, 1, 1, True), True, (), (1,), 2, "start", True), "PipelineIO corpus=4 stdin stream under -z", None),
            ("PipelineIO", io_cfg((5, 1, 2, 2, 2, 2, False), True, (1,), (), 2, "start", True), "PipelineIO corpus=5 gz+empty+plain(above) refines+terminates", None),
            ("PipelineIO", io_cfg((3, 2, 2, 2, 1, 1, False), True, (), (), 1, "current", False, invs="LineNoOK"), "PipelineIO rewind=current breaks the line numbers too (must be refuted)", "LineNoOK"),
        ]
    return j


ACTIONS = ("OpenerStart", "OpenerLoopEnd", "OpenerClose", "ReaderScan", "ReaderSend", "ReaderExit",
           "WorkerRecv", "WorkerLine", "WorkerClassify", "WorkerSend", "Closer", "Consumer")


_start = threading.Lock()


def tlc(run, *a, **kw):
    """run.tlc with staggered starts (its working-directory counter is not thread safe)."""
    with _start:
        time.sleep(0.06)
    return run.tlc(*a, **kw)


def crash_verdict(run, p, what, current):
    """A dead driver is infrastructure trouble unless the Go runtime reports a panic / fatal error
    raised inside rare's pipeline packages (send on closed channel, negative WaitGroup, deadlock)."""
    err = p.stderr or ""
    m = re.search(r"^(panic: .*|fatal error: .*)$", err, re.M)
    cur = ""
    if current and os.path.exists(current):
        cur = open(current).read().strip()
    if m and re.search(r"rare/pkg/extractor", err):
        first = m.group(1)
        sig = "crash:" + re.sub(r"[^a-z]+", "-", first.lower())[:50].strip("-")
        run.violation(sig, "%s: the real pipeline crashed: %s (%s)" % (what, first, cur),
                      {"stderr": err[-6000:], "scenario": cur})
        return
    raise Inconclusive("driver %s failed (%d): %s" % (what, p.returncode, err[-3000:]))


def check(run):
    try:
        _check(run)
    except Inconclusive:
        raise
    except Exception as e:      # a bug in the machinery is never a verdict about the code
        import traceback
        raise Inconclusive("check failed: %s\n%s" % (e, traceback.format_exc()))


def _check(run):
    quick = run.tier == "quick"
    run.assumptions += [
        "B3 bounds: corpora of <= 3 files / <= 5 lines with all four classes, Batch/Workers/Readers/BufCap/ReadCap as listed in tlc_runs",
        "weak fairness of every goroutine (Go scheduler) for the termination property",
        "identity of lines is by content; expression evaluation and matchers are the library's (C08-C12)",
        "ignore-expression values are ASCII (domain of the truthiness rule in the trace spec)",
        "unbuffered batch channel (--batch-buffer 0) is outside the property's quantifier (buffer >= 1)",
        "PipelineBuf bounds: alphabet {a, b, LF}, streams <= 4 (5) bytes, buffer sizes 1..3, one worker, batch/channel sizes 1..2; the real 128 KiB geometry is exercised by the trace corpora only",
        "PipelineIO measures the probe window in lines (bytes and line fragments only in the trace corpora); under -z the lines of an input are the lines of its decoded content when it is a gzip stream (one or two members) and of its raw bytes otherwise; plain inputs that begin with the gzip magic number and gzip streams with a damaged header are not generated (C06)",
        "PipelineKey: expressions are abstracted to seven ignore forms and six key forms over the context (src, line, one match group); the bindings materialise them as rare expressions ({gt/lt/eq {line} n}, {eq {src} name}, {not {eq {src} name}}, {eq {1} w}, {src}:{line}:{1}, {if ..}); in the line-facts trace corpus all lines are pairwise distinct and the reference facts come from the expression library evaluated in the context of the sequential reading (source name, 1-based line number); the context handed to the ignore set is observed at the public extractor.IgnoreSet interface",
        "PipelineRead: an input's lines are the lines of every byte its reader returned, the bytes returned together with an error (io.EOF or any other) included; for a truncated or damaged gzip stream under -z these are the bytes an independent compress/gzip reader delivers before and with its error; alphabet {a, LF}, scripts of <= 3 (4) reads of <= 2 (3) bytes in the exhaustive part",
    ]
    run.build_harness()
    rare = run.build_cli()
    sc = run.scratch

    # ------------------------------------------------------------------ B3
    def b3():
        jobs = []
        cfgs = QUICK_B3 if quick else THOROUGH_B3
        for i, (k, live) in enumerate(cfgs):
            jobs.append(lambda k=k, live=live, i=i: (k, live, tlc(
                run, "Pipeline_MC", mc_cfg(k, live), workers=2, timeout=3000, coverage=(i == 3),
                label="Pipeline corpus=%d B=%d W=%d R=%d cap=%d rcap=%d tf=%s %s" % (k + ({"full": "refines+terminates", True: "refines(safety)+terminates", "step": "safety+refines(safety)", False: "safety"}[live],)))))
        lj = layer_jobs(quick) + key_jobs(quick) + read_jobs(quick)
        for mod, cfg, label, expect in lj:
            jobs.append(lambda mod=mod, cfg=cfg, label=label, expect=expect: (mod, expect, tlc(
                run, mod, cfg, workers=2, timeout=3000, label=label, coverage=(expect is None and "(the code)" in label))))
        out = parallel(jobs, 3)
        layers, out = out[len(cfgs):], out[:len(cfgs)]
        for k, live, r in out:
            require_clean(run, r, "Pipeline %s" % (k,))
        refuted = 0
        for (mod, expect, r), (_, _, label, _) in zip(layers, lj):
            if expect is None:
                require_clean(run, r, label)
            elif expect not in r.violated:
                raise Inconclusive("negative control not refuted as expected (%s): %s violated=%s\n%s" % (expect, label, r.violated, r.out[-1500:]))
            else:
                refuted += 1
        rpb = layers[0][2]
        zero = [a for a in ("ReaderScan", "ReaderSend", "ReaderClose", "WorkerRecv", "WorkerLine", "WorkerSend", "Consume")
                if rpb.coverage.get("PipelineBuf." + a, (0, 0))[0] == 0]
        if zero:
            raise Inconclusive("vacuous model: PipelineBuf actions never taken: %s" % zero)
        rpk = [r for (mod, expect, r), (_, _, label, _) in zip(layers, lj) if mod == "PipelineKey_MC" and "(the code)" in label][0]
        zero = [a for a in PK_ACTIONS if rpk.coverage.get("PipelineKey." + a, (0, 0))[0] == 0]
        if zero:
            raise Inconclusive("vacuous model: PipelineKey actions never taken: %s" % zero)
        rpr = [r for (mod, expect, r), (_, _, label, _) in zip(layers, lj) if mod == "PipelineRead" and "(the code)" in label][0]
        zero = [a for a in PR_ACTIONS if rpr.coverage.get("PipelineRead." + a, (0, 0))[0] == 0]
        if zero:
            raise Inconclusive("vacuous model: PipelineRead actions never taken: %s" % zero)
        run.cov["b3_layer_configs"] = len(lj)
        run.cov["b3_negative_controls_refuted"] = refuted
        r0 = out[3][2]
        zero = [a for a in ACTIONS if r0.coverage.get("Pipeline." + a, (0, 0))[0] == 0]
        if zero:
            raise Inconclusive("vacuous model: actions never taken: %s" % zero)
        run.cov["b3_configs"] = len(cfgs)

    # ------------------------------------------------------------------ B1
    vec_path = os.path.join(sc, "c01-vectors.ndjson")

    def b1_gen():
        num = 60 if quick else 500
        jobs = [lambda k=k: tlc(run, "Pipeline_Gen", gen_cfg(k), workers=1, simulate="num=%d" % num, depth=400,
                                timeout=600, xmx="1g", label="Pipeline_Gen %s" % (k,))
                for k in (GEN if quick else GEN + GEN_MORE)]
        seen = set()
        with open(vec_path, "w") as f:
            for r in parallel(jobs, 4):
                if r.violated or r.errors:
                    raise Inconclusive("generator failed: %s" % r.out[-2000:])
                for v in vfj_lines(r.out):
                    key = json.dumps(v, sort_keys=True)
                    if key not in seen:
                        seen.add(key)
                        f.write(json.dumps(v, separators=(",", ":")) + "\n")
        if len(seen) < 50:
            raise Inconclusive("generator produced only %d behaviours" % len(seen))

    def b1_replay():
        res_path = os.path.join(sc, "c01-replay.json")
        d = os.path.join(sc, "replay-in")
        os.makedirs(d)
        p = run.drv(["replay", "-in", vec_path, "-out", res_path, "-dir", d, "-par", 6], check=False)
        if p.returncode != 0:
            crash_verdict(run, p, "B1 replay", None)
            return
        res = json.load(open(res_path))
        run.cov["traces_validated_against_impl"] += res["runs"]
        run.cov["evaluations"] += res["runs"]
        run.cov["distinct_nontrivial"] += res["distinct_nontrivial"]
        run.cov["b1_behaviours"] = res["runs"]
        run.cov["b1_batch_cuts_as_in_model"] = res["cuts_honoured"]
        run.cov["b1_with_timer_cut"] = res["with_timer_cut"]
        for s in res["samples"] or []:
            run.sample({"b1_behaviour": s})
        for m in res["mismatches"] or []:
            v = m["vector"]
            run.violation("b1:%s" % m["kind"],
                          "model behaviour (corpus %s, batch %d, workers %d, readers %d, buffer %d, timer %d, feed %s): real pipeline ended with %s, Pipeline.tla with %s" % (
                              v["kinds"], v["batch"], v["workers"], v["readers"], v["buf"], v["tf"], v["feed"], m["got"], m["want"]), m)

    # ------------------------------------------------------------------ B1 (PipelineKey_Gen: line facts)
    kvec_path = os.path.join(sc, "c01-keyvectors.ndjson")
    kst = {}

    def key_gen():
        r = tlc(run, "PipelineKey_Gen", "INIT GInit\nNEXT GNext\nINVARIANTS Dump\nCHECK_DEADLOCK FALSE\n", workers=1,
                timeout=1200, xmx="2g", label="PipelineKey_Gen (input sets x ignore expressions x key expressions, sequential evaluation)")
        if r.violated or r.errors:
            raise Inconclusive("PipelineKey_Gen failed: %s" % r.out[-2000:])
        vs = vfj_lines(r.out)
        if len(vs) < 5000:
            raise Inconclusive("PipelineKey_Gen produced only %d vectors" % len(vs))
        kst["all"] = len(vs)
        if quick:
            import random
            vs = random.Random(run.seed * 7919 + 11).sample(vs, 600)
        with open(kvec_path, "w") as f:
            for v in vs:
                f.write(json.dumps(v, separators=(",", ":")) + "\n")

    def key_replay():
        res_path = os.path.join(sc, "c01-keyreplay.json")
        d = os.path.join(sc, "keyreplay-in")
        os.makedirs(d)
        p = run.drv(["keyreplay", "-in", kvec_path, "-out", res_path, "-dir", d, "-par", 4, "-cfgs", 2 if quick else 4], check=False)
        if p.returncode != 0:
            crash_verdict(run, p, "B1 key replay", None)
            return
        res = json.load(open(res_path))
        if res["stream_runs_with_timer_cut"] == 0 or res["sensitive_vectors"] == 0 or res["runs_with_2_worker_instances"] == 0:
            raise Inconclusive("key replay did not exercise timer cuts / line-sensitive vectors / two workers: %s" % (
                {k: v for k, v in res.items() if k not in ("mismatches", "samples")},))
        run.cov["traces_validated_against_impl"] += res["runs"]
        run.cov["evaluations"] += res["runs"]
        run.cov["distinct_nontrivial"] += res["sensitive_vectors"]
        run.cov["b1_key_vectors_generated"] = kst.get("all", 0)
        for k in ("vectors", "runs", "stream_runs", "stream_runs_with_timer_cut", "runs_with_2_worker_instances",
                  "sensitive_vectors", "vectors_ignore_reads_line_facts"):
            run.cov["b1_key_" + k] = res[k]
        for smp in (res["samples"] or [])[:1]:
            run.sample({"b1_key_vector": smp})
        seen = {}
        for m in res["mismatches"] or []:
            v = m["vector"]
            igl = any(e["op"].endswith("line") or e["op"].endswith("src") for e in v["ign"])
            sig = "b1:key:%s:%s:%s" % (m["kind"], m["mode"], "ignore" if igl else "key")
            seen[sig] = seen.get(sig, 0) + 1
            if seen[sig] > 3:
                continue
            run.violation(sig,
                          "inputs %s, -i %s -e %s, %s path, batch %d workers %d readers %d buffer %d: real pipeline %s, the sequential one-line-at-a-time evaluation (PipelineKeyExpr) %s" % (
                              v["kinds"], m["ignore"], m["extract"], m["mode"], m["cfg"]["b"], m["cfg"]["w"], m["cfg"]["r"], m["cfg"]["c"], m["got"], m["want"]), m)

    # ------------------------------------------------------------------ B1 (PipelineRead_Gen: scripts of Read results)
    rvec_path = os.path.join(sc, "c01-readvectors.ndjson")

    def read_gen():
        cfg = ("INIT RInit\nNEXT GNext\nCONSTANTS\n Alphabet = {97, 10}\n MaxReads = %d\n MaxChunk = 2\n Batch = 2\n TimeFlush = FALSE\n"
               " Stage = \"pass\"\n ScanOnErr = \"keep\"\n OnErr = \"flush\"\nINVARIANTS Dump\nCHECK_DEADLOCK FALSE\n" % (3 if quick else 4))
        r = tlc(run, "PipelineRead_Gen", cfg, workers=1, timeout=1200, xmx="2g", label="PipelineRead_Gen (scripts of Read results with the lines the spec assigns to them)")
        if r.violated or r.errors:
            raise Inconclusive("PipelineRead_Gen failed: %s" % r.out[-2000:])
        vs = vfj_lines(r.out)
        if len(vs) < 700:
            raise Inconclusive("PipelineRead_Gen produced only %d vectors" % len(vs))
        with open(rvec_path, "w") as f:
            for v in vs:
                f.write(json.dumps(v, separators=(",", ":")) + "\n")

    def read_replay():
        res_path = os.path.join(sc, "c01-readreplay.json")
        p = run.drv(["readreplay", "-in", rvec_path, "-out", res_path, "-par", 4], check=False)
        if p.returncode != 0:
            crash_verdict(run, p, "B1 read replay", None)
            return
        res = json.load(open(res_path))
        if res["scripts_hard_error_with_data"] == 0:
            raise Inconclusive("no script returns data together with a hard error")
        run.cov["traces_validated_against_impl"] += res["runs"]
        run.cov["evaluations"] += res["runs"]
        run.cov["distinct_nontrivial"] += res["scripts_error_with_data"]
        run.cov["b1_read_scripts"] = res["vectors"]
        run.cov["b1_read_runs"] = res["runs"]
        run.cov["b1_read_scripts_error_with_data"] = res["scripts_error_with_data"]
        run.cov["b1_read_scripts_hard_error_with_data"] = res["scripts_hard_error_with_data"]
        for smp in (res["samples"] or [])[:1]:
            run.sample({"b1_read_script": smp})
        seen = {}
        for m in res["mismatches"] or []:
            v = m["vector"]
            last = v["script"][-1]
            sig = "b1:read:%s:%s:%s" % (m["kind"], last["e"], "with-data" if last["d"] else "no-data")
            seen[sig] = seen.get(sig, 0) + 1
            if seen[sig] > 3:
                continue
            run.violation(sig,
                          "source returning the Read results %s (%s path, batch %d): real pipeline %s, PipelineRead.tla (lines of everything the source delivered: %s) %s" % (
                              [(x["d"], x["e"]) for x in v["script"]], m["mode"], m["batch"], m["got"], v["lines"], m["want"]), m)

    # ------------------------------------------------------------------ B2
    both = os.path.join(sc, "c01-all.ndjson")
    b2st = {}

    def b2_run():
        d = os.path.join(sc, "trace-in")
        os.makedirs(d)
        tr = os.path.join(sc, "c01-trace.ndjson")
        cur = os.path.join(d, "current.txt")
        p = run.drv(["trace", "-out", tr, "-result", os.path.join(sc, "trace-result.json"), "-dir", d,
                     "-n", 110 if quick else 1000, "-big", 3 if quick else 12, "-slow", 1 if quick else 6,
                     "-huge", 1 if quick else 4, "-hugelines", 20000 if quick else 100000], check=False)
        if p.returncode != 0:
            crash_verdict(run, p, "B2 random scenarios", cur)
            return
        st = json.load(open(os.path.join(sc, "trace-result.json")))
        cl = os.path.join(sc, "c01-cli.ndjson")
        p = run.drv(["cli", "-rare", rare, "-out", cl, "-result", os.path.join(sc, "cli-result.json"), "-dir", d,
                     "-n", 16 if quick else 120, "-maxlines", 500 if quick else 2000], check=False)
        if p.returncode != 0:
            raise Inconclusive("cli driver failed: %s" % p.stderr[-2000:])
        cst = json.load(open(os.path.join(sc, "cli-result.json")))
        with open(both, "w") as f:
            f.write(open(tr).read())
            f.write(open(cl).read())
        b2st["st"], b2st["cst"] = st, cst

    # corpus families of PipelineBuf (buffer geometry) and PipelineIO (-z on mixed file sets): own trace file
    layers_tr = os.path.join(sc, "c01-layers.ndjson")
    b2lst = {}

    def b2_layers_run():
        d = os.path.join(sc, "layers-in")
        os.makedirs(d)
        cur = os.path.join(d, "current.txt")
        p = run.drv(["trace", "-out", layers_tr, "-result", os.path.join(sc, "layers-result.json"), "-dir", d,
                     "-n", 0, "-big", 0, "-slow", 0, "-huge", 0, "-first", 200001,
                     "-geom", 7 if quick else 48, "-gz", 9 if quick else 60, "-lf", 24 if quick else 240, "-re", 16 if quick else 160], check=False)
        if p.returncode != 0:
            crash_verdict(run, p, "B2 geometry / gunzip scenarios", cur)
            return
        b2lst["st"] = json.load(open(os.path.join(sc, "layers-result.json")))

    def b2_layers_validate():
        if not b2lst:
            return
        st = b2lst["st"]
        if st["geometry"] == 0 or st["boundary_fills"] == 0:
            raise Inconclusive("no read-buffer fill ended on a line boundary in the geometry corpus")
        for k in ("below", "at", "above", "gz"):
            if st["gz_window"].get(k, 0) == 0:
                raise Inconclusive("the -z corpus has no %s file" % k)
        if st["linefacts_cuts"] == 0 or st["linefacts_multi"] == 0 or st["linefacts_ignore"] == 0:
            raise Inconclusive("the line-facts corpus has no timer-cut stream / multi-source / {line}-reading ignore scenario: %s" % (
                {k: v for k, v in st.items() if k.startswith("linefacts")},))
        if st["readerr_stream"] == 0 or st["readerr_gz"] == 0:
            raise Inconclusive("the read-error corpus has no failing stream / no truncated gzip file whose decoder reported an error: %s" % (
                {k: v for k, v in st.items() if k.startswith("readerr")},))
        run.cov["b2_readerr_scenarios"] = st["readerr"]
        run.cov["b2_readerr_streams_failing_with_data"] = st["readerr_stream"]
        run.cov["b2_readerr_truncated_or_damaged_gzip"] = st["readerr_gz"]
        run.cov["b2_linefacts_scenarios"] = st["linefacts"]
        run.cov["b2_linefacts_with_timer_cut"] = st["linefacts_cuts"]
        run.cov["b2_linefacts_multi_source"] = st["linefacts_multi"]
        run.cov["b2_linefacts_ignore_reads_line"] = st["linefacts_ignore"]
        run.cov["b2_geometry_scenarios"] = st["geometry"]
        run.cov["b2_buffer_fills_ending_on_a_line_boundary"] = st["boundary_fills"]
        run.cov["b2_gunzip_scenarios"] = st["gunzip"]
        run.cov["b2_gunzip_files_by_probe_window"] = st["gz_window"]
        run.cov["b2_lines_layers"] = st["lines"]
        for k in ("matched", "ignored", "unmatched"):
            run.cov.setdefault("b2_classes_layers", {})[k] = st["classes"].get(k, 0)
        b2_report(layers_tr, "Pipeline_Trace (geometry / gunzip corpora)", st["multi_worker"])

    def b2_validate():
        if not b2st:
            return
        st, cst = b2st["st"], b2st["cst"]
        run.cov["b2_lines"] = st["lines"] + cst["lines"]
        run.cov["b2_modes"] = st["modes"]
        run.cov["b2_cli_runs"] = cst["scenarios"]
        run.cov["b2_cli_gunzip_runs"] = cst.get("gunzip", 0)
        run.cov["b2_cli_geometry_runs"] = cst.get("geometry", 0)
        run.cov["b2_scenarios_with_timer_cut"] = st["timer_cuts"]
        run.cov["b2_lines_longer_than_read_buffer"] = st["big_lines"] + cst["big_lines"]
        run.cov["b2_classes"] = {k: st["classes"].get(k, 0) + cst["classes"].get(k, 0) for k in ("matched", "ignored", "unmatched")}
        for k in ("matched", "ignored", "unmatched"):
            if run.cov["b2_classes"][k] == 0:
                raise Inconclusive("no %s line in the random scenarios" % k)
        if st["modes"].get("reader", 0) == 0 or st["timer_cuts"] == 0:
            raise Inconclusive("the timer-flush path was not exercised")
        if cst.get("gunzip", 0) == 0:
            raise Inconclusive("no -z run of the binary")
        for s in (st["samples"] or [])[:2] + (cst["samples"] or [])[:1]:
            run.sample({"b2_scenario": s})
        b2_report(both, "Pipeline_Trace", st["multi_worker"] + cst["scenarios"])

    def b2_report(both, label, nontrivial):
        res, r = validate_traces(run, "Pipeline_Trace", both, invariants=("Final",), xmx="8g", label=label)
        modes, fam, ntr = {}, {}, 0
        with open(both) as f:
            for line in f:
                if '"event":"reset"' in line:
                    rec = json.loads(line)
                    modes[rec["t"]] = rec["mode"]
                    fam[rec["t"]] = (rec.get("family") or "") + (",-z" if rec.get("gunzip") else "")
                    ntr += 1
        if not res["done"] and not any(b["t"] == max(modes) for b in res["bad"]):
            raise Inconclusive("last trace incomplete")
        with _start:
            run.cov["traces_validated_against_impl"] += ntr
            run.cov["evaluations"] += ntr
            run.cov["distinct_nontrivial"] += nontrivial
            run.cov["b2_events"] = run.cov.get("b2_events", 0) + res["consumed"]
        lines = None
        for bad in res["bad"]:
            if lines is None:
                lines = open(both).read().splitlines()
            ev = lines[bad["l"] - 1]
            try:
                evname = json.loads(ev)["event"]
            except Exception:
                evname = "?"
            mode = modes.get(bad["t"], "?")
            path = run.save_replay("trace-%d.ndjson" % bad["t"], trace_slice(both, bad["t"])[:4000000])
            hdr = json.loads(trace_slice(both, bad["t"]).splitlines()[0])
            run.violation("b2:%s:%s" % ("cli" if mode.startswith("cli") else "pipe", evname),
                          "recorded run %d (%s%s, batch %s workers %s readers %s buffer %s) is not a behaviour of the pipeline specification: rejected record %s" % (
                              bad["t"], mode, (" " + fam[bad["t"]]) if fam.get(bad["t"]) else "", hdr.get("batch"), hdr.get("workers"), hdr.get("readers"), hdr.get("buf"), ev[:400]), path)

    parallel([b1_gen, b2_run, b2_layers_run, lambda: (key_gen(), read_gen())], 4)   # TLC simulation (4 x 1 worker) + 1 next to the Go drivers
    parallel([b3, b1_replay, b2_validate, b2_layers_validate, lambda: (key_replay(), read_replay()),
              lambda: tlaps(run, "PipeClose", threads=2)], 6)   # TLC: 3 x 2 workers + 1 + 1; tlapm
    run.cov["rule"] = ("B3: all interleavings of Pipeline.tla within the listed constants; B1: distinct complete model behaviours "
                       "replayed on the real pipeline, non-trivial = >= 2 distinct emitted keys; B2: one trace per seeded "
                       "scenario / CLI run (incl. the buffer-geometry and -z corpora), non-trivial = scenarios in which >= 2 worker instances processed lines, and CLI runs")

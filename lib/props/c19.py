"""C19 - math formulas follow documented precedence; constants equal bound variables."""
import json
import os
import threading
from vf import Inconclusive, parallel, require_clean, validate_traces, vfj_lines

CLAIM = {
    "text": "MathExpr.tla specifies the `{! ..}` formula language: the operator table (^ before << >> before * / % before & | before + - before = == <= >= < > before && ||, equal levels left to right, unary operators bind to the value, a value followed by a group is an implied *), exact rational values with an explicit domain (bounded magnitude/denominators, integer-only operators on exact integers, a sound bound on the float64 rounding error; outside it only 'no crash'), a printer with minimal or redundant parentheses, implied multiplication and 0x/0b/.0 and [n]/[name]/bare spellings, a reference grammar parser (precedence climbing with binding powers) and an independent flat-scan classification of token strings into well-formed / malformed (empty formula or group, unbalanced parentheses, leading, dangling or adjacent binary operators) / undocumented, plus an implementation-shaped transcription of tokenizeExpr (groups, unary detection, longest operator match), compileTokens/getNextExpr/getNextOp and opCodeOrder. TLC proves on the model: every tree with up to 3 operators prints (all variants) to a well-formed string that the grammar and the implementation-shaped parser both read back as the same tree; for every token string up to length 5 (6 thorough) the classification agrees with the grammar, the implementation-shaped parser returns the grammar's tree on well-formed strings, rejects malformed ones and never panics; `a o1 b o2 c` has the value of the grouping the table dictates for all 18x18 operator pairs; arithmetic identities; constant = bound variable. TLC then enumerates every token string up to length 5 with its class and all trees with 1 and 2 binary operators over all 18 operators (3 over one operator per level; all 18 thorough), unary operators and functions, with the exact rational value per binding; the real stdmath.Compile and `{! ..}` through the KeyBuilder evaluate every printing with and without blanks under bindings with 0, negatives, halves and quarters. Seeded random formulas of 10-30 tokens (and damaged copies) and all 2^k constant<->variable variants of random formulas with trigonometric/logarithmic functions and huge bindings are recorded and judged by TLC (MathExpr_Trace). MathExprFold.tla specifies the second clause (constants equal bound variables; the value depends on the formula and the current binding only): evaluation = the parse tree, operands left to right, over an exact model of float64 where re-association is observable (scales 2^-1021 / 1 / 2^1021 with dyadic multipliers, overflow to Inf, underflow to 0, absorption, signed zeros, NaN); Simplify may fold only sub-trees without variables. TLC proves: the arithmetic is commutative but not associative or distributive (witnesses), folding is invisible (FoldSound), lifting any subset of the literals into variables bound to the same values or writing the bound values as literals gives the same value and the same key (LiftSound, SubstSound, LiftKeySound), the invisible rewrites x*1 x/1 x-0 x^1 --x a+b=b+a stay invisible, and six unsound simplifiers (trailing / leading / commuted constants of + and * chains, merged subtrahends and divisors, distribution, x*0 x+0 0-x x-x x/x) are each told apart by generated trees; with an uninterpreted operation on 2 (3 thorough) elements folding is sound for every operation and folding with re-association exactly for the associative ones. Every tree of four families (one operator with identities and unary operators; two operators; same-level chains of three in all five shapes; constant sub-trees inside functions) is replayed: compiled once per variant and engine, each compiled object evaluated along a schedule of 10 bindings (repeats, neighbours sharing x or y), a quarter also from 3 goroutines at once, every result compared with the value TLC predicted; then with real inexact values (0.1, 0.7, 1/3, 1e308, the largest and smallest float64, -0, NaN, Inf) all recorded result texts of a family are judged by MathExprFold_Trace: equal values at the leaves => equal text, whatever variant, object, goroutine or history.",
    "note": "Binding layer: MathExprBind.tla specifies the result of one evaluation of `{! ..}` on match data as a function of the formula and the current row only (value when every variable that occurs reads a number, <BAD-TYPE> when one does not - not demanded with && / || -, never for a formula without variables) and models the compiled formula as a shared object (pool of wrappers, error counter, reads interleaved between 2 goroutines); the code's design holds, four others (one shared wrapper, counter never cleared, flag overwritten per read, checked before the reads) are refuted and the equivalent one (cleared when the wrapper is given back) is accepted; 785 formulas are compiled once and evaluated along schedules of 25 rows and from 3 goroutines. Lexical layer: MathExprLex.tla gives every printable byte its role (15 punctuation bytes have none and may appear nowhere outside a key), the documented operands at character level (123 / 123.456 / 0x1BC / 0b1101 with their values, bare names = a letter then letters and digits, keys in ONE pair of brackets), a reference lexer from bytes to the tokens of MathExpr (malformed: bracket / operand / structure) and a byte-level transcription of tokenizeExpr + compileToken (isBoxed, strconv.ParseInt(s,0,64)/ParseFloat/Atoi acceptance, validVariableName) parameterised by the name/box policy; TLC proves transcription = lexer on every edited operand and every short string over six alphabets, and refutes the designs 'A'..'z' range, identifiers with _, non-numeric = variable, box = begins-and-ends / begins with a bracket. Bounded: values beyond 10^6 or denominators beyond 1024, non-integer exponents, ties of round, integer-only operators on negative/non-integer operands and the values of sqrt/trig/log functions are outside the value domain (only 'no crash' and the constant/variable law). The positions of the shift and bit operators in the table, 'unary binds tightest' and 'implied * has the precedence of *' are taken from the implementation (the documentation only says common order of operations). Undocumented forms (two unary operators in a row, two values in a row, function names without a group, literals such as 010 or 1e3) are accepted with any verdict. Trusted: TLC, Go's float64 arithmetic and math.Pow for small integer powers.",
    "technique": "TLA+ functional specification + implementation-shaped parser model checked for agreement by TLC + model-generated vectors replayed on the real code + TLC validation of recorded evaluations",
}

ALPHA9 = ["2", "x", "+", "*", "^", "-", "(", ")", "!"]
ALPHA11 = ALPHA9 + ["abs", "<="]
OPS4 = ["^", "*", "+", "<"]
OPS9 = ["^", "<<", "*", "/", "&", "+", "-", "<", "&&"]
OPS18 = ["^", "<<", ">>", "*", "/", "%", "&", "|", "+", "-", "==", "=", "<=", ">=", "<", ">", "&&", "||"]
LEVEL7 = ["^", "<<", "*", "&", "+", "<", "&&"]


def _set(xs):
    return "{" + ", ".join('"%s"' % x for x in xs) + "}"


def mc_cfg(mode, maxn=2, maxlen=5, treeops=("+",), alphabet=("2",)):
    return ("INIT Init\nNEXT Next\nCONSTANTS Mode = \"%s\"\n MaxN = %d\n MaxLen = %d\n TreeOps = %s\n Alphabet = %s\n"
            "INVARIANTS Law\nCHECK_DEADLOCK FALSE\n" % (mode, maxn, maxlen, _set(treeops), _set(alphabet)))


def gen_cfg(gmode, maxlen=5, alphabet=ALPHA9, g3ops=LEVEL7, big=False):
    return ("INIT GInit\nNEXT GNext\nCONSTANTS Mode = \"value\"\n MaxN = 2\n MaxLen = %d\n TreeOps = {\"+\"}\n Alphabet = %s\n"
            " GMode = \"%s\"\n G3Ops = %s\n Big = %s\nINVARIANTS GLaw Dump\nCHECK_DEADLOCK FALSE\n"
            % (maxlen, _set(alphabet), gmode, _set(g3ops), "TRUE" if big else "FALSE"))


def lex_cfg(kinds, nctx, maxlen, gen=True):
    return ("INIT LInitMC\nNEXT LNextMC\nCONSTANTS Kinds = %s\n NCtx = %d\n MaxLen = %d\nINVARIANTS %s\nCHECK_DEADLOCK FALSE\n"
            % (_set(kinds), nctx, maxlen, "LLaw LDump" if gen else "LLaw"))


def fold_cfg(fmode, family="one", magma=2, wide=False, gen=False):
    return ("INIT FInit\nNEXT FNext\nCONSTANTS FMode = \"%s\"\n Family = \"%s\"\n MagmaN = %d\n Wide = %s\nINVARIANTS %s\nCHECK_DEADLOCK FALSE\n"
            % (fmode, family, magma, "TRUE" if wide else "FALSE", "GLawX DumpX" if gen else "FLaw"))


CONTROLS = ["trail", "across", "lead", "mixed", "distribute", "ident"]


def _short(text):
    """formula text with the long decimal expansions (2^1021 has 308 digits) abbreviated"""
    import re
    return re.sub(r"\d[\d.]{24,}", lambda mo: "%s..(%d digits)" % (mo.group(0)[:12], len(mo.group(0))), text)


class Budget:
    """at most `n` TLC workers at a time"""

    def __init__(self, n):
        self.n = max(1, n)
        self.free = self.n
        self.cv = threading.Condition()

    def run(self, k, f):
        k = min(k, self.n)      # a job wider than the whole budget runs alone
        with self.cv:
            while self.free < k:
                self.cv.wait()
            self.free -= k
        try:
            return f()
        finally:
            with self.cv:
                self.free += k
                self.cv.notify_all()


def check(run):
    try:
        _check(run)
    except Inconclusive:
        raise
    except Exception as e:  # infrastructure trouble is never a verdict
        import traceback
        raise Inconclusive("c19 check failed: %s\n%s" % (e, traceback.format_exc()))


def _check(run):
    quick = run.tier == "quick"
    os.environ.setdefault("JAVA_TOOL_OPTIONS", "-XX:ParallelGCThreads=2")
    run.assumptions += [
        "operator levels: ^ > << >> > * / % > & | > + - > comparisons > && ||; the property fixes ^ > * / % > + - > comparisons > && ||, "
        "the places of the shift and bit operators are the implementation's (the documentation only says 'common order of operations')",
        "a unary - or ! binds to the value that follows it (-2^2 = 4) and a value directly followed by a group is multiplied with the "
        "precedence of an explicit * (6/2(3) = 9): documented only by example, taken from the implementation",
        "value domain (MathExpr.tla Part 2): |value| <= 10^6, denominators <= 1024, integer exponents |k| <= 32, % << >> & | on exactly computed "
        "non-negative integers with a positive divisor / a count 0..20, round away from ties, comparisons and truth tests whose float64 "
        "evaluation provably agrees with the rational one; results compared within 10^-4; elsewhere only 'no crash' and the constant/variable law",
        "undocumented forms get any verdict but no crash: two unary operators in a row, two values in a row, a function name without a group, "
        "! after a value, literal spellings other than decimal / 0x / 0b (010 is octal 8 in the code, 1e3, 1_0)",
        "`{! ..}` formulas are passed as one quoted argument (unquoted, the helper joins its arguments without the blanks); the unquoted form "
        "is used for well-formed formulas only; `{! }` without a formula is the expression compiler's business",
    ]
    run.build_harness()
    bud = Budget(int(os.environ.get("C19_TLC_BUDGET", "8")))
    vec_path = os.path.join(run.scratch, "c19-vectors.ndjson")
    res_path = os.path.join(run.scratch, "c19-replay.json")
    tr_path = os.path.join(run.scratch, "c19-trace.ndjson")

    # ---- B2 recording first (cheap)
    p = run.drv(["trace", "-out", tr_path, "-n", 5000 if quick else 60000, "-lex", 2500 if quick else 40000])
    tstat = json.loads(p.stdout.strip().splitlines()[-1])
    lines = open(tr_path).read().splitlines()
    # canaries: corrupted copies of real records; TLC must reject them (guards against a vacuous validation)
    ncanary = 0
    for ln in lines[:600]:
        rec = json.loads(ln)
        if rec["k"] == "val" and rec["got"]["c"] == "num":
            rec["got"]["ip"] += 3
        elif rec["k"] == "law" and rec["got"][-1]["c"] == "num":
            rec["got"][-1]["fp"] += 5000
        else:
            continue
        rec["canary"] = True
        lines.append(json.dumps(rec, separators=(",", ":")))
        ncanary += 1
    nlexcan = 0
    for ln in [x for x in lines if '"k":"lex"' in x][:400]:
        rec = json.loads(ln)
        if rec["got"]["c"] == "err":          # a rejected formula reported as accepted
            rec["got"] = {"c": "num", "ip": 0, "fp": 0, "sg": 0, "ex": 0, "mt": 0, "x": "0"}
        elif rec["got"]["c"] == "num":
            rec["got"]["ip"] += 3
        else:
            continue
        rec["canary"] = True
        lines.append(json.dumps(rec, separators=(",", ":")))
        ncanary += 1
        nlexcan += 1
    for ln in [x for x in lines if '"k":"bind"' in x][:300]:
        rec = json.loads(ln)
        if rec["got"]["c"] == "text":         # the error marker reported as a number
            rec["got"] = {"c": "num", "ip": 0, "fp": 0, "sg": 0, "ex": 0, "mt": 0, "x": "0"}
        elif rec["got"]["c"] == "num":
            rec["got"]["ip"] += 3
        else:
            continue
        rec["canary"] = True
        lines.append(json.dumps(rec, separators=(",", ":")))
        ncanary += 1

    def mc(label, cfg, workers, minstates):
        def f():
            r = run.tlc("MathExpr_MC", cfg, workers=workers, timeout=3000, label=label)
            require_clean(run, r, label)
            if r.distinct < minstates:
                raise Inconclusive("%s explored only %d cases" % (label, r.distinct))
            return r
        return lambda: bud.run(workers, f)

    def gen(gmode, cfg, workers, minvec):
        def f():
            r = run.tlc("MathExpr_Gen", cfg, workers=workers, timeout=3000, label="MathExpr_Gen " + gmode, xmx="4g")
            if r.violated or r.errors or not r.finished:
                if gmode.startswith("tokens") and r.violated:
                    require_clean(run, r, "MathExpr_Gen token law")
                raise Inconclusive("generator %s failed: %s" % (gmode, r.out[-2000:]))
            vs = vfj_lines(r.out)
            if len(vs) < minvec:
                raise Inconclusive("generator %s produced only %d vectors" % (gmode, len(vs)))
            return vs
        return lambda: bud.run(workers, f)

    def genlex(nctx, maxlen, workers, minvec):
        def f():
            label = "MathExprLex_Gen (laws + vectors: contexts 1..%d, strings <= %d)" % (nctx, maxlen)
            r = run.tlc("MathExprLex_Gen", lex_cfg(("ctl", "edit", "str"), nctx, maxlen), workers=workers, timeout=3000, label=label, xmx="4g")
            if r.violated:
                require_clean(run, r, label + " (CtlLaw: byte roles, number values, refuted name/box designs; TextLaw: transcription = lexical grammar)")
            if r.errors or not r.finished:
                raise Inconclusive("generator %s failed: %s" % (label, r.out[-2000:]))
            vs = vfj_lines(r.out)
            if len(vs) < minvec:
                raise Inconclusive("generator %s produced only %d vectors" % (label, len(vs)))
            return vs
        return lambda: bud.run(workers, f)

    def genbind():
        def f():
            label = "MathExprBind_Gen (expectation per formula and row)"
            r = run.tlc("MathExprBind_Gen", "INIT GInitB\nNEXT GNextB\nINVARIANTS GLawB DumpB\nCHECK_DEADLOCK FALSE\n", workers=1, timeout=3000, label=label)
            if r.violated:
                require_clean(run, r, label + " (ExpLaw)")
            if r.errors or not r.finished:
                raise Inconclusive("generator %s failed: %s" % (label, r.out[-2000:]))
            vs = vfj_lines(r.out)
            if len(vs) < 700 or not any(v["g"] == "hdr" for v in vs):
                raise Inconclusive("generator %s produced only %d vectors" % (label, len(vs)))
            return [v for v in vs if v["g"] == "hdr"][:1] + [v for v in vs if v["g"] != "hdr"]
        return lambda: bud.run(1, f)

    def mcbind(wide):
        def f():
            label = "B3 MathExprBind_MC: one compiled formula, 2 goroutines x %d evaluations, pooled wrappers; the code's design holds, 4 other designs refuted, 1 equivalent design accepted" % (3 if wide else 2)
            cfg = ("INIT BInit\nNEXT BNext\nCONSTANTS G = 2\n MaxEv = %d\n Wide = %s\nINVARIANTS Obs Exclusive\nPOSTCONDITION Refuted\nCHECK_DEADLOCK FALSE\n"
                   % (3 if wide else 2, "TRUE" if wide else "FALSE"))
            r = run.tlc("MathExprBind_MC", cfg, workers=1, timeout=3000, label=label)
            require_clean(run, r, label)
            if r.distinct < 50000:
                raise Inconclusive("%s explored only %d states" % (label, r.distinct))
            return r
        return lambda: bud.run(1, f)

    def genx(family, workers, minvec, wide=False):
        def f():
            label = "MathExprFold_Gen " + family
            r = run.tlc("MathExprFold_Gen", fold_cfg("trees", family, wide=wide, gen=True), workers=workers, timeout=3000, label=label, xmx="4g")
            if r.violated:
                require_clean(run, r, label + " (FoldSound / LiftSound / SubstSound / HarmlessSound)")
            if r.errors or not r.finished:
                raise Inconclusive("generator %s failed: %s" % (label, r.out[-2000:]))
            vs = vfj_lines(r.out)
            if len(vs) < minvec or not any(v["g"] == "header" for v in vs):
                raise Inconclusive("generator %s produced only %d vectors" % (label, len(vs)))
            return [v for v in vs if v["g"] == "header"][:1] + [v for v in vs if v["g"] != "header"]
        return lambda: bud.run(workers, f)

    def mcx(label, cfg, workers, minstates):
        def f():
            r = run.tlc("MathExprFold_MC", cfg, workers=workers, timeout=3000, label=label)
            require_clean(run, r, label)
            if r.distinct < minstates:
                raise Inconclusive("%s explored only %d cases" % (label, r.distinct))
            return r
        return lambda: bud.run(workers, f)

    def val(i, path):
        return lambda: bud.run(1, lambda: validate_traces(run, "MathExpr_Trace", path, label="MathExpr_Trace chunk %d" % i,
                                                          timeout=3000, xmx="3g"))

    k = 2 if quick else 8
    per = (len(lines) + k - 1) // k
    chunks = []
    for i in range(k):
        part = lines[i * per:(i + 1) * per]
        if part:
            pth = os.path.join(run.scratch, "c19-chunk-%d.ndjson" % i)
            with open(pth, "w") as f:
                f.write("\n".join(part) + "\n")
            chunks.append((i, pth, part))

    if quick:
        b3 = [mc("B3 trees <=3 operators over %s" % " ".join(OPS4), mc_cfg("trees", 3, 5, OPS4), 3, 10000),
              mc("B3 value laws", mc_cfg("value"), 1, 1)]
        gens = [gen("tokens", gen_cfg("tokens", 5, ALPHA9), 2, 60000),
                gen("g2", gen_cfg("g2"), 2, 8000),
                gen("g1", gen_cfg("g1"), 1, 1500),
                gen("g3", gen_cfg("g3"), 1, 3000)]
        gensx = [genx("two", 2, 4000), genx("three", 2, 4000), genx("func", 1, 2000), genx("one", 1, 1500)]
        lexjob = genlex(4, 4, 2, 20000)
        b3 += [mcx("B3 float64 edge arithmetic: laws, non-associativity, negative controls", fold_cfg("arith"), 1, 1),
               mcx("B3 folding under every binary operation on 2 elements", fold_cfg("magma", magma=2), 1, 20)]
    else:
        b3 = [mc("B3 trees <=3 operators over %s" % " ".join(OPS9), mc_cfg("trees", 3, 5, OPS9), 4, 90000),
              mc("B3 trees <=2 operators over all 18", mc_cfg("trees", 2, 5, OPS18), 2, 4000),
              mc("B3 tokens <=6 over 9 symbols", mc_cfg("tokens", 2, 6, ("+",), ALPHA9), 4, 590000),
              mc("B3 value laws", mc_cfg("value"), 1, 1)]
        gens = [gen("tokens", gen_cfg("tokens", 5, ALPHA11), 3, 170000),
                gen("g2", gen_cfg("g2", big=True), 4, 40000),
                gen("g1", gen_cfg("g1"), 1, 1500),
                gen("g3", gen_cfg("g3", g3ops=OPS18), 4, 50000)]
        gensx = [genx("three", 4, 12000, wide=True), genx("two", 4, 12000, wide=True), genx("func", 2, 3000, wide=True),
                 genx("one", 1, 1500, wide=True)]
        lexjob = genlex(8, 6, 4, 300000)
        b3 += [mcx("B3 float64 edge arithmetic: laws, non-associativity, negative controls", fold_cfg("arith"), 1, 1),
               mcx("B3 folding under every binary operation on 2 elements", fold_cfg("magma", magma=2), 1, 20),
               mcx("B3 folding under every binary operation on 3 elements", fold_cfg("magma", magma=3), 4, 19000)]
    jobs = [lexjob, genbind(), mcbind(not quick)] + gensx + gens + b3 + [val(i, pth) for i, pth, _ in chunks]
    results = parallel(jobs, len(jobs))
    lex_vs = results[0]
    bind_vs = results[1]
    results = results[3:]
    genx_res = results[:len(gensx)]
    results = results[len(gensx):]
    gen_res = results[:len(gens)]
    val_res = results[len(gens) + len(b3):]

    # ---- second clause (MathExprFold): B1 replay with predicted values + B2 recorded histories judged by TLC
    fold_vec = os.path.join(run.scratch, "c19-fold-vectors.ndjson")
    fold_res = os.path.join(run.scratch, "c19-fold-replay.json")
    fold_tr = os.path.join(run.scratch, "c19-fold-trace.ndjson")
    nfold = 0
    with open(fold_vec, "w") as f:
        for vs in genx_res:
            for v in vs:
                f.write(json.dumps(v, separators=(",", ":")) + "\n")
                nfold += v["g"] != "header"
    run.drv(["fold", "-in", fold_vec, "-out", fold_res, "-trace", fold_tr, "-rounds", 1 if quick else 2,
             "-subs", 3 if quick else 5, "-par", 4 if quick else 8])
    fres = json.load(open(fold_res))
    if fres["vectors"] != nfold:
        raise Inconclusive("fold: replayed %d of %d vectors" % (fres["vectors"], nfold))
    for c in CONTROLS:
        if not fres["sens"].get(c):
            raise Inconclusive("no generated tree tells the negative control %r apart in the model" % c)
    flines = open(fold_tr).read().splitlines()
    nfam = len(flines)
    fcanary = 0
    for ln in flines[:3000]:
        if fcanary >= 150:
            break
        rec = json.loads(ln)
        if len(rec["outs"]) >= 2 and len(rec["ev"]) >= 4:
            rec["ev"][0][6] = 1 + rec["ev"][0][6] % len(rec["outs"])
            rec["canary"] = True
            flines.append(json.dumps(rec, separators=(",", ":")))
            fcanary += 1
    kf = 3 if quick else 8
    perf = (len(flines) + kf - 1) // kf
    fchunks = []
    for i in range(kf):
        part = flines[i * perf:(i + 1) * perf]
        if part:
            pth = os.path.join(run.scratch, "c19-fold-chunk-%d.ndjson" % i)
            with open(pth, "w") as f:
                f.write("\n".join(part) + "\n")
            fchunks.append((i, pth, part))
    fval = parallel([(lambda i=i, pth=pth: bud.run(1, lambda: validate_traces(
        run, "MathExprFold_Trace", pth, label="MathExprFold_Trace chunk %d" % i, timeout=3000, xmx="3g")))
        for i, pth, _ in fchunks], len(fchunks))
    run.cov["fold_b1_vectors"] = fres["vectors"]
    run.cov["fold_b1_vectors_per_family"] = fres["per_group"]
    run.cov["fold_b1_evaluations"] = fres["runs"]
    run.cov["fold_b1_evaluations_with_predicted_value"] = fres["in_model"]
    run.cov["fold_objects_evaluated_from_3_goroutines"] = fres["concurrent_objects"]
    run.cov["fold_vectors_telling_a_negative_control_apart"] = fres["sens"]
    run.cov["traces_validated_against_impl"] += fres["runs"]
    run.cov["evaluations"] += fres["runs"]
    run.cov["distinct_nontrivial"] += sum(fres["sens"].values())
    for s in fres["samples"] or []:
        run.sample({"fold": s})
    for m in fres["mismatches"] or []:
        run.violation("fold:%s:%s" % (m["class"], m["g"]),
                      "formula %r (%s, variant %s, compiled once and evaluated under the bindings %s; x,y = %s at the last step) gives %s; "
                      "the specification (MathExprFold, float64 edge arithmetic) expects %s" % (
                          _short(m["text"]), m["engine"], m["variant"], m["history"], m["binding"], m["got"], m["expect"]), m)
    fconsumed = fcan_rej = 0
    for (i, pth, part), (r, _) in zip(fchunks, fval):
        if r["consumed"] != len(part) or not r["done"]:
            raise Inconclusive("fold trace chunk %d: consumed %d of %d records" % (i, r["consumed"], len(part)))
        fconsumed += r["consumed"]
        for bad in r["bad"]:
            rec = json.loads(part[bad["l"] - 1])
            if rec.get("canary"):
                fcan_rej += 1
                continue
            # a readable account: per engine and binding, the texts the variants / objects / goroutines produced
            seen = {}
            for vi, eng, obj, g, seq, b, o in rec["ev"]:
                va = rec["vs"][vi - 1]
                bb = va["b"] if va["kind"] == "sub" else b
                seen.setdefault((eng, bb), {}).setdefault(rec["outs"][o - 1], []).append(
                    "%s%s obj %d%s step %d" % (va["kind"], va["s"] or "", obj, " goroutine %d" % g if g else "", seq))
            diff = [(k, v) for k, v in sorted(seen.items()) if len(v) > 1][:2]
            what = "formula %s with table %s: %s" % (" ".join(rec["toks"]), rec["tabv"], "; ".join(
                "engine %d, x,y = %s: %s" % (k[0], rec["bindv"][k[1] - 1], " BUT ".join("%s from %s" % (t[:40], w[:3]) for t, w in v.items()))
                for k, v in diff) or "evaluations whose leaves receive the same values print different texts")
            run.violation("fold-law:%s:%s" % (bad["class"], rec["g"]), what, rec)
    if fcan_rej * 2 < fcanary:
        raise Inconclusive("fold trace validation rejected only %d of %d deliberately corrupted families" % (fcan_rej, fcanary))
    run.cov["fold_b2_families"] = nfam
    run.cov["fold_b2_corrupted_families_rejected"] = "%d of %d" % (fcan_rej, fcanary)

    # ---- lexical layer (MathExprLex): B1 replay of the byte strings TLC enumerated
    lex_vec = os.path.join(run.scratch, "c19-lex-vectors.ndjson")
    lex_res = os.path.join(run.scratch, "c19-lex-replay.json")
    with open(lex_vec, "w") as f:
        for v in lex_vs:
            f.write(json.dumps(v, separators=(",", ":")) + "\n")
    run.drv(["lex", "-in", lex_vec, "-out", lex_res])
    lres = json.load(open(lex_res))
    if lres["vectors"] != len(lex_vs):
        raise Inconclusive("lex: replayed %d of %d vectors" % (lres["vectors"], len(lex_vs)))
    for need in ("mal:bracket", "mal:operand", "mal:structure", "wf", "undoc"):
        if lres["per_class"].get(need, 0) < 500:
            raise Inconclusive("lex: only %d generated texts of class %s" % (lres["per_class"].get(need, 0), need))
    run.cov["lex_b1_texts"] = lres["vectors"]
    run.cov["lex_b1_texts_per_kind"] = lres["per_group"]
    run.cov["lex_b1_texts_per_class"] = lres["per_class"]
    run.cov["lex_b1_evaluations"] = lres["runs"]
    run.cov["lex_b1_evaluations_with_predicted_value"] = lres["valued"]
    run.cov["lex_b1_real_code_agrees_with_byte_level_transcription"] = "%d of %d texts (information, not a verdict)" % (
        lres["impl_agree"], lres["impl_agree"] + lres["impl_differ"])
    run.cov["traces_validated_against_impl"] += lres["runs"]
    run.cov["evaluations"] += lres["runs"]
    run.cov["distinct_nontrivial"] += lres["distinct_nontrivial"]
    for smp in lres["samples"] or []:
        run.sample({"lex_b1": smp})
    for m in lres["mismatches"] or []:
        run.violation("lex-b1:%s:%s" % (m["class"], m["g"]),
                      "formula %r (%s, binding x,y = %s) gives %s; the specification (MathExprLex) expects: %s" % (
                          m["text"], m["engine"], m["binding"][:2], m["got"], m["expect"]), m)

    # ---- binding layer (MathExprBind): every formula compiled once, evaluated along a schedule of rows and from 3 goroutines
    bind_vec = os.path.join(run.scratch, "c19-bind-vectors.ndjson")
    bind_res = os.path.join(run.scratch, "c19-bind-replay.json")
    with open(bind_vec, "w") as f:
        for v in bind_vs:
            f.write(json.dumps(v, separators=(",", ":")) + "\n")
    run.drv(["bind", "-in", bind_vec, "-out", bind_res, "-par", 3 if quick else 6])
    bres = json.load(open(bind_res))
    if bres["vectors"] != len(bind_vs) - 1:
        raise Inconclusive("bind: replayed %d of %d vectors" % (bres["vectors"], len(bind_vs) - 1))
    if bres["want_bad"] < 10000 or bres["want_value"] < 10000:
        raise Inconclusive("bind: too few demanding evaluations (%d marker, %d value)" % (bres["want_bad"], bres["want_value"]))
    run.cov["bind_b1_formulas"] = bres["vectors"]
    run.cov["bind_b1_formulas_per_family"] = bres["per_group"]
    run.cov["bind_b1_compiled_objects"] = bres["objects"]
    run.cov["bind_b1_evaluations"] = bres["runs"]
    run.cov["bind_b1_evaluations_expecting_the_marker"] = bres["want_bad"]
    run.cov["bind_b1_evaluations_expecting_a_value"] = bres["want_value"]
    run.cov["traces_validated_against_impl"] += bres["runs"]
    run.cov["evaluations"] += bres["runs"]
    run.cov["distinct_nontrivial"] += bres["distinct_nontrivial"]
    for smp in (bres["samples"] or [])[:1]:
        run.sample({"bind_b1": smp})
    for m in bres["mismatches"] or []:
        run.violation("bind-b1:%s:%s:%s" % (m["class"], m["g"], m["engine"]),
                      "%s compiled once: %s; the specification (MathExprBind: the result depends on the formula and the current row only) expects %s" % (
                          m["text"], m["got"], m["expect"]), m)

    # ---- B1: replay of the generated vectors on the real code
    nvec = 0
    with open(vec_path, "w") as f:
        for vs in gen_res:
            for v in vs:
                f.write(json.dumps(v, separators=(",", ":")) + "\n")
                nvec += 1
    run.drv(["replay", "-in", vec_path, "-out", res_path])
    res = json.load(open(res_path))
    if res["vectors"] != nvec:
        raise Inconclusive("replayed %d of %d vectors" % (res["vectors"], nvec))
    run.cov["b1_vectors"] = res["vectors"]
    run.cov["b1_vectors_per_group"] = res["per_group"]
    run.cov["b1_evaluations"] = res["runs"]
    run.cov["traces_validated_against_impl"] += res["runs"]
    run.cov["evaluations"] += res["runs"]
    run.cov["distinct_nontrivial"] += res["distinct_nontrivial"]
    for s in res["samples"] or []:
        run.sample({"b1": s})
    for m in res["mismatches"] or []:
        run.violation("b1:%s:%s" % (m["class"], m["g"]),
                      "formula %r (%s, binding x,y = %s) gives %s; the specification expects %s" % (
                          m["text"], m["engine"], m["binding"][:2], m["got"], m["expect"]), m)

    # ---- B2: TLC's verdict on the recorded evaluations
    consumed = nontrivial = canary_rejected = 0
    for (i, pth, part), (r, _) in zip(chunks, val_res):
        if r["consumed"] != len(part) or not r["done"]:
            raise Inconclusive("trace chunk %d: consumed %d of %d records" % (i, r["consumed"], len(part)))
        consumed += r["consumed"]
        nontrivial += r["nontrivial"]
        for bad in r["bad"]:
            rec = json.loads(part[bad["l"] - 1])
            if rec.get("canary"):
                canary_rejected += 1
                continue
            if rec["k"] == "lex":
                run.violation("lex-b2:%s" % bad["class"], "formula %r (%s) under %s evaluates to %s; rejected by MathExprLex.tla (%s)" % (
                    rec["shown"], rec["eng"], rec["bind"], rec["got"], bad["class"]), rec)
                continue
            if rec["k"] == "bind":
                run.violation("b2:%s" % bad["class"], "%s (%s) compiled once; on match data where the variables %s read no number and the others %s it gives %s; "
                              "rejected by MathExprBind.tla (%s)" % (rec["text"], rec["eng"], rec["badv"], rec["bind"], rec["got"]["x"], bad["class"]), rec)
                continue
            if rec["k"] == "law":
                what = "the variants %s (constants <-> variables bound to the same values, bindings %s, %s) evaluate to %s" % (
                    rec["texts"], rec["binding"], rec["eng"], [g["c"] if g["c"] != "num" else g["ip"] + g["fp"] / 1e6 for g in rec["got"]])
            else:
                what = "formula %r (%s) under %s evaluates to %s; rejected by MathExpr.tla (%s)" % (
                    rec["text"], rec["eng"], rec["bind"], rec["got"], bad["class"])
            run.violation("b2:%s" % bad["class"], what, rec)
    if canary_rejected * 2 < ncanary:    # (copies of records outside the domain are rightly accepted)
        raise Inconclusive("trace validation rejected only %d of %d deliberately corrupted records" % (canary_rejected, ncanary))
    consumed -= ncanary
    run.cov["b2_corrupted_records_rejected"] = "%d of %d" % (canary_rejected, ncanary)
    run.cov["b2_records"] = consumed
    run.cov["b2_value_records"] = tstat["val"]
    run.cov["b2_law_records"] = tstat["law"]
    run.cov["lex_b2_byte_damaged_formulas"] = tstat["lex"]
    run.cov["bind_b2_records"] = tstat["bind"]
    run.cov["b2_records_inside_domain"] = nontrivial - ncanary
    run.cov["traces_validated_against_impl"] += tstat["evaluations"]
    run.cov["evaluations"] += tstat["evaluations"]
    with open(tr_path) as f:
        run.sample({"b2_records": [json.loads(next(f)) for _ in range(2)]})
    if (nontrivial - ncanary) * 2 < consumed:
        raise Inconclusive("only %d of %d recorded evaluations are inside the specified domain" % (nontrivial - ncanary, consumed))
    run.cov["rule"] = ("fold: one vector per tree of MathExprFold_MC (families one/two/three/func), every vector compiled in its variants and each "
                       "compiled object evaluated along a schedule of 10 bindings, non-trivial = the tree tells at least one unsound simplifier "
                       "(negative control) apart in the model; B3: every tree / token string / operator pair of MathExpr_MC; B1: one vector per token string or tree, evaluated in every "
                       "printing x blanks x {stdmath, quoted and bare `{! ..}`} x 5 bindings, non-trivial = malformed (must be rejected) or some "
                       "binding with a value inside the domain; B2: one record per evaluation / per 2^k variant family, inside the domain = "
                       "malformed, well-formed with a defined value, or a family of >= 2 variants; "
                       "lex B1: one vector per byte string (edited operand in a context / string over an alphabet), non-trivial = malformed or a value inside "
                       "the domain; lex B2: one record per byte-damaged random formula")

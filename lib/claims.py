"""Manifest-level facts kept by hand (per-property claims live in lib/props/cNN.py as CLAIM)."""
HOOK_COMMITS = []     # commits in /repo that add verif-tagged hooks
HOLD_BACK = set()     # property ids whose check exists but is not claimed yet (still being built)
NOT_YET = {}          # property id -> reason it is not claimed

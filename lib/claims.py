"""Manifest-level facts kept by hand (per-property claims live in lib/props/cNN.py as CLAIM)."""
HOOK_COMMITS = []     # commits in /repo that add verif-tagged hooks
READY = {"C04"}       # property ids whose check is finished and claimed in MANIFEST.json
NOT_YET = {}          # property id -> reason it is not claimed

"""What MANIFEST.json claims per property (bin/mkmanifest turns this into MANIFEST.json)."""
HOOK_COMMITS = []
NOT_YET = {}
CLAIMS = {
 "C04": {
  "text": "TLC exhaustively checks implementation-shaped models of both scanners (ScannerImm/ScannerBuf: every stream over {a,CR,LF} up to the bound, every chunking, stall and failure position, buffer sizes 1..4) for exact splitting, single error report, no read after the end, buffer-lifetime (no write under a handed-out view), refinement of the abstract Scanner and termination; every complete model behaviour is replayed on the real scanners (retained slices re-read at the end) and seeded random real executions (incl. the 128 KiB production wiring) are validated by TLC against the abstract spec.",
  "note": "Bounded: exhaustive only within the stated stream length/alphabet/buffer sizes; beyond that seeded random traces. Trusted: Go runtime, the scripted io.Reader of the harness, TLC.",
  "technique": "TLA+ refinement model checking (TLC) + model-behaviour replay + trace validation",
 },
}

"""Manifest-level facts kept by hand (per-property claims live in lib/props/cNN.py as CLAIM)."""
HOOK_COMMITS = ["5b4a1264fac4eba726b63d3638e31da0ec4eeb9c"]     # commits in /repo that add verif-tagged hooks
READY = {"C03", "C04", "C05", "C06", "C07", "C11", "C12", "C15", "C20"}
NOT_YET = {}          # property id -> reason it is not claimed

"""Manifest-level facts kept by hand (per-property claims live in lib/props/cNN.py as CLAIM)."""
HOOK_COMMITS = ["5b4a1264fac4eba726b63d3638e31da0ec4eeb9c", "06a635a66074816540403030e87ac5fae2708e67"]
READY = {"C01", "C02", "C08", "C10", "C03", "C04", "C05", "C06", "C07", "C09", "C11", "C12", "C13", "C14", "C15", "C16", "C17", "C18", "C19", "C20"}
NOT_YET = {}          # property id -> reason it is not claimed

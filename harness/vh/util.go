// Package vh holds the helpers shared by the per-property conformance drivers.
package vh

import (
	"bufio"
	"encoding/json"
	"fmt"
	"math/rand"
	"os"
	"strconv"
)

// B converts bytes to the integer-array encoding used on the TLA+ side.
func B(b []byte) []int {
	out := make([]int, len(b))
	for i, c := range b {
		out[i] = int(c)
	}
	return out
}

func BS(s string) []int { return B([]byte(s)) }

// R converts a string to its code points.
func R(s string) []int {
	rs := []rune(s)
	out := make([]int, len(rs))
	for i, c := range rs {
		out[i] = int(c)
	}
	return out
}

func FromInts(a []int) []byte {
	out := make([]byte, len(a))
	for i, c := range a {
		out[i] = byte(c)
	}
	return out
}

func RunesFromInts(a []int) string {
	out := make([]rune, len(a))
	for i, c := range a {
		out[i] = rune(c)
	}
	return string(out)
}

type M = map[string]interface{}

type NdWriter struct {
	f *os.File
	w *bufio.Writer
	N int
}

func NewNdWriter(path string) (*NdWriter, error) {
	f, err := os.Create(path)
	if err != nil {
		return nil, err
	}
	return &NdWriter{f: f, w: bufio.NewWriterSize(f, 1<<20)}, nil
}

func (s *NdWriter) Write(v interface{}) {
	b, err := json.Marshal(v)
	if err != nil {
		panic(err)
	}
	s.w.Write(b)
	s.w.WriteByte('\n')
	s.N++
}

func (s *NdWriter) Close() {
	s.w.Flush()
	s.f.Close()
}

func ReadNd(path string, each func(raw json.RawMessage) error) error {
	f, err := os.Open(path)
	if err != nil {
		return err
	}
	defer f.Close()
	sc := bufio.NewScanner(f)
	sc.Buffer(make([]byte, 1<<20), 1<<30)
	for sc.Scan() {
		line := sc.Bytes()
		if len(line) == 0 {
			continue
		}
		cp := make([]byte, len(line))
		copy(cp, line)
		if err := each(cp); err != nil {
			return err
		}
	}
	return sc.Err()
}

func Seed() int64 {
	if v := os.Getenv("VERIF_SEED"); v != "" {
		if n, err := strconv.ParseInt(v, 10, 64); err == nil {
			return n
		}
	}
	return 1
}

func NewRand(salt int64) *rand.Rand { return rand.New(rand.NewSource(Seed()*1000003 + salt)) }

func WriteJSON(path string, v interface{}) {
	b, _ := json.MarshalIndent(v, "", " ")
	if err := os.WriteFile(path, b, 0o644); err != nil {
		fmt.Fprintln(os.Stderr, "write", path, err)
	}
}

func EqInts(a, b []int) bool {
	if len(a) != len(b) {
		return false
	}
	for i := range a {
		if a[i] != b[i] {
			return false
		}
	}
	return true
}

// Commands is the sub-command table of one driver binary.
type Commands map[string]func(args []string) error

// Main dispatches os.Args[1] to a command.
func Main(cmds Commands) {
	if len(os.Args) < 2 {
		fmt.Fprintln(os.Stderr, "usage: <driver> <command> [flags]")
		for k := range cmds {
			fmt.Fprintln(os.Stderr, "  ", k)
		}
		os.Exit(64)
	}
	f, ok := cmds[os.Args[1]]
	if !ok {
		fmt.Fprintln(os.Stderr, "unknown command", os.Args[1])
		os.Exit(64)
	}
	if err := f(os.Args[2:]); err != nil {
		fmt.Fprintln(os.Stderr, "driver:", err)
		os.Exit(3)
	}
}

package main

// C19 - math formulas `{! ..}` follow the documented precedence; constants equal bound variables;
// malformed formulas are rejected; no crash.
//   c19 replay : evaluates TLC-enumerated formulas (MathExpr_Gen: token strings with their class,
//                trees printed in several variants with the expected rational per binding) on
//                stdmath.Compile and on `{! ..}` through the KeyBuilder (B1)
//   c19 trace  : seeded random formulas of 10-30 tokens (plus damaged copies) evaluated under random
//                bindings, and every formula in all variants constant <-> bound variable; recorded
//                for MathExpr_Trace (B2)
//   c19 lex    : the lexical layer - TLC-enumerated byte strings (MathExprLex_Gen) replayed (B1), see lex.go;
//                `c19 trace -lex N` appends N byte-damaged random formulas to the trace (B2)
//   c19 bind   : the binding of a compiled formula to match data (numbers / no numbers, <BAD-TYPE>), see bind.go
//   c19 eval   : one formula (debugging)

import (
	"encoding/json"
	"flag"
	"fmt"
	"math"
	"math/rand"
	"os"
	"strconv"
	"strings"
	"sync"

	"rare/pkg/expressions"
	"rare/pkg/expressions/funclib"
	"rare/pkg/expressions/stdmath"

	"verifharness/vh"
)

func main() {
	vh.Main(vh.Commands{"replay": c19Replay, "trace": c19Trace, "eval": c19Eval, "fold": c19Fold, "lex": c19Lex, "bind": c19Bind})
}

type M = vh.M

// ---------------------------------------------------------------------------- calling the real code

var varNames = []string{"x", "y", "z", "w", "p", "q", "r", "s"}

type bindCtx struct{ vals []float64 }

func (c *bindCtx) GetMatch(i int) float64 {
	if i >= 0 && i < len(c.vals) {
		return c.vals[i]
	}
	return 0
}
func (c *bindCtx) GetKey(k string) float64 {
	for i, n := range varNames {
		if n == k && i < len(c.vals) {
			return c.vals[i]
		}
	}
	return 0
}

type outcome struct {
	C  string `json:"c"`
	Ip int64  `json:"ip"`
	Fp int64  `json:"fp"`
	Sg int    `json:"sg"`
	Ex int    `json:"ex"`
	Mt int64  `json:"mt"`
	X  string `json:"x"` // the exact result: the text `{! ..}` printed, or the float64 in shortest round-trip form
	v  float64
	m  string // panic / error text
}

func classify(v float64) outcome {
	switch {
	case math.IsNaN(v):
		return outcome{C: "nan", v: v}
	case math.IsInf(v, 1):
		return outcome{C: "pinf", v: v}
	case math.IsInf(v, -1):
		return outcome{C: "ninf", v: v}
	case math.Abs(v) < 2e6:
		ip := math.Floor(v)
		fp := math.Round((v - ip) * 1e6)
		return outcome{C: "num", Ip: int64(ip), Fp: int64(fp), v: v}
	}
	sg := 1
	if v < 0 {
		sg = -1
	}
	s := strconv.FormatFloat(math.Abs(v), 'e', 6, 64) // d.dddddde+XX
	mant, exp, _ := strings.Cut(s, "e")
	ex, _ := strconv.Atoi(exp)
	mt, _ := strconv.ParseInt(strings.Replace(mant, ".", "", 1), 10, 64)
	return outcome{C: "big", Sg: sg, Ex: ex, Mt: mt, v: v}
}

var kbuilder = funclib.NewKeyBuilder()

// an engine compiles a formula text once; the compiled form is evaluated under many bindings
type compiled func(vals []float64) outcome

func guard(f func() outcome) (o outcome) {
	defer func() {
		if r := recover(); r != nil {
			o = outcome{C: "panic", m: fmt.Sprint(r)}
		}
	}()
	return f()
}

func constant(o outcome) compiled { return func([]float64) outcome { return o } }

// compileStd: stdmath.Compile; Eval twice (a compiled formula is reusable)
func compileStd(text string) compiled {
	var e stdmath.Expr
	if o := guard(func() outcome {
		var err error
		e, err = stdmath.Compile(text)
		if err != nil {
			return outcome{C: "err", m: err.Error()}
		}
		return outcome{}
	}); o.C != "" {
		return constant(o)
	}
	return func(vals []float64) outcome {
		return guard(func() outcome {
			ctx := &bindCtx{vals}
			v := e.Eval(ctx)
			if w := e.Eval(ctx); w != v && !(math.IsNaN(v) && math.IsNaN(w)) {
				return outcome{C: "panic", m: fmt.Sprintf("second evaluation differs: %v then %v", v, w)}
			}
			o := classify(v)
			o.X = strconv.FormatFloat(v, 'g', -1, 64)
			return o
		})
	}
}

// compileKB: `{! "text"}` through the expression compiler.  The text is quoted because the helper joins
// its arguments without the blanks (`{! 1 < < 2}` is the formula `1<<2`); compileKBBare leaves the quotes out.
func compileKB(text string) compiled     { return compileKBT("{! \"" + text + "\"}") }
func compileKBBare(text string) compiled { return compileKBT("{! " + text + "}") }

func compileKBT(template string) compiled {
	var kb *expressions.CompiledKeyBuilder
	if o := guard(func() outcome {
		k, err := kbuilder.Compile(template) // (a typed nil: do not store it in an error variable)
		if err != nil {
			return outcome{C: "err", m: err.Error()}
		}
		kb = k
		return outcome{}
	}); o.C != "" {
		return constant(o)
	}
	return func(vals []float64) outcome {
		return guard(func() outcome {
			// (src and line never change: what a result may NOT be keyed on)
			ctx := &expressions.KeyBuilderContextArray{Elements: make([]string, len(vals)), Keys: map[string]string{"src": "a.log", "line": "7"}}
			for i, v := range vals {
				s := strconv.FormatFloat(v, 'g', -1, 64)
				ctx.Elements[i] = s
				ctx.Keys[varNames[i]] = s
			}
			out := kb.BuildKey(ctx)
			if again := kb.BuildKey(ctx); again != out {
				return outcome{C: "panic", m: fmt.Sprintf("second evaluation differs: %q then %q", out, again)}
			}
			v, perr := strconv.ParseFloat(out, 64)
			if perr != nil {
				return outcome{C: "text", m: out, X: out}
			}
			o := classify(v)
			o.X = out
			return o
		})
	}
}

// compileKBTexts: a `{! ..}` template compiled once; the result evaluates it on match data given as texts
// (texts[i] is both match i and the key x, y, z, ...; any text, numeric or not)
func compileKBTexts(template string) func(texts []string) outcome {
	var kb *expressions.CompiledKeyBuilder
	if o := guard(func() outcome {
		k, err := kbuilder.Compile(template)
		if err != nil {
			return outcome{C: "err", m: err.Error()}
		}
		kb = k
		return outcome{}
	}); o.C != "" {
		return func([]string) outcome { return o }
	}
	return func(texts []string) outcome {
		return guard(func() outcome {
			ctx := &expressions.KeyBuilderContextArray{Elements: append([]string{}, texts...), Keys: map[string]string{"src": "a.log", "line": "7"}}
			for i, s := range texts {
				ctx.Keys[varNames[i]] = s
			}
			out := kb.BuildKey(ctx)
			v, perr := strconv.ParseFloat(out, 64)
			if perr != nil {
				return outcome{C: "text", m: out, X: out}
			}
			o := classify(v)
			o.X = out
			return o
		})
	}
}

// fmtG: FormatFloat(v, 'g', -1, 64) with a small cache (the same bindings are used over and over)
var fmtGCache sync.Map

func fmtG(v float64) string {
	k := math.Float64bits(v)
	if s, ok := fmtGCache.Load(k); ok {
		return s.(string)
	}
	s := strconv.FormatFloat(v, 'g', -1, 64)
	fmtGCache.Store(k, s)
	return s
}

type engine struct {
	name    string
	compile func(string) compiled
}

func (e engine) f(text string, vals []float64) outcome { return e.compile(text)(vals) }

var engines = []engine{{"std", compileStd}, {"kb", compileKB}, {"kbbare", compileKBBare}}

func render(toks []string, spaced bool) string {
	if spaced {
		return strings.Join(toks, " ")
	}
	return strings.Join(toks, "")
}

// ---------------------------------------------------------------------------- replay (B1)

type expVal struct {
	Def bool  `json:"def"`
	N   int64 `json:"n"`
	D   int64 `json:"d"`
}

type vector struct {
	G    string     `json:"g"`
	Toks []string   `json:"toks"`
	Alts [][]string `json:"alts"`
	Cls  string     `json:"cls"`
	Exp  []expVal   `json:"exp"`
}

// the bindings of MathExpr_Gen!Bindings (x, y)
var genBindings = [][]float64{{0, 3}, {-3, 0.5}, {3.5, -0.25}, {4, 0}, {2, -2}}

type mismatch struct {
	Class   string    `json:"class"`
	G       string    `json:"g"`
	Text    string    `json:"text"`
	Toks    []string  `json:"toks"`
	Engine  string    `json:"engine"`
	Binding []float64 `json:"binding"`
	Expect  string    `json:"expect"`
	Got     string    `json:"got"`
}

func (o outcome) String() string {
	switch o.C {
	case "err":
		return "compile error: " + o.m
	case "panic":
		return "PANIC " + o.m
	case "text":
		return fmt.Sprintf("%q", o.m)
	}
	return strconv.FormatFloat(o.v, 'g', -1, 64)
}

func c19Replay(args []string) error {
	fs := flag.NewFlagSet("replay", flag.ExitOnError)
	in := fs.String("in", "", "vectors (ndjson)")
	out := fs.String("out", "", "result json")
	fs.Parse(args)
	var mism []mismatch
	vectors, runs, nontrivial := 0, 0, 0
	per := map[string]int{}
	var samples []M
	add := func(m mismatch) {
		if len(mism) < 400 {
			mism = append(mism, m)
		}
	}
	err := vh.ReadNd(*in, func(raw json.RawMessage) error {
		var v vector
		if err := json.Unmarshal(raw, &v); err != nil {
			return err
		}
		vectors++
		per[v.G]++
		cls := v.Cls
		if v.G != "tok" {
			cls = "wf"
		}
		printings := [][]string{v.Toks}
		printings = append(printings, v.Alts...)
		seen := map[string]bool{}
		demands := cls == "mal"
		for _, e := range v.Exp {
			demands = demands || e.Def
		}
		if demands {
			nontrivial++
		}
		for _, toks := range printings {
			for _, spaced := range []bool{true, false} {
				if !spaced && cls != "wf" {
					continue // without blanks the characters of adjacent tokens merge (`< <`, `2 2`)
				}
				text := render(toks, spaced)
				if seen[text] {
					continue
				}
				seen[text] = true
				for _, eng := range engines {
					if eng.name != "std" && len(toks) == 0 {
						continue // `{! }` is the KeyBuilder's business (no formula reaches stdmath)
					}
					if eng.name == "kbbare" && cls != "wf" {
						continue // unquoted, the blanks that separate the tokens are lost
					}
					binds := genBindings
					if cls != "wf" {
						binds = genBindings[:1]
					}
					cf := eng.compile(text)
					for bi, b := range binds {
						o := cf(b)
						runs++
						mm := mismatch{G: v.G, Text: text, Toks: toks, Engine: eng.name, Binding: b, Got: o.String()}
						switch {
						case o.C == "panic":
							mm.Class, mm.Expect = "panic", "no crash"
							add(mm)
						case cls == "mal" && o.C != "err":
							mm.Class, mm.Expect = "accept-malformed", "rejected at compile time"
							add(mm)
						case cls == "wf" && o.C == "err":
							mm.Class, mm.Expect = "reject-wellformed", "compiles"
							add(mm)
						case cls == "wf" && bi < len(v.Exp) && v.Exp[bi].Def:
							want := float64(v.Exp[bi].N) / float64(v.Exp[bi].D)
							if !(o.C == "num" && math.Abs(o.v-want) <= 1e-4) {
								mm.Class, mm.Expect = "value", fmt.Sprintf("%d/%d", v.Exp[bi].N, v.Exp[bi].D)
								add(mm)
							}
						}
						if len(samples) < 4 && vectors%997 == 1 && bi == 1 && eng.name == "kb" {
							samples = append(samples, M{"formula": "{! " + text + "}", "binding": b, "got": o.String(), "class": cls, "expect": v.Exp})
						}
					}
				}
			}
		}
		return nil
	})
	if err != nil {
		return err
	}
	vh.WriteJSON(*out, M{"vectors": vectors, "runs": runs, "mismatches": mism, "per_group": per,
		"samples": samples, "distinct_nontrivial": nontrivial})
	return nil
}

// ---------------------------------------------------------------------------- random formulas (B2)

type node struct {
	k    string // num var un bin
	op   string
	a, b *node
	n, d int64 // num value n/d
	lit  string
	vi   int // variable index 1..8
}

var binOps = []string{"^", "<<", ">>", "*", "/", "%", "&", "|", "+", "-", "==", "=", "<=", ">=", "<", ">", "&&", "||"}
var commonOps = []string{"+", "-", "*", "+", "-", "*", "/", "<", ">=", "==", "&&", "||", "^", "%", "&", "|", "<<", ">>", "<=", ">", "="}
var prec = map[string]int{"^": 7, "<<": 6, ">>": 6, "*": 5, "/": 5, "%": 5, "&": 4, "|": 4, "+": 3, "-": 3,
	"==": 2, "=": 2, "<=": 2, ">=": 2, "<": 2, ">": 2, "&&": 1, "||": 1}
var exactFuncs = []string{"abs", "floor", "ceil", "round"}
var otherFuncs = []string{"sqrt", "sin", "asin", "cos", "acos", "tan", "atan", "exp", "exp2", "log", "log10", "log2"}
var fracLits = []struct {
	s    string
	n, d int64
}{{"0.5", 1, 2}, {"1.5", 3, 2}, {"2.5", 5, 2}, {"0.25", 1, 4}, {"0.75", 3, 4}, {"2.50", 5, 2}, {"0.1", 1, 10}}

const maxLit = 20

func spellInt(n int64, style int) string {
	switch style {
	case 1:
		return "0x" + strings.ToUpper(strconv.FormatInt(n, 16))
	case 2:
		return "0x" + strconv.FormatInt(n, 16)
	case 3:
		return "0b" + strconv.FormatInt(n, 2)
	case 4:
		return strconv.FormatInt(n, 10) + ".0"
	}
	return strconv.FormatInt(n, 10)
}

func spellVar(i int, style int) string {
	switch style {
	case 1:
		return "[" + varNames[i-1] + "]"
	case 2:
		return "[" + strconv.Itoa(i-1) + "]"
	}
	return varNames[i-1]
}

func randLit(r *rand.Rand) *node {
	if r.Intn(8) == 0 {
		f := fracLits[r.Intn(len(fracLits))]
		return &node{k: "num", n: f.n, d: f.d, lit: f.s}
	}
	n := int64(r.Intn(10))
	if r.Intn(5) == 0 {
		n = int64(r.Intn(maxLit + 1))
	}
	st := 0
	if r.Intn(3) == 0 {
		st = r.Intn(5)
	}
	return &node{k: "num", n: n, d: 1, lit: spellInt(n, st)}
}

// a random tree with about `ops` operators; vars: number of variables in use; funcs: allow functions without a value model
func randTree(r *rand.Rand, ops int, nvars int, funcs bool) *node {
	if ops <= 0 {
		if r.Intn(5) < 2 {
			return &node{k: "var", vi: 1 + r.Intn(nvars)}
		}
		return randLit(r)
	}
	if r.Intn(6) == 0 {
		op := []string{"-", "-", "!", "abs", "floor", "ceil", "round"}[r.Intn(7)]
		if funcs && r.Intn(2) == 0 {
			op = otherFuncs[r.Intn(len(otherFuncs))]
		}
		return &node{k: "un", op: op, a: randTree(r, ops-1, nvars, funcs)}
	}
	op := commonOps[r.Intn(len(commonOps))]
	l := r.Intn(ops)
	return &node{k: "bin", op: op, a: randTree(r, l, nvars, funcs), b: randTree(r, ops-1-l, nvars, funcs)}
}

func isFunc(op string) bool { return op != "-" && op != "!" }

// tokens of a tree: the parentheses the grammar needs, plus random redundant ones, implied `*`
func (t *node) toks(r *rand.Rand, varStyle func(int) int) []string {
	par := func(x []string) []string { return append(append([]string{"("}, x...), ")") }
	var out []string
	switch t.k {
	case "num":
		out = []string{t.lit}
	case "var":
		out = []string{spellVar(t.vi, varStyle(t.vi))}
	case "un":
		in := t.a.toks(r, varStyle)
		if isFunc(t.op) {
			out = append([]string{t.op}, par(in)...)
		} else {
			if t.a.k == "bin" || (t.a.k == "un" && !isFunc(t.a.op)) || (r != nil && r.Intn(6) == 0) {
				in = par(in)
			}
			out = append([]string{t.op}, in...)
		}
	case "bin":
		l, rr := t.a.toks(r, varStyle), t.b.toks(r, varStyle)
		if (t.a.k == "bin" && prec[t.a.op] < prec[t.op]) || (r != nil && r.Intn(8) == 0) {
			l = par(l)
		}
		imp := t.op == "*" && r != nil && r.Intn(4) == 0
		if imp || (t.b.k == "bin" && prec[t.b.op] <= prec[t.op]) || (r != nil && r.Intn(8) == 0) {
			rr = par(rr)
		}
		out = append(out, l...)
		if !imp {
			out = append(out, t.op)
		}
		out = append(out, rr...)
	}
	if r != nil && r.Intn(12) == 0 {
		out = par(out)
	}
	return out
}

func (t *node) leaves(acc *[]*node) {
	switch t.k {
	case "num", "var":
		*acc = append(*acc, t)
	case "un":
		t.a.leaves(acc)
	case "bin":
		t.a.leaves(acc)
		t.b.leaves(acc)
	}
}

type rat struct{ n, d int64 }

var bindPool = []rat{{0, 1}, {1, 1}, {-1, 1}, {2, 1}, {3, 1}, {-3, 1}, {1, 2}, {-1, 2}, {3, 2}, {7, 2}, {1, 4}, {-5, 4},
	{10, 1}, {7, 1}, {-2, 1}, {0, 1}, {5, 1}, {4, 1}, {100, 1}, {-7, 1}}

func c19Trace(args []string) error {
	fs := flag.NewFlagSet("trace", flag.ExitOnError)
	out := fs.String("out", "", "trace (ndjson)")
	n := fs.Int("n", 1000, "random formulas")
	nlex := fs.Int("lex", 0, "byte-damaged random formulas (records for the lexical layer, see lex.go)")
	fs.Parse(args)
	w, err := vh.NewNdWriter(*out)
	if err != nil {
		return err
	}
	defer w.Close()
	r := vh.NewRand(19)
	vals, laws, evals, binds := 0, 0, 0, 0
	for i := 0; i < *n; i++ {
		// ---- a formula of 10-30 tokens inside the value model
		nvars := 1 + r.Intn(4)
		var t *node
		var toks []string
		for {
			t = randTree(r, 3+r.Intn(8), nvars, false)
			style := r.Intn(3)
			toks = t.toks(r, func(int) int { return style })
			if len(toks) >= 10 && len(toks) <= 30 {
				break
			}
		}
		bind := make([]rat, 8)
		fb := make([]float64, 8)
		jb := make([][]int64, 8)
		for j := range bind {
			bind[j] = bindPool[r.Intn(len(bindPool))]
			fb[j] = float64(bind[j].n) / float64(bind[j].d)
			jb[j] = []int64{bind[j].n, bind[j].d}
		}
		use := toks
		if i%4 == 3 { // a damaged copy: drop, double or swap a token
			use = append([]string{}, toks...)
			p := r.Intn(len(use))
			switch r.Intn(3) {
			case 0:
				use = append(use[:p], use[p+1:]...)
			case 1:
				use = append(use[:p+1], use[p:]...)
			default:
				q := r.Intn(len(use))
				use[p], use[q] = use[q], use[p]
			}
		}
		eng := engines[i%2]
		text := render(use, true)
		if i%8 < 2 && i%4 != 3 {
			text = render(use, false)
		} else if i%8 == 5 {
			eng = engines[2]
		}
		o := eng.f(text, fb)
		evals++
		w.Write(M{"k": "val", "toks": use, "bind": jb, "eng": eng.name, "text": text, "got": o})
		vals++

		// ---- the same formula on match data where some variables read no number (MathExprBind): compiled once,
		// evaluated on the numeric row, on the row with holes, and on the numeric row again
		if i%4 == 1 {
			var badv []int
			for j := 1; j <= nvars; j++ {
				if r.Intn(3) == 0 {
					badv = append(badv, j)
				}
			}
			if len(badv) == 0 {
				badv = []int{1 + r.Intn(nvars)}
			}
			texts := make([]string, 8)
			holes := make([]string, 8)
			for j := range texts {
				texts[j] = fmtG(fb[j])
				holes[j] = texts[j]
			}
			for _, j := range badv {
				holes[j-1] = notNumbers[r.Intn(len(notNumbers))]
			}
			beng := "kb"
			tmpl := "{! \"" + render(toks, true) + "\"}"
			if i%8 == 5 {
				beng, tmpl = "kbbare", "{! "+render(toks, true)+"}"
			}
			ev := compileKBTexts(tmpl)
			first, withHoles, again := ev(texts), ev(holes), ev(texts)
			evals += 3
			w.Write(M{"k": "bind", "toks": toks, "bind": jb, "badv": []int{}, "eng": beng, "text": tmpl, "got": first})
			w.Write(M{"k": "bind", "toks": toks, "bind": jb, "badv": badv, "eng": beng, "text": tmpl, "got": withHoles})
			w.Write(M{"k": "bind", "toks": toks, "bind": jb, "badv": []int{}, "eng": beng, "text": tmpl, "got": again})
			binds += 3
		}

		// ---- constant <-> bound variable: all 2^k variants of a formula (functions of every kind)
		if i%2 == 0 {
			lt := randTree(r, 2+r.Intn(7), 4, true)
			var lv []*node
			lt.leaves(&lv)
			r.Shuffle(len(lv), func(a, b int) { lv[a], lv[b] = lv[b], lv[a] })
			if len(lv) > 4 {
				lv = lv[:4]
			}
			// bindings of x..w: spellable values (so a variable can be written as a literal), sometimes huge
			lb := make([]float64, 8)
			type sp struct{ toks []string }
			spell := make([][]string, 4)
			for j := 0; j < 4; j++ {
				switch r.Intn(6) {
				case 0:
					f := fracLits[r.Intn(len(fracLits))] // (0.1 included: not exactly representable)
					lb[j] = float64(f.n) / float64(f.d)
					spell[j] = []string{f.s}
				case 1:
					v := int64(1 + r.Intn(maxLit))
					lb[j] = -float64(v)
					spell[j] = []string{"(", "-", spellInt(v, 0), ")"}
				default:
					v := int64(r.Intn(maxLit + 1))
					lb[j] = float64(v)
					spell[j] = []string{spellInt(v, r.Intn(5))}
				}
			}
			huge := i%10 == 0
			if huge { // variables that are never rewritten may hold anything
				for j := 0; j < 4; j++ {
					used := false
					for _, lf := range lv {
						used = used || (lf.k == "var" && lf.vi == j+1)
					}
					if !used {
						lb[j] = []float64{1e18, -1e300, 1e-300, 123456789.125, -0.0}[r.Intn(5)]
					}
				}
			}
			style := r.Intn(3)
			var got []outcome
			var texts []string
			leng := engines[(i/2)%3]
			for mask := 0; mask < 1<<len(lv); mask++ {
				// flip the chosen leaves
				type saved struct{ n node }
				olds := make([]node, len(lv))
				extra := map[*node][]string{}
				for j, lf := range lv {
					olds[j] = *lf
					if mask&(1<<j) == 0 {
						continue
					}
					if lf.k == "num" { // constant -> fresh variable p,q,r,s bound to the same value
						lb[4+j] = float64(lf.n) / float64(lf.d)
						*lf = node{k: "var", vi: 5 + j}
					} else { // variable -> its value written as a constant
						extra[lf] = spell[lf.vi-1]
					}
				}
				tk := lawToks(lt, style, extra)
				for j, lf := range lv {
					*lf = olds[j]
				}
				text := render(tk, mask%2 == 0)
				o := leng.f(text, lb)
				evals++
				got = append(got, o)
				texts = append(texts, text)
			}
			w.Write(M{"k": "law", "toks": lawToks(lt, style, nil), "eng": leng.name, "texts": texts, "binding": fmtBind(lb), "got": got})
			laws++
		}
	}
	lexRecs, lexEvals := lexRecords(w, vh.NewRand(1905), *nlex)
	evals += lexEvals
	fmt.Println(string(mustJSON(M{"val": vals, "law": laws, "lex": lexRecs, "bind": binds, "evaluations": evals})))
	return nil
}

func fmtBind(b []float64) []string {
	out := make([]string, len(b))
	for i, v := range b {
		out[i] = strconv.FormatFloat(v, 'g', -1, 64)
	}
	return out
}

func mustJSON(v interface{}) []byte {
	b, err := json.Marshal(v)
	if err != nil {
		panic(err)
	}
	return b
}

// lawToks prints with minimal parentheses; leaves in `extra` are replaced by the given tokens
func lawToks(t *node, style int, extra map[*node][]string) []string {
	par := func(x []string) []string { return append(append([]string{"("}, x...), ")") }
	if e, ok := extra[t]; ok {
		return e
	}
	switch t.k {
	case "num":
		return []string{t.lit}
	case "var":
		return []string{spellVar(t.vi, style)}
	case "un":
		in := lawToks(t.a, style, extra)
		if isFunc(t.op) {
			return append([]string{t.op}, par(in)...)
		}
		_, repl := extra[t.a]
		if t.a.k == "bin" || (t.a.k == "un" && !isFunc(t.a.op)) || (repl && len(in) > 1) {
			in = par(in)
		}
		return append([]string{t.op}, in...)
	}
	l, r := lawToks(t.a, style, extra), lawToks(t.b, style, extra)
	if t.a.k == "bin" && prec[t.a.op] < prec[t.op] {
		l = par(l)
	}
	if t.b.k == "bin" && prec[t.b.op] <= prec[t.op] {
		r = par(r)
	}
	return append(append(l, t.op), r...)
}

func c19Eval(args []string) error {
	for _, f := range args {
		for _, e := range engines {
			fmt.Printf("%-4s %-30q %s\n", e.name, f, e.f(f, []float64{3, -2, 0, 0.5, 1, 2, 3, 4}))
		}
	}
	_ = os.Stdout
	return nil
}

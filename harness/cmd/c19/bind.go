package main

// c19 bind : B1 for MathExprBind.tla - how a compiled `{! ..}` formula is bound to match data.
//
// Input: the vectors of MathExprBind_Gen - formulas over x, y and a variable z the data never have, with
// what the specification says for each of 25 rows (the cells of x and y: a number or no number): the
// error marker <BAD-TYPE>, the value n/d, or no demand.  Every printing of a formula is compiled ONCE per
// engine (`{! "text"}`, `{! text}`); the compiled object is then evaluated
//   seq : along a schedule over the rows (forwards, backwards, with stride 7 - every evaluation follows
//         another one on the same object: rows with and without numbers alternate),
//   par : from 3 goroutines at once, each walking the rows with its own stride.
// A cell that is no number is written as "", a word, "1,5", "-", a blank or "1e", or is left out of the
// data altogether.  The result of every evaluation must be what the row's expectation says.

import (
	"encoding/json"
	"flag"
	"fmt"
	"math"
	"strconv"
	"sync"

	"rare/pkg/expressions"

	"verifharness/vh"
)

type bindCell struct {
	K string `json:"k"`
	N int64  `json:"n"`
	D int64  `json:"d"`
}

type bindExp struct {
	Bad  bool  `json:"bad"`
	Lazy bool  `json:"lazy"`
	Def  bool  `json:"def"`
	N    int64 `json:"n"`
	D    int64 `json:"d"`
}

type bindVector struct {
	G     string       `json:"g"`
	Rows  [][]bindCell `json:"rows"`
	Toks  []string     `json:"toks"`
	Alts  [][]string   `json:"alts"`
	Reads int          `json:"reads"`
	Exp   []bindExp    `json:"exp"`
}

var notNumbers = []string{"", "abc", "1,5", "-", " ", "1e", "3 apples"}

const badType = "<BAD-TYPE>"

// the data of one row; `variant` chooses how a cell that is no number looks (7 = left out of the data)
func rowContext(row []bindCell, variant int) *expressions.KeyBuilderContextArray {
	ctx := &expressions.KeyBuilderContextArray{Keys: map[string]string{"src": "a.log", "line": "7"}}
	for i, c := range row {
		if c.K == "num" {
			s := strconv.FormatFloat(float64(c.N)/float64(c.D), 'g', -1, 64)
			for len(ctx.Elements) < i {
				ctx.Elements = append(ctx.Elements, "")
			}
			ctx.Elements = append(ctx.Elements, s)
			ctx.Keys[varNames[i]] = s
			continue
		}
		v := (variant + i) % (len(notNumbers) + 1)
		if v == len(notNumbers) {
			continue // no such key; no such index when it is the last one
		}
		for len(ctx.Elements) < i {
			ctx.Elements = append(ctx.Elements, "")
		}
		ctx.Elements = append(ctx.Elements, notNumbers[v])
		ctx.Keys[varNames[i]] = notNumbers[v]
	}
	return ctx
}

func c19Bind(args []string) error {
	fs := flag.NewFlagSet("bind", flag.ExitOnError)
	in := fs.String("in", "", "vectors (ndjson)")
	out := fs.String("out", "", "result json")
	par := fs.Int("par", 3, "goroutines of the concurrent phase")
	fs.Parse(args)
	var rows [][]bindCell
	var mism []mismatch
	var mu sync.Mutex
	vectors, runs, nontrivial, objects := 0, 0, 0, 0
	wantBad, wantVal := 0, 0
	per := map[string]int{}
	seenMism := map[string]int{}
	var samples []M
	add := func(m mismatch) {
		mu.Lock()
		defer mu.Unlock()
		k := m.Class + "/" + m.G
		seenMism[k]++
		if seenMism[k] <= 25 && len(mism) < 400 {
			mism = append(mism, m)
		}
	}
	err := vh.ReadNd(*in, func(raw json.RawMessage) error {
		var v bindVector
		if err := json.Unmarshal(raw, &v); err != nil {
			return err
		}
		if v.G == "hdr" {
			rows = v.Rows
			return nil
		}
		if rows == nil {
			return fmt.Errorf("no header before the first vector")
		}
		vectors++
		per[v.G]++
		demanding := false
		for _, e := range v.Exp {
			if (e.Bad && !e.Lazy) || (!e.Bad && e.Def) {
				demanding = true
			}
		}
		if demanding {
			nontrivial++
		}
		printings := append([][]string{v.Toks}, v.Alts...)
		seen := map[string]bool{}
		for pi, toks := range printings {
			for ei, tmpl := range []string{"{! \"" + render(toks, true) + "\"}", "{! " + render(toks, pi%2 == 0) + "}"} {
				if seen[tmpl] {
					continue
				}
				seen[tmpl] = true
				var kb *expressions.CompiledKeyBuilder
				o := guard(func() outcome {
					k, err := kbuilder.Compile(tmpl)
					if err != nil {
						return outcome{C: "err", m: err.Error()}
					}
					kb = k
					return outcome{}
				})
				if o.C != "" {
					add(mismatch{Class: "compile", G: v.G, Text: tmpl, Toks: toks, Engine: "kb", Expect: "compiles", Got: o.String()})
					continue
				}
				objects++
				check := func(phase string, step, ri, variant int) {
					exp := v.Exp[ri]
					got := guard(func() outcome {
						s := kb.BuildKey(rowContext(rows[ri], variant))
						return outcome{C: "text", m: s, X: s}
					})
					mu.Lock()
					runs++
					if exp.Bad && !exp.Lazy {
						wantBad++
					} else if !exp.Bad && exp.Def {
						wantVal++
					}
					if len(samples) < 4 && vectors%197 == 3 && step == 5 && ei == 0 && pi == 0 {
						samples = append(samples, M{"formula": tmpl, "row": rows[ri], "got": got.m, "expect": exp})
					}
					mu.Unlock()
					mm := mismatch{G: v.G, Text: tmpl, Toks: toks, Engine: phase,
						Got: fmt.Sprintf("%q (evaluation %d of the compiled object, row %v)", got.m, step, rows[ri])}
					switch {
					case got.C == "panic":
						mm.Class, mm.Expect, mm.Got = "panic", "no crash", got.String()
						add(mm)
					case exp.Bad && !exp.Lazy && got.m != badType:
						mm.Class, mm.Expect = "missed-bad", badType+" (a variable of the formula reads no number)"
						add(mm)
					case !exp.Bad && got.m == badType:
						mm.Class, mm.Expect = "false-bad", "a number (every variable of the formula reads a number)"
						add(mm)
					case !exp.Bad && exp.Def:
						want := float64(exp.N) / float64(exp.D)
						f, perr := strconv.ParseFloat(got.m, 64)
						if perr != nil || math.Abs(f-want) > 1e-4 {
							mm.Class, mm.Expect = "value", fmt.Sprintf("%d/%d", exp.N, exp.D)
							add(mm)
						}
					}
				}
				n := len(rows)
				step := 0
				for _, order := range []func(int) int{func(i int) int { return i }, func(i int) int { return n - 1 - i }, func(i int) int { return (i * 7) % n }} {
					for i := 0; i < n; i++ {
						step++
						check("seq", step, order(i), step)
					}
				}
				if vectors%2 == 0 || v.G == "absent" {
					var wg sync.WaitGroup
					for g := 0; g < *par; g++ {
						wg.Add(1)
						go func(g int) {
							defer wg.Done()
							stride := []int{1, 6, 11, 3}[g%4]
							for i := 0; i < 2*n; i++ {
								check("par", i+1, (g*9+i*stride)%n, i+g)
							}
						}(g)
					}
					wg.Wait()
				}
			}
		}
		return nil
	})
	if err != nil {
		return err
	}
	vh.WriteJSON(*out, M{"vectors": vectors, "runs": runs, "mismatches": mism, "per_group": per, "objects": objects,
		"samples": samples, "distinct_nontrivial": nontrivial, "want_bad": wantBad, "want_value": wantVal})
	return nil
}

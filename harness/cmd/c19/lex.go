package main

// The lexical layer of C19 (MathExprLex.tla): a formula is a sequence of BYTES.
//
//   c19 lex      : B1 - replays the texts TLC enumerated with MathExprLex_Gen (every operand x every
//                  punctuation byte x position x context, every short string over six alphabets) on
//                  stdmath.Compile and, when the text can be quoted, on `{! "text"}`; the expectation
//                  (rejected at compile time / compiles and evaluates to n/d / no demand) is TLC's.
//   lexRecords() : B2 - seeded random formulas rendered to text and damaged at byte level (a byte
//                  inserted, overwritten, deleted, doubled, two bytes swapped), evaluated and recorded as
//                  {k:"lex", text, bind, eng, got} for MathExpr_Trace, which classifies the text with
//                  MathExprLex!LexClass and judges the outcome.  Written into the trace of `c19 trace`.

import (
	"encoding/json"
	"flag"
	"fmt"
	"math"
	"math/rand"
	"strings"

	"verifharness/vh"
)

type lexVector struct {
	G    string   `json:"g"`
	A    int      `json:"a"`
	Text []int    `json:"text"`
	Cls  string   `json:"cls"`
	Why  string   `json:"why"`
	Exp  []expVal `json:"exp"`
	Impl bool     `json:"impl"`
}

// a text can be handed to `{! "text"}` when the expression language's own quoting does not touch it
func quotable(text string) bool {
	return strings.TrimSpace(text) != "" && !strings.ContainsAny(text, "\"\\{}")
}

func c19Lex(args []string) error {
	fs := flag.NewFlagSet("lex", flag.ExitOnError)
	in := fs.String("in", "", "vectors (ndjson)")
	out := fs.String("out", "", "result json")
	fs.Parse(args)
	var mism []mismatch
	vectors, runs, nontrivial, valued := 0, 0, 0, 0
	implAgree, implDiffer := 0, 0
	var implDiffs []string
	per := map[string]int{}
	perClass := map[string]int{}
	var samples []M
	seenMism := map[string]int{}
	add := func(m mismatch) {
		k := m.Class + "/" + m.G
		seenMism[k]++
		if seenMism[k] <= 40 && len(mism) < 600 {
			mism = append(mism, m)
		}
	}
	err := vh.ReadNd(*in, func(raw json.RawMessage) error {
		var v lexVector
		if err := json.Unmarshal(raw, &v); err != nil {
			return err
		}
		vectors++
		per[v.G]++
		key := v.Cls
		if v.Why != "" {
			key += ":" + v.Why
		}
		perClass[key]++
		text := string(vh.FromInts(v.Text))
		demands := v.Cls == "mal"
		for _, e := range v.Exp {
			demands = demands || e.Def
		}
		if demands {
			nontrivial++
		}
		for _, eng := range engines {
			switch {
			case eng.name == "kb" && !quotable(text):
				continue
			case eng.name == "kbbare" && (v.Cls != "wf" || !quotable(text) || strings.ContainsAny(text, " ")):
				continue // unquoted, the helper drops the blanks between its arguments
			}
			binds := genBindings
			if v.Cls != "wf" {
				binds = genBindings[:1]
			}
			cf := eng.compile(text)
			for bi, b := range binds {
				o := cf(b)
				runs++
				if eng.name == "std" && bi == 0 && o.C != "panic" {
					if (o.C != "err") == v.Impl {
						implAgree++
					} else {
						implDiffer++
						if len(implDiffs) < 20 {
							implDiffs = append(implDiffs, text)
						}
					}
				}
				mm := mismatch{G: v.G, Text: text, Engine: eng.name, Binding: b, Got: o.String()}
				switch {
				case o.C == "panic":
					mm.Class, mm.Expect = "panic", "no crash"
					add(mm)
				case v.Cls == "mal" && o.C != "err":
					mm.Class, mm.Expect = "accept-malformed:"+v.Why, "rejected at compile time (malformed: "+v.Why+")"
					add(mm)
				case v.Cls == "wf" && o.C == "err":
					mm.Class, mm.Expect = "reject-wellformed", "compiles"
					add(mm)
				case v.Cls == "wf" && bi < len(v.Exp) && v.Exp[bi].Def:
					valued++
					want := float64(v.Exp[bi].N) / float64(v.Exp[bi].D)
					if !(o.C == "num" && math.Abs(o.v-want) <= 1e-4) {
						mm.Class, mm.Expect = "value", fmt.Sprintf("%d/%d", v.Exp[bi].N, v.Exp[bi].D)
						add(mm)
					}
				}
				if len(samples) < 5 && vectors%1777 == 5 && bi == 0 && eng.name == "std" {
					samples = append(samples, M{"formula": text, "class": key, "got": o.String(), "expect": v.Exp})
				}
			}
		}
		return nil
	})
	if err != nil {
		return err
	}
	vh.WriteJSON(*out, M{"vectors": vectors, "runs": runs, "mismatches": mism, "per_group": per, "per_class": perClass,
		"samples": samples, "distinct_nontrivial": nontrivial, "valued": valued,
		"impl_agree": implAgree, "impl_differ": implDiffer, "impl_diffs": implDiffs})
	return nil
}

// ---------------------------------------------------------------------------- byte damage (B2)

// the bytes a damage writes: every punctuation byte several times, the blank, some letters and digits
var damagePool = []byte("\"#$',:;?@\\_`{}~" + "\"#$',:;?@\\_`{}~" + "[][][]" + "!%&()*+-./<=>^|" + "   " + "09axFb.")

func damageBytes(r *rand.Rand, s []byte) []byte {
	out := append([]byte{}, s...)
	if len(out) == 0 {
		return out
	}
	p := r.Intn(len(out))
	switch r.Intn(6) {
	case 0, 1: // insert
		q := r.Intn(len(out) + 1)
		c := damagePool[r.Intn(len(damagePool))]
		out = append(out[:q], append([]byte{c}, out[q:]...)...)
	case 2: // overwrite
		out[p] = damagePool[r.Intn(len(damagePool))]
	case 3: // delete
		out = append(out[:p], out[p+1:]...)
	case 4: // double
		out = append(out[:p+1], out[p:]...)
	default: // swap neighbours
		if p+1 < len(out) {
			out[p], out[p+1] = out[p+1], out[p]
		}
	}
	return out
}

// lexRecords writes n records {k:"lex"}: a random formula of 3-14 tokens, every fourth as it is, the others
// with one or two damaged bytes
func lexRecords(w *vh.NdWriter, r *rand.Rand, n int) (recs, evals int) {
	for i := 0; i < n; i++ {
		nvars := 1 + r.Intn(4)
		var toks []string
		for {
			t := randTree(r, 1+r.Intn(5), nvars, false)
			style := r.Intn(3)
			toks = t.toks(r, func(int) int { return style })
			if len(toks) >= 3 && len(toks) <= 14 {
				break
			}
		}
		text := []byte(render(toks, r.Intn(3) != 0))
		if i%4 != 0 {
			text = damageBytes(r, text)
			if r.Intn(4) == 0 {
				text = damageBytes(r, text)
			}
		}
		fb := make([]float64, 8)
		jb := make([][]int64, 8)
		for j := range fb {
			b := bindPool[r.Intn(len(bindPool))]
			fb[j] = float64(b.n) / float64(b.d)
			jb[j] = []int64{b.n, b.d}
		}
		eng := engines[0]
		if i%3 == 1 && quotable(string(text)) {
			eng = engines[1]
		}
		o := eng.f(string(text), fb)
		evals++
		w.Write(M{"k": "lex", "text": vh.B(text), "shown": string(text), "bind": jb, "eng": eng.name, "got": o})
		recs++
	}
	return
}

package main

// c19 fold : B1 + B2 for the second clause of C19 ("constants equal bound variables", "the value is a
// function of the formula and the current binding only").
//
// Input: the vectors of MathExprFold_Gen - trees whose numeric literals are entries #i of a value table,
// printed in variants (redundant parentheses, constant leaves lifted into variables, variables replaced
// by the literal of the bound value), with the value TLC computed in the float64 edge arithmetic.
//
//   round 0 (B1): the table holds the model's values (k*2^1021, k*2^-1021, small dyadic numbers, signed
//        zeros; bindings also +-Inf and NaN): every variant is compiled ONCE per engine and the compiled
//        object is evaluated along the vector's schedule of bindings (repeats, neighbours that share one
//        variable), on some vectors from several goroutines at once; every result is compared with the
//        model's value.
//   rounds 1.. (B2): the table holds REAL inexact values chosen by seed (0.1, 0.7, 1/3, 1e308, the largest
//        and the smallest float64 ...).  No value is predicted; every evaluation is recorded with the
//        exact text it produced and MathExprFold_Trace decides "same leaves reached by the same values
//        => same text" over the whole history of the family (all variants, objects, goroutines).
//        Round 0 is recorded for the trace specification as well.

import (
	"encoding/json"
	"flag"
	"fmt"
	"math"
	"os"
	"runtime/pprof"
	"strconv"
	"strings"
	"sync"

	"verifharness/vh"
)

type xv struct {
	C string `json:"c"`
	S int    `json:"s"`
	N int64  `json:"n"`
	D int64  `json:"d"`
	J int    `json:"j"`
}

// the float64 the model value stands for (ok = false: outside the model)
func (v xv) float() (float64, bool) {
	sg := float64(v.S)
	switch v.C {
	case "nan":
		return math.NaN(), true
	case "inf":
		return math.Inf(v.S), true
	case "zero":
		return math.Copysign(0, sg), true
	case "fin":
		return sg * math.Ldexp(float64(v.N)/float64(v.D), 1021*v.J), true
	}
	return 0, false
}

type liftVar struct {
	S    []int    `json:"s"`
	Toks []string `json:"toks"`
}

type foldVec struct {
	G     string          `json:"g"`
	Toks  []string        `json:"toks"`
	Full  []string        `json:"full"`
	Ci    []int           `json:"ci"`
	Lifts []liftVar       `json:"lifts"`
	Sub   []string        `json:"sub"`
	Exp   []xv            `json:"exp"`
	Sched []int           `json:"sched"`
	Sens  []string        `json:"sens"`
	Tree  json.RawMessage `json:"tree"`
	Tab   []xv            `json:"tab"`
	Binds [][]xv          `json:"binds"`
}

// real values for rounds >= 1: inexact decimals, magnitudes next to overflow and underflow, exact ones
var realConsts = []float64{0.1, 0.7, 0.3, 0.2, 1.0 / 3, 3, 1e308, math.MaxFloat64, 5e-324, 2.2250738585072014e-308,
	1e-308, 0, 1, 1e16, 9007199254740993, 0.9, 1.1, 1e200, 1e-200, 123456.789, 2, 10, 0.6, 1e-5, 4.35, 1.7e308, 100, 0.57}

func spellF(v float64) string { return strconv.FormatFloat(v, 'f', -1, 64) }

func bitsID(ids map[uint64]int, v float64) int {
	b := math.Float64bits(v)
	if math.IsNaN(v) {
		b = 0x7ff8000000000001
	}
	if id, ok := ids[b]; ok {
		return id
	}
	ids[b] = len(ids) + 1
	return ids[b]
}

// one variant of a family: a token string and how its variables beyond x, y are bound
type variant struct {
	kind string // base full lift sub
	toks []string
	s    []int // lifted ordinals
	b    int   // sub: the binding the text was written for (1-based)
}

func renderFold(toks []string, tab []float64, bind []float64, spaced bool) (string, bool) {
	var out []string
	for _, t := range toks {
		switch {
		case strings.HasPrefix(t, "#"):
			i, _ := strconv.Atoi(t[1:])
			out = append(out, spellF(tab[i-1]))
		case strings.HasPrefix(t, "$"):
			i, _ := strconv.Atoi(t[1:])
			w := bind[i-1]
			if math.IsNaN(w) || math.IsInf(w, 0) {
				return "", false
			}
			if math.Signbit(w) {
				out = append(out, "-", spellF(-w))
			} else {
				out = append(out, spellF(w))
			}
		default:
			out = append(out, t)
		}
	}
	return render(out, spaced), true
}

type foldMismatch struct {
	Class   string   `json:"class"`
	G       string   `json:"g"`
	Text    string   `json:"text"`
	Variant string   `json:"variant"`
	Engine  string   `json:"engine"`
	Binding []string `json:"binding"`
	History []int    `json:"history"`
	Expect  string   `json:"expect"`
	Got     string   `json:"got"`
	Sens    []string `json:"sens"`
}

func sameValue(got outcome, want float64) bool {
	switch got.C {
	case "num", "big", "nan", "pinf", "ninf":
	default:
		return false
	}
	if math.IsNaN(want) {
		return math.IsNaN(got.v)
	}
	return got.v == want // (+0 and -0 are the same number; the sign of zero is left to the law)
}

// what one vector contributes
type vecResult struct {
	fams                      []M
	mism                      []foldMismatch
	runs, inModel, concurrent int
	sample                    M
}

func c19Fold(args []string) error {
	fs := flag.NewFlagSet("fold", flag.ExitOnError)
	in := fs.String("in", "", "vectors of MathExprFold_Gen (ndjson)")
	out := fs.String("out", "", "result json")
	trace := fs.String("trace", "", "families for MathExprFold_Trace (ndjson)")
	rounds := fs.Int("rounds", 1, "assignments of real values per vector")
	nsub := fs.Int("subs", 3, "bindings per vector whose values are written into the formula as literals")
	par := fs.Int("par", 4, "vectors processed at a time")
	prof := fs.String("cpuprofile", "", "write a CPU profile (debugging)")
	fs.Parse(args)
	if *prof != "" {
		pf, _ := os.Create(*prof)
		pprof.StartCPUProfile(pf)
		defer pprof.StopCPUProfile()
	}
	w, err := vh.NewNdWriter(*trace)
	if err != nil {
		return err
	}
	defer w.Close()
	var tabX []xv
	var bindsX [][]xv
	var vecs []foldVec
	per := map[string]int{}
	sens := map[string]int{}
	err = vh.ReadNd(*in, func(raw json.RawMessage) error {
		var v foldVec
		if err := json.Unmarshal(raw, &v); err != nil {
			return err
		}
		if v.G == "header" {
			tabX, bindsX = v.Tab, v.Binds
			return nil
		}
		vecs = append(vecs, v)
		per[v.G]++
		for _, s := range v.Sens {
			sens[s]++
		}
		return nil
	})
	if err != nil {
		return err
	}
	if tabX == nil {
		return fmt.Errorf("no header vector")
	}
	results := make([]vecResult, len(vecs))
	var wg sync.WaitGroup
	next := make(chan int, 64)
	for k := 0; k < *par; k++ {
		wg.Add(1)
		go func() {
			defer wg.Done()
			for i := range next {
				results[i] = foldVector(i+1, &vecs[i], tabX, bindsX, *rounds, *nsub)
			}
		}()
	}
	for i := range vecs {
		next <- i
	}
	close(next)
	wg.Wait()
	var mism []foldMismatch
	var samples []M
	runs, families, inModel, concurrent := 0, 0, 0, 0
	for _, r := range results {
		for _, f := range r.fams {
			w.Write(f)
			families++
		}
		for _, m := range r.mism {
			if len(mism) < 300 {
				mism = append(mism, m)
			}
		}
		runs += r.runs
		inModel += r.inModel
		concurrent += r.concurrent
		if r.sample != nil && len(samples) < 3 {
			samples = append(samples, r.sample)
		}
	}
	vh.WriteJSON(*out, M{"vectors": len(vecs), "runs": runs, "families": families, "in_model": inModel, "concurrent_objects": concurrent,
		"mismatches": mism, "per_group": per, "sens": sens, "samples": samples})
	return nil
}

func foldVector(vectors int, v *foldVec, tabX []xv, bindsX [][]xv, rounds, nsub int) (res vecResult) {
	rnd := vh.NewRand(1919 + 7919*int64(vectors))
	add := func(m foldMismatch) {
		if len(res.mism) < 20 {
			res.mism = append(res.mism, m)
		}
	}
	nb := len(bindsX)
	for round := 0; round <= rounds; round++ {
		// ---- the values of this round
		tab := make([]float64, len(tabX))
		binds := make([][]float64, nb)
		if round == 0 {
			for i, x := range tabX {
				tab[i], _ = x.float()
			}
			for b := range bindsX {
				binds[b] = make([]float64, 8)
				for j, x := range bindsX[b] {
					binds[b][j], _ = x.float()
				}
			}
		} else {
			for i := range tab {
				tab[i] = realConsts[rnd.Intn(len(realConsts))]
			}
			// bindings keep the pattern of the model's (1, 2 share x; 1, 3 share y ...)
			xs := make(map[string]float64)
			pick := func(key string) float64 {
				if f, ok := xs[key]; ok {
					return f
				}
				f := realConsts[rnd.Intn(len(realConsts))]
				switch rnd.Intn(12) {
				case 0, 1, 2:
					f = -f
				case 3:
					f = []float64{math.Inf(1), math.Inf(-1), math.NaN(), math.Copysign(0, -1)}[rnd.Intn(4)]
				}
				xs[key] = f
				return f
			}
			for b := range bindsX {
				binds[b] = make([]float64, 8)
				for j, x := range bindsX[b] {
					kb, _ := json.Marshal(x)
					binds[b][j] = pick(fmt.Sprint(j) + string(kb))
				}
			}
		}
		ids := map[uint64]int{}
		cid := make([]int, len(tab))
		for i, f := range tab {
			cid[i] = bitsID(ids, f)
		}
		bid := make([][]int, nb)
		for b := range binds {
			bid[b] = []int{bitsID(ids, binds[b][0]), bitsID(ids, binds[b][1])}
		}
		// lifted variables: ordinal k -> variable number 2+k, bound to the value of entry ci[k]
		for b := range binds {
			for k, ci := range v.Ci {
				if 2+k < 8 {
					binds[b][2+k] = tab[ci-1]
				}
			}
		}
		// ---- the variants
		variants := []variant{{kind: "base", toks: v.Toks}, {kind: "full", toks: v.Full}}
		for _, l := range v.Lifts {
			// (round 0, where every result is predicted, takes only the variant with all constants lifted)
			if round > 0 || len(l.S) == len(v.Ci) {
				variants = append(variants, variant{kind: "lift", toks: l.Toks, s: l.S})
			}
		}
		if len(v.Sub) > 0 {
			ns := nsub
			if round == 0 {
				ns = 1
			}
			for k := 0; k < ns && k < nb; k++ {
				variants = append(variants, variant{kind: "sub", toks: v.Sub, b: 1 + (vectors*3+round+k*7)%nb})
			}
		}
		sched := v.Sched
		short := sched
		if len(short) > 8 {
			short = short[:8]
		}
		goroutines := vectors%4 == 0
		outsIdx := map[string]int{}
		outs := []string{}
		evs := [][]int{}
		var vs []M
		npanic, nerr := 0, 0
		obj := 0
		for vi, va := range variants {
			vs = append(vs, M{"kind": va.kind, "s": append([]int{}, va.s...), "b": va.b})
			var engs []int
			switch {
			case va.kind == "base" && round == 0:
				engs = []int{0, 1 + (vectors+round)%2}
			default:
				engs = []int{(vectors + vi + round) % 3}
			}
			for _, ei := range engs {
				eng := engines[ei]
				var bindForText []float64
				if va.kind == "sub" {
					bindForText = binds[va.b-1]
				}
				text, ok := renderFold(va.toks, tab, bindForText, (vi+ei)%2 == 0)
				if !ok {
					continue
				}
				cf := eng.compile(text)
				obj++
				order := sched
				if va.kind == "sub" { // no variable is left: the value may not depend on the binding
					order = []int{va.b, sched[(vi+1)%len(sched)]}
				} else if va.kind != "base" {
					order = short
					if round > 0 {
						order = short[:4]
					}
				}
				record := func(g, seq, b int, o outcome) {
					x := o.X
					switch o.C {
					case "panic":
						x = "PANIC " + o.m
					case "err":
						x = "ERR " + o.m
					}
					oi, ok := outsIdx[x]
					if !ok {
						outs = append(outs, x)
						oi = len(outs)
						outsIdx[x] = oi
					}
					evs = append(evs, []int{vi + 1, ei + 1, obj, g, seq, b, oi})
				}
				judge := func(b int, hist []int, o outcome) {
					res.runs++
					eb := b
					if va.kind == "sub" {
						eb = va.b
					}
					report := func(class, expect string) {
						add(foldMismatch{G: v.G, Text: text, Variant: va.kind, Engine: eng.name, History: append([]int{}, hist...),
							Binding: fmtBind(binds[b-1][:2]), Got: o.String(), Sens: v.Sens, Class: class, Expect: expect})
					}
					switch {
					case o.C == "panic":
						npanic++
						report("panic", "no crash")
					case o.C == "err":
						nerr++
						report("reject-wellformed", "compiles")
					case round == 0:
						if want, ok := v.Exp[eb-1].float(); ok {
							res.inModel++
							if !sameValue(o, want) {
								report("value", strconv.FormatFloat(want, 'g', -1, 64))
							}
						}
					}
				}
				for seq, b := range order {
					o := cf(binds[b-1])
					judge(b, order[:seq+1], o)
					record(0, seq+1, b, o)
				}
				if goroutines && va.kind == "base" {
					// the same compiled object from three goroutines at once, each on its own rotation of the schedule
					res.concurrent++
					const G = 3
					got := make([][]outcome, G)
					var wg sync.WaitGroup
					for g := 0; g < G; g++ {
						wg.Add(1)
						go func(g int) {
							defer wg.Done()
							for rep := 0; rep < 2; rep++ {
								for k := range short {
									got[g] = append(got[g], cf(binds[short[(k+3*g)%len(short)]-1]))
								}
							}
						}(g)
					}
					wg.Wait()
					for g := 0; g < G; g++ {
						for k, o := range got[g] {
							b := short[(k%len(short)+3*g)%len(short)]
							judge(b, []int{-g - 1, k}, o)
							record(g+1, k+1, b, o)
						}
					}
				}
			}
		}
		if round == 0 && len(v.Sens) > 0 && vectors%211 == 0 {
			t, _ := renderFold(v.Toks, tab, nil, true)
			res.sample = M{"formula": "{! " + t + "}", "sens": v.Sens, "variants": len(variants), "exp": v.Exp[0]}
		}
		if round == 0 && vectors%3 != 0 && npanic == 0 && nerr == 0 {
			continue // (a third of the predicted rounds is also judged by the trace specification)
		}
		res.fams = append(res.fams, M{"k": "fam", "g": v.G, "round": round, "toks": v.Toks, "tree": v.Tree, "ci": append([]int{}, v.Ci...),
			"cid": cid, "bid": bid, "vs": vs, "outs": outs, "ev": evs, "npanic": npanic, "nerr": nerr,
			"tabv": fmtBind(tab), "bindv": func() [][]string {
				r := make([][]string, nb)
				for b := range binds {
					r[b] = fmtBind(binds[b][:2])
				}
				return r
			}()})
	}
	return res
}

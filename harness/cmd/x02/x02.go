// Command x02 is the conformance driver of LogDefer.tla (pkg/logger: DeferLogs / ImmediateLogs, beyond the
// listed properties).  The package writes to os.Stderr as it is when the logger is (re)set, so the driver points
// os.Stderr at a scratch file, makes the package rebind (DeferLogs; ImmediateLogs) and then reads what arrived.
//
//	x02 replay -in vectors.ndjson -out result.json              (B1: TLC-enumerated call sequences of one goroutine)
//	x02 random -n K -trace trace.ndjson -out result.json        (B2: seeded concurrent histories for LogDefer_Trace)
package main

import (
	"bytes"
	"encoding/json"
	"flag"
	"fmt"
	"os"
	"path/filepath"
	"regexp"
	"runtime"
	"strconv"
	"sync"
	"sync/atomic"
	"time"

	"rare/pkg/logger"
	"verifharness/vh"
)

func main() {
	vh.Main(vh.Commands{"replay": replay, "random": random})
}

var realStderr = os.Stderr

// sinkFile is the file standing in for the terminal's stderr during one execution.
type sinkFile struct {
	path string
	f    *os.File
}

func newSink(dir string, n int) (*sinkFile, error) {
	p := filepath.Join(dir, fmt.Sprintf("stderr-%d.txt", n))
	f, err := os.OpenFile(p, os.O_CREATE|os.O_TRUNC|os.O_WRONLY|os.O_APPEND, 0o644)
	if err != nil {
		return nil, err
	}
	os.Stderr = f
	// rebind the package logger to the new os.Stderr (resetLogger runs only when a buffer exists)
	logger.DeferLogs()
	logger.ImmediateLogs()
	return &sinkFile{path: p, f: f}, nil
}

func (s *sinkFile) close() {
	os.Stderr = realStderr
	s.f.Close()
	os.Remove(s.path)
}

var lineRe = regexp.MustCompile(`^\[Log\] w(\d+) k(\d+) [a-z]*$`)

// lines parses the sink: the <<w, k>> of every complete well-formed line, and the number of other pieces.
func (s *sinkFile) lines() (out [][]int, junk int, raw []byte) {
	raw, _ = os.ReadFile(s.path)
	out = [][]int{}
	if len(raw) == 0 {
		return
	}
	body := raw
	if body[len(body)-1] == '\n' {
		body = body[:len(body)-1]
	} else {
		junk++
	}
	for _, ln := range bytes.Split(body, []byte("\n")) {
		m := lineRe.FindSubmatch(ln)
		if m == nil {
			junk++
			continue
		}
		w, _ := strconv.Atoi(string(m[1]))
		k, _ := strconv.Atoi(string(m[2]))
		out = append(out, []int{w, k})
	}
	return
}

func (s *sinkFile) has(w, k int) bool {
	raw, _ := os.ReadFile(s.path)
	return bytes.Contains(raw, []byte(fmt.Sprintf("[Log] w%d k%d ", w, k)))
}

// emit prints line k of printer w through one of the package's printing functions.
func emit(w, k, how int) {
	switch how % 3 {
	case 0:
		logger.Println(fmt.Sprintf("w%d k%d println", w, k))
	case 1:
		logger.Printf("w%d k%d %s", w, k, "printf")
	default:
		logger.Print("w", w, " k", k, " print") // operands are not both strings: no spaces added
	}
}

// ------------------------------------------------------------------ B1
type vector struct {
	Ops  []string  `json:"ops"`
	Errs [][][]int `json:"errs"`
	Held int       `json:"held"`
}

func eqLines(a, b [][]int) bool {
	if len(a) != len(b) {
		return false
	}
	for i := range a {
		if len(a[i]) != 2 || len(b[i]) != 2 || a[i][0] != b[i][0] || a[i][1] != b[i][1] {
			return false
		}
	}
	return true
}

func replay(args []string) error {
	fs := flag.NewFlagSet("replay", flag.ExitOnError)
	in := fs.String("in", "", "vectors")
	out := fs.String("out", "", "result")
	fs.Parse(args)
	dir, err := os.MkdirTemp("", "x02-")
	if err != nil {
		return err
	}
	defer os.RemoveAll(dir)
	type mismatch struct {
		Ops  []string `json:"ops"`
		Step int      `json:"step"`
		Want [][]int  `json:"want"`
		Got  [][]int  `json:"got"`
		Junk int      `json:"junk"`
		Why  string   `json:"why"`
	}
	var mm []mismatch
	runs, steps := 0, 0
	err = vh.ReadNd(*in, func(raw json.RawMessage) error {
		var v vector
		if e := json.Unmarshal(raw, &v); e != nil {
			return e
		}
		runs++
		s, e := newSink(dir, runs)
		if e != nil {
			return e
		}
		n := map[int]int{}
		for i, o := range v.Ops {
			switch o {
			case "P1", "P2":
				w := int(o[1] - '0')
				n[w]++
				emit(w, n[w], runs+i)
			case "D":
				logger.DeferLogs()
			case "I":
				logger.ImmediateLogs()
			}
			steps++
			got, junk, _ := s.lines()
			want := v.Errs[i]
			if want == nil {
				want = [][]int{}
			}
			if junk != 0 || !eqLines(got, want) {
				why := "stderr"
				if junk != 0 {
					why = "torn"
				} else if len(got) < len(want) {
					why = "stderr:missing"
				} else if len(got) > len(want) {
					why = "stderr:early"
				}
				mm = append(mm, mismatch{Ops: v.Ops, Step: i + 1, Want: want, Got: got, Junk: junk, Why: why})
				break
			}
		}
		// leave the package in immediate mode with nothing held, whatever the sequence was
		logger.ImmediateLogs()
		s.close()
		return nil
	})
	if err != nil {
		return err
	}
	vh.WriteJSON(*out, map[string]interface{}{"runs": runs, "steps": steps, "mismatches": mm})
	return nil
}

// ------------------------------------------------------------------ B2
type call struct {
	Op  string `json:"op"`
	W   int    `json:"w"`
	K   int    `json:"k"`
	S   int64  `json:"s"`
	E   int64  `json:"e"`
	Vis bool   `json:"vis"`
}

type record struct {
	T    int      `json:"t"`
	H    []call   `json:"h"`
	Err  [][]int  `json:"err"`
	Junk int      `json:"junk"`
	Cfg  []string `json:"cfg"`
}

func random(args []string) error {
	fs := flag.NewFlagSet("random", flag.ExitOnError)
	n := fs.Int("n", 100, "executions")
	out := fs.String("out", "", "result")
	trace := fs.String("trace", "", "trace")
	fs.Parse(args)
	dir, err := os.MkdirTemp("", "x02-")
	if err != nil {
		return err
	}
	defer os.RemoveAll(dir)
	tw, err := vh.NewNdWriter(*trace)
	if err != nil {
		return err
	}
	defer tw.Close()
	rnd := vh.NewRand(202)
	calls := 0
	for t := 1; t <= *n; t++ {
		s, e := newSink(dir, t)
		if e != nil {
			return e
		}
		W := 1 + rnd.Intn(4)
		K := 1 + rnd.Intn(10)
		// the controller's script: pairs / runs of D and I, the last call is I
		var script []string
		for c := rnd.Intn(4); c > 0; c-- {
			switch rnd.Intn(5) {
			case 0:
				script = append(script, "D", "D", "I")
			case 1:
				script = append(script, "I")
			case 2:
				script = append(script, "D", "I", "I")
			default:
				script = append(script, "D", "I")
			}
		}
		script = append(script, "I")
		pace := []int{0, 0, 20, 200}[rnd.Intn(4)] // microseconds between calls
		var stamp int64
		var mu sync.Mutex
		var h []call
		add := func(c call) {
			mu.Lock()
			h = append(h, c)
			mu.Unlock()
		}
		var wg sync.WaitGroup
		seeds := make([]int64, W+1)
		for i := range seeds {
			seeds[i] = rnd.Int63()
		}
		for w := 1; w <= W; w++ {
			wg.Add(1)
			go func(w int) {
				defer wg.Done()
				r := vh.NewRand(seeds[w])
				for k := 1; k <= K; k++ {
					if pace > 0 {
						time.Sleep(time.Duration(r.Intn(pace+1)) * time.Microsecond)
					} else if r.Intn(3) == 0 {
						runtime.Gosched()
					}
					c := call{Op: "P", W: w, K: k}
					c.S = atomic.AddInt64(&stamp, 1)
					emit(w, k, r.Intn(3))
					c.Vis = s.has(w, k)
					c.E = atomic.AddInt64(&stamp, 1)
					add(c)
				}
			}(w)
		}
		wg.Add(1)
		go func() {
			defer wg.Done()
			r := vh.NewRand(seeds[0])
			for i, o := range script {
				if i < len(script)-1 {
					if pace > 0 {
						time.Sleep(time.Duration(r.Intn(3*pace+1)) * time.Microsecond)
					} else {
						for g := r.Intn(4); g > 0; g-- {
							runtime.Gosched()
						}
					}
				}
				c := call{Op: o, W: 0, K: i + 1}
				c.S = atomic.AddInt64(&stamp, 1)
				if o == "D" {
					logger.DeferLogs()
				} else {
					logger.ImmediateLogs()
				}
				c.E = atomic.AddInt64(&stamp, 1)
				add(c)
			}
		}()
		// the last ImmediateLogs of the script may come before some printers are done: wait for them, then
		// make the closing call the specification's histories end with
		wg.Wait()
		c := call{Op: "I", W: 0, K: len(script) + 1}
		c.S = atomic.AddInt64(&stamp, 1)
		logger.ImmediateLogs()
		c.E = atomic.AddInt64(&stamp, 1)
		h = append(h, c)
		calls += len(h)
		lines, junk, _ := s.lines()
		tw.Write(record{T: t, H: h, Err: lines, Junk: junk,
			Cfg: []string{fmt.Sprintf("W=%d K=%d pace=%dus", W, K, pace), fmt.Sprint(script)}})
		s.close()
	}
	vh.WriteJSON(*out, map[string]interface{}{"runs": *n, "calls": calls})
	return nil
}

package main

// linetext: B1 replay of LineText.tla.  Every TLC-enumerated source (a byte string with its lines according to the
// specification) is pushed through the REAL reading path - batchers (reader path with several chunkings and batch
// sizes, file path) + extractor with the default matcher - and, for a part of them, through the binary; what the
// consumer receives (Match.Line, Match.LineNumber, {0}) must be the specification's lines, byte for byte.

import (
	"bytes"
	"encoding/json"
	"flag"
	"fmt"
	"io"
	"os"
	"os/exec"
	"path/filepath"
	"testing/iotest"

	"rare/pkg/extractor"
	"rare/pkg/extractor/batchers"
	"rare/pkg/matchers"
	"verifharness/vh"
)

func init() { extraCommands["linetext"] = cmdLineText }

type ltVec struct {
	S     []int   `json:"s"`
	Lines [][]int `json:"lines"`
}

type ltGot struct {
	No   int
	Line []byte
	Ex   []byte
}

func ltRun(b *batchers.Batcher, workers int) ([]ltGot, error) {
	ex, err := extractor.New(b.BatchChan(), &extractor.Config{Matcher: &matchers.AlwaysMatch{}, Extract: "x{0}", Workers: workers})
	if err != nil {
		return nil, err
	}
	var got []ltGot
	for batch := range ex.ReadChan() {
		for _, m := range batch {
			got = append(got, ltGot{No: int(m.LineNumber), Line: append([]byte{}, m.Line...), Ex: []byte(m.Extracted)})
		}
	}
	return got, nil
}

func ltCompare(got []ltGot, want [][]byte) string {
	if len(got) != len(want) {
		return fmt.Sprintf("count: %d lines delivered, the specification has %d", len(got), len(want))
	}
	for i, g := range got {
		switch {
		case g.No != i+1:
			return fmt.Sprintf("lineno: %d-th line delivered carries number %d", i+1, g.No)
		case !bytes.Equal(g.Line, want[i]):
			return fmt.Sprintf("text: line %d is %q, the specification says %q", i+1, g.Line, want[i])
		case !bytes.Equal(g.Ex, append([]byte("x"), want[i]...)):
			return fmt.Sprintf("captures: {0} of line %d is %q, the specification says %q", i+1, g.Ex[1:], want[i])
		}
	}
	return ""
}

func cmdLineText(args []string) error {
	fs := flag.NewFlagSet("linetext", flag.ExitOnError)
	in := fs.String("in", "", "vectors")
	out := fs.String("out", "", "result")
	rare := fs.String("rare", "", "binary (optional)")
	cliEvery := fs.Int("clievery", 20, "every n-th vector also through the binary")
	fs.Parse(args)
	dir, err := os.MkdirTemp("", "c02lt-")
	if err != nil {
		return err
	}
	defer os.RemoveAll(dir)
	var mm []vh.M
	runs, vecs, cli := 0, 0, 0
	note := func(v ltVec, how, why string) {
		if len(mm) < 200 {
			mm = append(mm, vh.M{"s": v.S, "how": how, "why": why})
		}
	}
	err = vh.ReadNd(*in, func(raw json.RawMessage) error {
		var v ltVec
		if e := json.Unmarshal(raw, &v); e != nil {
			return e
		}
		vecs++
		src := vh.FromInts(v.S)
		want := make([][]byte, len(v.Lines))
		for i, l := range v.Lines {
			want[i] = vh.FromInts(l)
		}
		for _, batch := range []int{1, 2, 1000} {
			for _, chunk := range []string{"whole", "byte", "half"} {
				var r io.Reader = bytes.NewReader(src)
				switch chunk {
				case "byte":
					r = iotest.OneByteReader(r)
				case "half":
					r = iotest.HalfReader(r)
				}
				got, e := ltRun(batchers.OpenReaderToChan("src", io.NopCloser(r), batch, 2), 1)
				if e != nil {
					return e
				}
				runs++
				if why := ltCompare(got, want); why != "" {
					note(v, fmt.Sprintf("reader batch=%d chunks=%s", batch, chunk), why)
				}
			}
		}
		p := filepath.Join(dir, "src.log")
		if e := os.WriteFile(p, src, 0o644); e != nil {
			return e
		}
		got, e := ltRun(batchers.OpenFilesToChan(ltNames(p), false, 1, 3, 2), 1)
		if e != nil {
			return e
		}
		runs++
		if why := ltCompare(got, want); why != "" {
			note(v, "file batch=3", why)
		}
		if *rare != "" && vecs%*cliEvery == 0 {
			var so bytes.Buffer
			cmd := exec.Command(*rare, "--nocolor", "filter", "-e", "x{0}", "--workers", "1", p)
			cmd.Stdout = &so
			cmd.Run()
			cli++
			var exp bytes.Buffer
			for _, w := range want {
				exp.WriteString("x")
				exp.Write(w)
				exp.WriteString("\n")
			}
			if !bytes.Equal(so.Bytes(), exp.Bytes()) {
				note(v, "rare filter -e x{0}", fmt.Sprintf("text: stdout %q, the specification's lines give %q", so.Bytes(), exp.Bytes()))
			}
		}
		return nil
	})
	if err != nil {
		return err
	}
	vh.WriteJSON(*out, vh.M{"vectors": vecs, "runs": runs, "cli": cli, "mismatches": mm})
	return nil
}

func ltNames(p string) <-chan string {
	c := make(chan string, 1)
	c <- p
	close(c)
	return c
}

package main

// C02 - each match carries its true source, line number, text and capture groups.
//
//	c02 trace      seeded scenarios on the REAL pipeline (batchers + extractor) with a LATE consumer:
//	               every Match is kept until the channel is drained, then Line / Indices are re-read and
//	               logged next to the copies taken at receive time, the true text of the claimed
//	               (source, line number) and the reference indices of Go's regexp (B2, Captures_Trace.tla)
//	c02 cli        the real `rare [--color|--nocolor] filter [-l] [-e tpl]` binary on generated corpora (B2)
//	c02 wrap       the real color.WrapIndices on random (text, groups), colour enabled (B2)
//	c02 replay     TLC-generated (line, index vector, name table, template) vectors fed to the real extractor
//	               through a scripted matcher; Match.Extracted must be the specification's value (B1)
//	c02 wrapreplay TLC-generated (text, groups, spans) vectors on the real color.WrapIndices (B1)

import (
	"bytes"
	"encoding/json"
	"flag"
	"fmt"
	"math/rand"
	"os"
	"os/exec"
	"path/filepath"
	"regexp"
	"sort"
	"strconv"
	"strings"
	"sync"
	"time"

	"rare/pkg/color"
	"rare/pkg/extractor"
	"rare/pkg/extractor/batchers"
	"rare/pkg/matchers"
	"rare/pkg/matchers/dissect"
	"rare/pkg/matchers/fastregex"

	"verifharness/pipe"
	"verifharness/vh"
)

// extraCommands: sub-commands registered by the other files of this driver (init functions)
var extraCommands = vh.Commands{}

func main() {
	cmds := vh.Commands{"trace": cmdTrace, "cli": cmdCLI, "wrap": cmdWrap, "replay": cmdReplay, "wrapreplay": cmdWrapReplay}
	for k, f := range extraCommands {
		cmds[k] = f
	}
	vh.Main(cmds)
}

// ------------------------------------------------------------------ templates (Captures!Eval)

type part struct {
	K string `json:"k"` // lit | idx | key
	V []int  `json:"v"`
	I int    `json:"i"`
}

func lit(s string) part { return part{K: "lit", V: vh.BS(s)} }
func num(i int) part    { return part{K: "idx", V: []int{}, I: i} }
func key(s string) part { return part{K: "key", V: vh.BS(s)} }

// render writes the template in rare's expression syntax (literals are plain separators)
func render(tpl []part) string {
	var sb strings.Builder
	for _, p := range tpl {
		switch p.K {
		case "lit":
			sb.Write(vh.FromInts(p.V))
		case "idx":
			fmt.Fprintf(&sb, "{%d}", p.I)
		case "key":
			sb.WriteString("{" + string(vh.FromInts(p.V)) + "}")
		}
	}
	return sb.String()
}

// ------------------------------------------------------------------ matcher profiles

type profile struct {
	Kind  string // regex | dissect | always
	Expr  string
	IC    bool
	Posix bool
	Tpls  [][]part
	gen   func(rng *rand.Rand) string // payload of a line (after the tag)
	ascii bool
	AST   vh.M // the expression as a CapturesRegex.tla tree (nil: outside the modelled subset)
	NG    int  // capture groups of AST
}

// ---- regular expression trees for spec/CapturesRegex.tla (every node carries all five fields)
func nd(op string, a, b interface{}, k int, set []int) vh.M {
	if a == nil {
		a = []int{}
	}
	if b == nil {
		b = []int{}
	}
	if set == nil {
		set = []int{}
	}
	return vh.M{"op": op, "a": a, "b": b, "k": k, "set": set}
}
func rCls(set string) vh.M    { return nd("cls", nil, nil, 0, vh.BS(set)) }
func rAlt(a, b vh.M) vh.M     { return nd("alt", a, b, 0, nil) }
func rOpt(a vh.M) vh.M        { return nd("opt", a, nil, 0, nil) }
func rStar(a vh.M) vh.M       { return nd("star", a, nil, 0, nil) }
func rPlus(a vh.M) vh.M       { return nd("plus", a, nil, 0, nil) }
func rGrp(k int, a vh.M) vh.M { return nd("grp", a, nil, k, nil) }
func rCat(xs ...vh.M) vh.M {
	if len(xs) == 1 {
		return xs[0]
	}
	return nd("cat", xs[0], rCat(xs[1:]...), 0, nil)
}
func rLit(s string) vh.M {
	var xs []vh.M
	for i := 0; i < len(s); i++ {
		xs = append(xs, rCls(s[i:i+1]))
	}
	return rCat(xs...)
}

const (
	setD = "0123456789"
	setU = "ABCDEFGHIJKLMNOPQRSTUVWXYZ"
	setW = setD + setU + "abcdefghijklmnopqrstuvwxyz_"
)

func (p *profile) build() (matchers.Factory, error) {
	switch p.Kind {
	case "always":
		return &matchers.AlwaysMatch{}, nil
	case "regex": // as cmd/helpers.BuildMatcherFromArguments
		e := p.Expr
		if p.IC {
			e = "(?i)" + e
		}
		r, err := fastregex.CompileEx(e, p.Posix)
		if err != nil {
			return nil, err
		}
		return matchers.ToFactory(r), nil
	case "dissect":
		d, err := dissect.CompileEx(p.Expr, p.IC)
		if err != nil {
			return nil, err
		}
		return matchers.ToFactory(d), nil
	}
	return nil, fmt.Errorf("kind %q", p.Kind)
}

// reference: Go's standard regexp, used directly (not through fastregex)
func (p *profile) reference() (*regexp.Regexp, error) {
	if p.Kind != "regex" {
		return nil, nil
	}
	e := p.Expr
	if p.IC {
		e = "(?i)" + e
	}
	if p.Posix {
		return regexp.CompilePOSIX(e)
	}
	return regexp.Compile(e)
}

func (p *profile) cliArgs() []string {
	var a []string
	switch p.Kind {
	case "regex":
		a = append(a, "-m", p.Expr)
	case "dissect":
		a = append(a, "-d", p.Expr)
	}
	if p.IC && p.Kind != "always" {
		a = append(a, "-I")
	}
	if p.Posix {
		a = append(a, "-p")
	}
	return a
}

// refNames is the reference name table of a regex matcher: Go's regexp.SubexpNames() read directly
// (not the implementation's SubexpNameTable), as [[name bytes], group number] sorted by number.
// For dissect and the default matcher the specification computes the table itself.
func refNames(ref *regexp.Regexp) []interface{} {
	out := []interface{}{}
	if ref == nil {
		return out
	}
	for i, n := range ref.SubexpNames() {
		if n != "" {
			out = append(out, []interface{}{vh.BS(n), i})
		}
	}
	return out
}

var verbs = []string{"GET", "POST", "PUT", "get", "Post", "HEAD", "x", "GETTER"}
var paths = []string{"/", "/a", "/a/b", "/idx/9/zz", "/A_1", "", "//", "/a b"}

func pickS(rng *rand.Rand, xs []string) string { return xs[rng.Intn(len(xs))] }

func genHTTP(rng *rand.Rand) string {
	switch r := rng.Intn(20); {
	case r < 12:
		return fmt.Sprintf("%s %s %d", pickS(rng, verbs), pickS(rng, paths), 100+rng.Intn(500))
	case r < 14:
		return fmt.Sprintf("%s %d", pickS(rng, verbs), rng.Intn(1000))
	case r < 16:
		return fmt.Sprintf("%s %d %s", pickS(rng, verbs), rng.Intn(1000), pickS(rng, verbs))
	case r < 17:
		return "-- no match here --"
	case r < 18:
		return pickS(rng, verbs)
	case r < 19:
		return fmt.Sprintf("\t%s  %s\t%d ", pickS(rng, verbs), pickS(rng, paths), rng.Intn(9))
	default:
		b := make([]byte, 1+rng.Intn(12))
		for i := range b {
			b[i] = byte(128 + rng.Intn(128))
		}
		return "GET /" + string(b) + " 7"
	}
}

func genASCII(rng *rand.Rand) string {
	for {
		s := genHTTP(rng)
		ok := true
		for i := 0; i < len(s); i++ {
			if s[i] >= 128 {
				ok = false
			}
		}
		if ok {
			return s
		}
	}
}

// genRuns: delimiters that begin with a repeated character ("  [", "==>") next to runs of that character, so that the
// first occurrence of a delimiter overlaps a failed partial occurrence one byte earlier
func genRuns(rng *rand.Rand) string {
	lvl := pickS(rng, []string{"WARN", "info", "Err", "", "x "})
	if rng.Intn(12) == 0 {
		return lvl + " [w1] a=>b"
	}
	return lvl + strings.Repeat(" ", 2+rng.Intn(3)) + "[" + pickS(rng, []string{"w1", "W 2", "", "[t]"}) + "] " +
		pickS(rng, []string{"a", "", "k=v", "= ="}) + strings.Repeat("=", 2+rng.Intn(3)) + ">" + pickS(rng, []string{"retry", "", "=>x", " ==> y"})
}

func genGreedy(rng *rand.Rand) string {
	const al = "GETab "
	b := make([]byte, rng.Intn(10))
	for i := range b {
		b[i] = al[rng.Intn(len(al))]
	}
	return string(b)
}

const sep = "|"

func join(ps ...part) []part {
	var out []part
	for i, p := range ps {
		if i > 0 {
			out = append(out, lit(sep))
		}
		out = append(out, p)
	}
	return append(out, lit(sep))
}

var profiles = []*profile{
	// optional trailing group, out-of-range and negative group numbers
	{Kind: "regex", Expr: `(\w+) (\d+)(?: (\w+))?`, gen: genHTTP, NG: 3,
		AST:  rCat(rGrp(1, rPlus(rCls(setW))), rCls(" "), rGrp(2, rPlus(rCls(setD))), rOpt(rCat(rCls(" "), rGrp(3, rPlus(rCls(setW)))))),
		Tpls: [][]part{join(num(0), num(1), num(2), num(3), num(4), num(-1), key("@")), join(key("src"), key("line"), num(1)), {num(3), lit(":"), num(2), lit(":")}}},
	// named, nested, alternated groups; a group inside a repetition; an unknown name
	{Kind: "regex", Expr: `(?P<verb>GET|POST|(?P<other>[A-Z]+)) (?P<path>/(\w+)?(/\w+)*)`, gen: genHTTP, NG: 5,
		AST: rCat(rGrp(1, rAlt(rLit("GET"), rAlt(rLit("POST"), rGrp(2, rPlus(rCls(setU)))))), rCls(" "),
			rGrp(3, rCat(rCls("/"), rOpt(rGrp(4, rPlus(rCls(setW)))), rStar(rGrp(5, rCat(rCls("/"), rPlus(rCls(setW)))))))),
		Tpls: [][]part{join(key("verb"), key("other"), key("path"), num(4), num(5), key("nope"), key("@")), join(num(0), key("path"), key("src"), key("line")), join(key("other"), num(2), num(6))}},
	// -I
	{Kind: "regex", Expr: `(get|post) (?P<p>/\S*)? ?(?P<n>\d+)`, IC: true, gen: genHTTP,
		Tpls: [][]part{join(num(1), key("p"), key("n"), num(2), num(3), key("@")), join(key("line"), num(0))}},
	// -p: leftmost-longest
	{Kind: "regex", Expr: `(G|GE|GET)(T?)(a*|ab)(b*)`, Posix: true, gen: genGreedy,
		Tpls: [][]part{join(num(0), num(1), num(2), num(3), num(4), key("@"))}},
	// the same expression with perl semantics (leftmost-first)
	{Kind: "regex", Expr: `(G|GE|GET)(T?)(a*|ab)(b*)`, gen: genGreedy, NG: 4,
		AST: rCat(rGrp(1, rAlt(rLit("G"), rAlt(rLit("GE"), rLit("GET")))), rGrp(2, rOpt(rCls("T"))),
			rGrp(3, rAlt(rStar(rCls("a")), rLit("ab"))), rGrp(4, rStar(rCls("b")))),
		Tpls: [][]part{join(num(0), num(1), num(2), num(3), num(4), key("@"))}},
	// an expression that can match the empty string (empty {0})
	{Kind: "regex", Expr: `(?P<d>\d*)`, gen: genHTTP, NG: 1, AST: rGrp(1, rStar(rCls(setD))),
		Tpls: [][]part{join(num(0), key("d"), key("@")), {num(1)}}},
	// dissect: pooled index slices
	{Kind: "dissect", Expr: `%{tag} %{verb} %{?skip} %{code}`, gen: genASCII, ascii: true,
		Tpls: [][]part{join(num(0), key("tag"), key("verb"), key("code"), key("skip"), num(3), num(4), key("@")), join(key("src"), key("line"), num(2))}},
	{Kind: "dissect", Expr: `n%{n} get %{path} %{}`, IC: true, gen: genASCII, ascii: true,
		Tpls: [][]part{join(num(0), key("n"), key("path"), num(1), num(2), num(3), key("@"))}},
	// delimiters with a repeated first character, case-sensitive and -I (the two search loops must find the FIRST occurrence)
	{Kind: "dissect", Expr: `%{lvl}  [%{thr}] %{a}==>%{b}`, gen: genRuns, ascii: true,
		Tpls: [][]part{join(num(0), key("lvl"), key("thr"), key("a"), key("b"), key("@"))}},
	{Kind: "dissect", Expr: `%{lvl}  [%{thr}] %{a}==>%{b}`, IC: true, gen: genRuns, ascii: true,
		Tpls: [][]part{join(num(0), key("lvl"), key("thr"), key("a"), key("b"), key("@"))}},
	{Kind: "dissect", Expr: `%{all}`, gen: genASCII, ascii: true,
		Tpls: [][]part{join(key("all"), num(0), num(1))}},
	// the default matcher
	{Kind: "always", gen: genHTTP,
		Tpls: [][]part{join(num(0), num(1), key("@"), key("src"), key("line")), {num(0)}}},
}

// ------------------------------------------------------------------ scenarios

type scenario struct {
	ID      int
	Mode    string // files | hook | reader
	P       *profile
	PI      int
	Tpl     []part
	Sources []pipe.Source
	Batch   int
	Workers int
	Readers int
	Buffer  int
	FlushMs int
	Delay   time.Duration // consumer delay per received batch
}

func (s *scenario) ordered() bool { return s.Workers == 1 && (s.Readers == 1 || len(s.Sources) == 1) }

type genOpts struct {
	mode     string
	lines    int  // lines per source (0 = small random)
	nfiles   int  // 0 = random
	long     bool // a few lines longer than the 128 KiB read buffer
	profile  int  // -1 = random
	ordered  bool
	maxLines int
	aligned  bool // regular file whose lines end exactly on multiples of the 128 KiB read buffer size
}

func tagLine(f, n int, payload string) []byte { return []byte(fmt.Sprintf("f%dn%d %s", f, n, payload)) }

func genScenario(seed int64, id int, dir string, o genOpts) (*scenario, error) {
	rng := rand.New(rand.NewSource(seed*1000003 + int64(id)*7919 + 17))
	pi := o.profile
	if pi < 0 {
		pi = rng.Intn(len(profiles))
	}
	p := profiles[pi]
	s := &scenario{ID: id, P: p, PI: pi, Tpl: p.Tpls[rng.Intn(len(p.Tpls))]}
	s.Batch = []int{1, 2, 3, 5, 17, 100, 1000}[rng.Intn(7)]
	s.Workers = []int{1, 1, 2, 3, 8}[rng.Intn(5)]
	s.Readers = []int{1, 2, 3, 5}[rng.Intn(4)]
	s.Buffer = []int{1, 2, 1000}[rng.Intn(3)]
	if o.ordered {
		s.Workers, s.Readers = 1, 1
	}
	s.Mode = o.mode
	if s.Mode == "" {
		s.Mode = []string{"files", "files", "hook"}[rng.Intn(3)]
	}
	if rng.Intn(4) == 0 {
		s.Delay = time.Duration(100+rng.Intn(900)) * time.Microsecond
	}
	nfiles := 1
	if s.Mode == "files" {
		nfiles = 1 + rng.Intn(4)
		if o.nfiles > 0 {
			nfiles = o.nfiles
		}
	}
	maxLines := o.maxLines
	if maxLines == 0 {
		maxLines = 60
	}
	for f := 0; f < nfiles; f++ {
		n := rng.Intn(maxLines + 1)
		if o.lines > 0 {
			n = o.lines
		}
		lines := make([][]byte, n)
		for i := range lines {
			switch r := rng.Intn(40); {
			case r == 0:
				lines[i] = []byte{} // empty line (no tag)
			case r == 1:
				lines[i] = []byte("  ")
			default:
				lines[i] = tagLine(f+1, i+1, p.gen(rng))
			}
		}
		if o.long && n > 0 {
			for k := 0; k < 2; k++ {
				i := rng.Intn(n)
				fill := 128*1024 - 40 + rng.Intn(80)
				if k == 1 {
					fill = 140*1024 + rng.Intn(100*1024)
				}
				// the long filler comes after the fields, so the captures stay short for most matchers
				lines[i] = append(tagLine(f+1, i+1, p.gen(rng)+" "), bytes.Repeat([]byte{'z'}, fill)...)
			}
		}
		co := pipe.ContentOpts{NoFinalNL: rng.Intn(3) == 0}
		if rng.Intn(4) == 0 {
			co.CRLF = []float64{0.3, 1}[rng.Intn(2)]
		}
		if o.aligned {
			// stretch the line that reaches a multiple of the buffer size so that it ends exactly there:
			// the buffer is then full AND completely consumed when the scanner has to make room
			co = pipe.ContentOpts{}
			const bufSize = 128 * 1024
			off, next := 0, bufSize
			for i := range lines {
				if off+len(lines[i])+1 >= next-64 && off+len(lines[i])+1 <= next && len(lines[i]) > 0 {
					want := next - off - 1
					if want > len(lines[i]) {
						lines[i] = append(append(lines[i], ' '), bytes.Repeat([]byte{'z'}, want-len(lines[i])-1)...)
					}
					next += bufSize
				} else if off+len(lines[i])+1 > next {
					next += bufSize
				}
				off += len(lines[i]) + 1
			}
		}
		src := pipe.Source{Lines: lines}
		src.Raw = pipe.BuildRaw(rng, lines, co)
		switch s.Mode {
		case "files":
			src.Name = filepath.Join(dir, fmt.Sprintf("s%d-f%d.log", id, f+1))
			if rng.Intn(2) == 0 && o.lines == 0 {
				src.FIFO = true
				co.MaxChunks, co.MaxDelayMs, co.DelayFraction = 1+rng.Intn(8), 3, 0.3
				src.Chunks = pipe.RandomChunks(rng, len(src.Raw), co)
				if err := pipe.MakeFIFO(src.Name); err != nil {
					return nil, err
				}
			} else if err := os.WriteFile(src.Name, src.Raw, 0o600); err != nil {
				return nil, err
			}
		case "hook":
			src.Name = "<stdin>"
			s.FlushMs = 2 + rng.Intn(3)
			co.MaxChunks, co.MaxDelayMs, co.DelayFraction = 2+rng.Intn(12), 14, 0.6
			src.Chunks = pipe.RandomChunks(rng, len(src.Raw), co)
			for i := range src.Chunks { // pauses well above the flush interval
				if src.Chunks[i].DelayMs > 0 && src.Chunks[i].DelayMs < 3*s.FlushMs {
					src.Chunks[i].DelayMs = 3 * s.FlushMs
				}
			}
		case "reader":
			src.Name = "<stdin>"
			co.MaxChunks = 3
			src.Chunks = pipe.RandomChunks(rng, len(src.Raw), co)
			for i := range src.Chunks {
				if i > 0 {
					src.Chunks[i].DelayMs = 320
				}
			}
		}
		s.Sources = append(s.Sources, src)
	}
	return s, nil
}

func cleanup(s *scenario) {
	for _, src := range s.Sources {
		if strings.HasPrefix(src.Name, "/") {
			os.Remove(src.Name)
		}
	}
}

func b2i(b bool) int {
	if b {
		return 1
	}
	return 0
}

func nonNil(a []int) []int {
	if a == nil {
		return []int{}
	}
	return a
}

// astMax: runs with more lines use Go's regexp as the reference even for expressions of the modelled subset
var astMax = 3000

func header(s *scenario, event string, ref *regexp.Regexp) vh.M {
	srcs := make([][]int, len(s.Sources))
	for i := range s.Sources {
		srcs[i] = vh.BS(s.Sources[i].Name)
	}
	pat := []int{}
	if s.P.Kind == "dissect" {
		pat = vh.BS(s.P.Expr)
	}
	ast, nlines := nd("none", nil, nil, 0, nil), 0
	for i := range s.Sources {
		nlines += len(s.Sources[i].Lines)
	}
	if s.P.AST != nil && nlines <= astMax { // TLC computes the leftmost match itself (lines up to 64 bytes)
		ast = s.P.AST
	}
	return vh.M{"event": event, "t": s.ID, "mode": s.Mode, "kind": s.P.Kind, "ast": ast, "ng": s.P.NG, "pat": pat, "ic": b2i(s.P.IC), "posix": b2i(s.P.Posix),
		"expr": s.P.Expr, "names": refNames(ref), "tpl": s.Tpl, "srcs": srcs, "ordered": b2i(s.ordered()),
		"batch": s.Batch, "workers": s.Workers, "readers": s.Readers, "buf": s.Buffer}
}

type held struct {
	m     extractor.Match
	line0 []byte
	idx0  []int
}

type outcome struct {
	Hung      bool
	Matches   int
	Lines     int
	TimerCuts int
	Batches   int
	LongLines int
}

// run executes one scenario on the real pipeline with the late consumer and writes its records.
func run(s *scenario, log *pipe.EventLog, deadline time.Duration) (*outcome, error) {
	fac, err := s.P.build()
	if err != nil {
		return nil, err
	}
	ref, err := s.P.reference()
	if err != nil {
		return nil, err
	}
	log.Write(header(s, "reset", ref))
	srcIndex := map[string]int{}
	where := map[string][2]int{} // content -> (f, n) when unique
	out := &outcome{}
	for i := range s.Sources {
		srcIndex[s.Sources[i].Name] = i + 1
		for n, l := range s.Sources[i].Lines {
			out.Lines++
			if len(l) > 128*1024 {
				out.LongLines++
			}
			if _, dup := where[string(l)]; dup {
				where[string(l)] = [2]int{0, 0}
			} else {
				where[string(l)] = [2]int{i + 1, n + 1}
			}
		}
	}

	abort := make(chan struct{})
	var batcher *batchers.Batcher
	switch s.Mode {
	case "files":
		names := make(chan string, len(s.Sources))
		for i := range s.Sources {
			names <- s.Sources[i].Name
			if s.Sources[i].FIFO {
				go pipe.FeedFIFO(&s.Sources[i], abort)
			}
		}
		close(names)
		batcher = batchers.OpenFilesToChan(names, false, s.Readers, s.Batch, s.Buffer)
	case "reader":
		batcher = batchers.OpenReaderToChan(s.Sources[0].Name, pipe.NewScriptedReader(&s.Sources[0]), s.Batch, s.Buffer)
	case "hook":
		batcher = batchers.VerifOpenReaderToChan(s.Sources[0].Name, pipe.NewScriptedReader(&s.Sources[0]), s.Batch, s.Buffer,
			time.Duration(s.FlushMs)*time.Millisecond)
	default:
		return nil, fmt.Errorf("mode %q", s.Mode)
	}
	var bmu sync.Mutex
	perSrc := map[int][]int{}
	fwd := pipe.Forward(batcher.BatchChan(), func(b extractor.InputBatch) {
		f := srcIndex[b.Source]
		bmu.Lock()
		perSrc[f] = append(perSrc[f], len(b.Batch))
		out.Batches++
		bmu.Unlock()
		log.Write(vh.M{"event": "batch", "f": f, "start": int(b.BatchStart), "n": len(b.Batch)})
	})
	ex, err := extractor.New(fwd, &extractor.Config{Matcher: fac, Extract: render(s.Tpl), Workers: s.Workers})
	if err != nil {
		return nil, err
	}
	// ---- the late consumer: keeps every Match (no copy of what it refers to) until the channel is closed
	var keep []held
	done := make(chan struct{})
	go func() {
		defer close(done)
		for ms := range ex.ReadChan() {
			if s.Delay > 0 {
				time.Sleep(s.Delay)
			}
			for _, m := range ms {
				keep = append(keep, held{m: m, line0: []byte(m.Line), idx0: append([]int{}, m.Indices...)})
			}
		}
	}()
	select {
	case <-done:
	case <-time.After(deadline):
		close(abort)
		out.Hung = true
		log.Write(vh.M{"event": "hang"})
		return out, nil
	}
	// everything has been scanned and matched; now look at the matches again
	for _, h := range keep {
		m := h.m
		f := srcIndex[m.Source]
		truth, inr := []byte{}, 0
		if f > 0 && m.LineNumber >= 1 && int(m.LineNumber) <= len(s.Sources[f-1].Lines) {
			truth, inr = s.Sources[f-1].Lines[m.LineNumber-1], 1
		}
		w := where[string(h.line0)]
		rec := vh.M{"event": "m", "f": f, "no": int(m.LineNumber), "inr": inr, "truth": vh.B(truth), "tf": w[0], "tn": w[1],
			"line0": vh.B(h.line0), "idx0": nonNil(h.idx0), "ex": vh.BS(m.Extracted),
			"line": vh.BS(m.Line), "idx": nonNil(append([]int{}, m.Indices...)), "ref": []int{}}
		if ref != nil {
			rec["ref"] = nonNil(ref.FindSubmatchIndex(append([]byte{}, truth...)))
		}
		log.Write(rec)
	}
	log.Write(vh.M{"event": "end", "read": int(ex.ReadLines()), "matched": int(ex.MatchedLines())})
	out.Matches = len(keep)
	for f, b := range perSrc {
		_ = f
		for i, n := range b {
			if n < s.Batch && i < len(b)-1 {
				out.TimerCuts++
			}
		}
	}
	return out, nil
}

type stats struct {
	Scenarios   int            `json:"scenarios"`
	Lines       int            `json:"lines"`
	Matches     int            `json:"matches"`
	Modes       map[string]int `json:"modes"`
	Kinds       map[string]int `json:"kinds"`
	TimerCuts   int            `json:"timer_cuts"`
	TimerScen   int            `json:"scenarios_with_timer_cut"`
	LongLines   int            `json:"long_lines"`
	Late10k     int            `json:"matches_held_over_10k_lines"`
	MultiWorker int            `json:"multi_worker"`
	Ordered     int            `json:"ordered"`
	Hung        []int          `json:"hung"`
	Samples     []interface{}  `json:"samples"`
}

func describe(s *scenario) vh.M {
	n := 0
	for _, src := range s.Sources {
		n += len(src.Lines)
	}
	return vh.M{"id": s.ID, "mode": s.Mode, "kind": s.P.Kind, "expr": s.P.Expr, "icase": s.P.IC, "posix": s.P.Posix, "extract": render(s.Tpl),
		"batch": s.Batch, "workers": s.Workers, "readers": s.Readers, "buffer": s.Buffer, "files": len(s.Sources), "lines": n}
}

func runScenario(seed int64, id int, dir string, o genOpts, log *pipe.EventLog, st *stats, note func(string)) error {
	for attempt := 0; attempt < 2; attempt++ {
		s, err := genScenario(seed, id, dir, o)
		if err != nil {
			return err
		}
		note(fmt.Sprintf("scenario %d seed %d attempt %d %v", id, seed, attempt, describe(s)))
		var out *outcome
		if attempt == 0 {
			out, err = run(s, log, 90*time.Second)
		} else {
			tmp, e2 := pipe.NewEventLog(filepath.Join(dir, "retry.ndjson"))
			if e2 != nil {
				return e2
			}
			out, err = run(s, tmp, 150*time.Second)
			tmp.Close()
		}
		cleanup(s)
		if err != nil {
			return err
		}
		if out.Hung {
			continue
		}
		if attempt > 0 {
			return fmt.Errorf("scenario %d hung once and passed on retry (machine overloaded?)", id)
		}
		st.Scenarios++
		st.Lines += out.Lines
		st.Matches += out.Matches
		st.Modes[s.Mode]++
		st.Kinds[s.P.Kind]++
		st.TimerCuts += out.TimerCuts
		if out.TimerCuts > 0 {
			st.TimerScen++
		}
		st.LongLines += out.LongLines
		if out.Lines >= 11000 {
			st.Late10k += out.Matches * (out.Lines - 10000) / out.Lines
		}
		if s.Workers > 1 {
			st.MultiWorker++
		}
		if s.ordered() {
			st.Ordered++
		}
		if len(st.Samples) < 3 {
			st.Samples = append(st.Samples, describe(s))
		}
		return nil
	}
	st.Hung = append(st.Hung, id)
	st.Scenarios++
	return nil
}

func cmdTrace(args []string) error {
	fs := flag.NewFlagSet("trace", flag.ExitOnError)
	outp := fs.String("out", "trace.ndjson", "")
	resp := fs.String("result", "trace-result.json", "")
	dir := fs.String("dir", ".", "")
	n := fs.Int("n", 100, "small random scenarios")
	big := fs.Int("big", 2, "scenarios of -biglines lines per source (late consumer over > 10^4 lines)")
	bigLines := fs.Int("biglines", 12500, "")
	long := fs.Int("long", 2, "scenarios with lines longer than the read buffer")
	slow := fs.Int("slow", 1, "scenarios through OpenReaderToChan with the real 250 ms flush timer")
	first := fs.Int("first", 1, "")
	fs.IntVar(&astMax, "astmax", astMax, "largest run (lines) whose regex reference is computed by TLC")
	fs.Parse(args)
	log, err := pipe.NewEventLog(*outp)
	if err != nil {
		return err
	}
	defer log.Close()
	st := &stats{Modes: map[string]int{}, Kinds: map[string]int{}}
	note := func(s string) { os.WriteFile(filepath.Join(*dir, "current.txt"), []byte(s+"\n"), 0o644) }
	seed := vh.Seed()
	id := *first
	// big ones first: dissect (pool refilled every 1024 results), regex, the default matcher
	bigProfiles := []int{6, 0, 9, 7, 1, 8, 2}
	for i := 0; i < *big; i++ {
		o := genOpts{mode: "files", lines: *bigLines, nfiles: 1, profile: bigProfiles[i%len(bigProfiles)], aligned: i%2 == 0}
		if i%3 == 2 {
			o.mode, o.nfiles = "hook", 0
		}
		if err := runScenario(seed, id, *dir, o, log, st, note); err != nil {
			return err
		}
		id++
	}
	for i := 0; i < *long; i++ {
		if err := runScenario(seed, id, *dir, genOpts{long: true, maxLines: 14, profile: []int{0, 6, 1, 9}[i%4]}, log, st, note); err != nil {
			return err
		}
		id++
	}
	for i := 0; i < *slow; i++ {
		if err := runScenario(seed, id, *dir, genOpts{mode: "reader", maxLines: 10, profile: -1}, log, st, note); err != nil {
			return err
		}
		id++
	}
	for i := 0; i < *n; i++ {
		o := genOpts{profile: i % len(profiles)}
		if i%4 == 0 {
			o.ordered = true
		}
		if i%3 == 1 {
			o.mode = "hook"
		}
		if i%20 == 19 {
			o.maxLines = 1500
		}
		if err := runScenario(seed, id, *dir, o, log, st, note); err != nil {
			return err
		}
		id++
	}
	vh.WriteJSON(*resp, st)
	return nil
}

// ------------------------------------------------------------------ CLI

func cmdCLI(args []string) error {
	fs := flag.NewFlagSet("cli", flag.ExitOnError)
	rare := fs.String("rare", "", "")
	outp := fs.String("out", "cli.ndjson", "")
	resp := fs.String("result", "cli-result.json", "")
	dir := fs.String("dir", ".", "")
	n := fs.Int("n", 24, "")
	first := fs.Int("first", 200001, "")
	fs.Parse(args)
	log, err := pipe.NewEventLog(*outp)
	if err != nil {
		return err
	}
	defer log.Close()
	seed := vh.Seed()
	res := struct {
		Runs    int            `json:"runs"`
		Rows    int            `json:"rows"`
		Modes   map[string]int `json:"modes"`
		Hung    int            `json:"hung"`
		Samples []interface{}  `json:"samples"`
	}{Modes: map[string]int{}}
	for i := 0; i < *n; i++ {
		id := *first + i
		rng := rand.New(rand.NewSource(seed*7000003 + int64(id)))
		o := genOpts{mode: "files", maxLines: 50, profile: i % len(profiles), ordered: i%3 != 2}
		s, err := genScenario(seed, id, *dir, o)
		if err != nil {
			return err
		}
		for k := range s.Sources { // plain files only; keep ESC out (never generated) and long lines out
			if s.Sources[k].FIFO {
				os.Remove(s.Sources[k].Name)
				s.Sources[k].FIFO = false
				if err := os.WriteFile(s.Sources[k].Name, s.Sources[k].Raw, 0o600); err != nil {
					return err
				}
			}
		}
		stdin := i%6 == 5
		if stdin {
			for len(s.Sources) > 1 {
				os.Remove(s.Sources[len(s.Sources)-1].Name)
				s.Sources = s.Sources[:len(s.Sources)-1]
			}
		}
		mode := []string{"extract", "default", "default", "extract"}[i%4]
		withL := rng.Intn(2) == 0
		colour := i%4 == 1 || i%4 == 2 || rng.Intn(3) == 0
		if _, err := s.P.build(); err != nil {
			return err
		}
		ref, err := s.P.reference()
		if err != nil {
			return err
		}
		argv := []string{}
		if colour {
			argv = append(argv, "--color")
		} else {
			argv = append(argv, "--nocolor")
		}
		argv = append(argv, "--noformat", "filter", "--batch", strconv.Itoa(s.Batch), "--workers", strconv.Itoa(s.Workers),
			"--readers", strconv.Itoa(s.Readers), "--batch-buffer", strconv.Itoa(s.Buffer))
		argv = append(argv, s.P.cliArgs()...)
		if mode == "extract" {
			argv = append(argv, "-e", render(s.Tpl))
		}
		if withL {
			argv = append(argv, "-l")
		}
		cmd := exec.Command(*rare)
		if stdin {
			argv = append(argv, "-")
			src := s.Sources[0]
			os.Remove(src.Name)
			s.Sources[0].Name = "<stdin>"
			sr := &pipe.Source{Name: "<stdin>", Raw: src.Raw}
			if len(src.Raw) > 2 && i%12 == 5 { // one pause above the real 250 ms flush interval
				k := len(src.Raw) / 2
				sr.Chunks = []pipe.Chunk{{N: k}, {N: len(src.Raw) - k, DelayMs: 320}}
			}
			cmd.Stdin = pipe.NewScriptedReader(sr)
		} else {
			for k := range s.Sources {
				argv = append(argv, s.Sources[k].Name)
			}
		}
		cmd.Args = append([]string{*rare}, argv...)
		var so, se bytes.Buffer
		cmd.Stdout, cmd.Stderr = &so, &se
		if err := cmd.Start(); err != nil {
			return err
		}
		done := make(chan error, 1)
		go func() { done <- cmd.Wait() }()
		select {
		case <-done:
		case <-time.After(90 * time.Second):
			cmd.Process.Kill()
			cleanup(s)
			res.Hung++
			continue // a hang of the binary is C01/C05's business; not recorded here
		}
		cleanup(s)
		h := header(s, "cli", ref)
		h["mode"], h["l"], h["color"] = mode, b2i(withL), b2i(colour)
		h["argv"] = argv
		files := make([][]vh.M, len(s.Sources))
		for f := range s.Sources {
			files[f] = make([]vh.M, len(s.Sources[f].Lines))
			for k, l := range s.Sources[f].Lines {
				r := []int{}
				if ref != nil {
					r = nonNil(ref.FindSubmatchIndex(append([]byte{}, l...)))
				}
				files[f][k] = vh.M{"text": vh.B(l), "ref": r}
			}
		}
		h["files"] = files
		rows := [][]int{}
		outs := so.Bytes()
		if len(outs) > 0 {
			if outs[len(outs)-1] == '\n' {
				outs = outs[:len(outs)-1]
			}
			for _, r := range bytes.Split(outs, []byte{'\n'}) {
				rows = append(rows, vh.B(r))
			}
		}
		h["out"] = rows
		log.Write(h)
		res.Runs++
		res.Rows += len(rows)
		res.Modes[fmt.Sprintf("%s l=%v colour=%v", mode, withL, colour)]++
		if len(res.Samples) < 2 {
			res.Samples = append(res.Samples, vh.M{"argv": argv, "rows": len(rows)})
		}
	}
	vh.WriteJSON(*resp, res)
	return nil
}

// ------------------------------------------------------------------ colouriser

func randGroups(rng *rand.Rand, n int) []int {
	k := rng.Intn(5)
	g := []int{}
	switch rng.Intn(4) {
	case 0: // anything in range
		for i := 0; i < 2*k; i++ {
			g = append(g, rng.Intn(n+2)-1)
		}
	case 1: // ordered, touching or separated groups
		p := 0
		for i := 0; i < k && p <= n; i++ {
			a := p + rng.Intn(2)
			if a > n {
				a = n
			}
			b := a + rng.Intn(3)
			if b > n {
				b = n
			}
			g = append(g, a, b)
			p = b
		}
	case 2: // nested: outer then inner (like regex groups), absent groups
		a := rng.Intn(n + 1)
		b := a + rng.Intn(n-a+1)
		g = append(g, a, b)
		for i := 0; i < k; i++ {
			if rng.Intn(3) == 0 {
				g = append(g, -1, -1)
				continue
			}
			c := a + rng.Intn(b-a+1)
			d := c + rng.Intn(b-c+1)
			g = append(g, c, d)
		}
	default: // many groups: colours wrap around after twelve
		for i := 0; i < 14 && i < n; i++ {
			g = append(g, i, i+1)
		}
	}
	return g
}

func cmdWrap(args []string) error {
	fs := flag.NewFlagSet("wrap", flag.ExitOnError)
	outp := fs.String("out", "wrap.ndjson", "")
	n := fs.Int("n", 2000, "")
	first := fs.Int("first", 300001, "")
	fs.Parse(args)
	log, err := pipe.NewEventLog(*outp)
	if err != nil {
		return err
	}
	defer log.Close()
	color.Enabled = true
	rng := vh.NewRand(4242)
	const al = "abm[;0139 \xc3\xa9"
	for i := 0; i < *n; i++ {
		ln := rng.Intn(18)
		b := make([]byte, ln)
		for k := range b {
			b[k] = al[rng.Intn(len(al))]
		}
		g := randGroups(rng, ln)
		got := color.WrapIndices(string(b), g)
		log.Write(vh.M{"event": "wrap", "t": *first + i, "s": vh.B(b), "g": nonNil(g), "got": vh.BS(got)})
	}
	return nil
}

// parseAnsi reads decorated text back: plain text and the spans between a colour code and the next reset
func parseAnsi(t string) (plain []byte, spans [][]int, ok bool) {
	open := -1
	spans = [][]int{}
	for i := 0; i < len(t); {
		if t[i] != 0x1b {
			plain = append(plain, t[i])
			i++
			continue
		}
		m := strings.IndexByte(t[i:], 'm')
		if m < 0 || i+1 >= len(t) || t[i+1] != '[' {
			return plain, spans, false
		}
		code := t[i : i+m+1]
		if code == "\x1b[0m" {
			if open < 0 {
				return plain, spans, false
			}
			spans = append(spans, []int{open, len(plain)})
			open = -1
		} else {
			if open >= 0 {
				return plain, spans, false
			}
			open = len(plain)
		}
		i += m + 1
	}
	return plain, spans, open < 0
}

func cmdWrapReplay(args []string) error {
	fs := flag.NewFlagSet("wrapreplay", flag.ExitOnError)
	in := fs.String("in", "", "")
	outp := fs.String("out", "wrapreplay.json", "")
	fs.Parse(args)
	color.Enabled = true
	type vec struct {
		S     []int   `json:"s"`
		G     []int   `json:"g"`
		Spans [][]int `json:"spans"`
	}
	type mismatch struct {
		Kind   string      `json:"kind"`
		Vector vec         `json:"vector"`
		Got    interface{} `json:"got"`
	}
	res := struct {
		Runs       int        `json:"runs"`
		Nontrivial int        `json:"distinct_nontrivial"`
		Mismatches []mismatch `json:"mismatches"`
		Samples    []vec      `json:"samples"`
	}{Mismatches: []mismatch{}}
	err := vh.ReadNd(*in, func(raw json.RawMessage) error {
		var v vec
		if err := json.Unmarshal(raw, &v); err != nil {
			return err
		}
		res.Runs++
		if len(v.Spans) >= 2 {
			res.Nontrivial++
			if len(res.Samples) < 2 {
				res.Samples = append(res.Samples, v)
			}
		}
		s := string(vh.FromInts(v.S))
		got := color.WrapIndices(s, v.G)
		plain, spans, ok := parseAnsi(got)
		switch {
		case !ok:
			res.Mismatches = append(res.Mismatches, mismatch{"codes", v, vh.BS(got)})
		case string(plain) != s:
			res.Mismatches = append(res.Mismatches, mismatch{"strip", v, vh.BS(got)})
		default:
			same := len(spans) == len(v.Spans)
			for i := 0; same && i < len(spans); i++ {
				same = vh.EqInts(spans[i], v.Spans[i])
			}
			if !same {
				res.Mismatches = append(res.Mismatches, mismatch{"spans", v, vh.BS(got)})
			}
		}
		return nil
	})
	if err != nil {
		return err
	}
	vh.WriteJSON(*outp, res)
	return nil
}

// ------------------------------------------------------------------ B1: capture vectors on the real extractor

type capVec struct {
	Line  []int           `json:"line"`
	Idx   []int           `json:"idx"`
	Setup int             `json:"setup"`
	Names [][]interface{} `json:"names"`
	Tpl   []part          `json:"tpl"`
	Src   []int           `json:"src"`
	No    int             `json:"no"`
	Want  []int           `json:"want"`
}

// scripted matcher: returns the vectors' index slices in call order (one worker)
type scriptFactory struct {
	names map[string]int
	idx   [][]int
	lines [][]byte
	mu    sync.Mutex
	next  int
	bad   int
}

func (f *scriptFactory) CreateInstance() matchers.Matcher { return f }
func (f *scriptFactory) SubexpNameTable() map[string]int  { return f.names }
func (f *scriptFactory) FindSubmatchIndex(b []byte) []int {
	f.mu.Lock()
	defer f.mu.Unlock()
	k := f.next
	f.next++
	if k >= len(f.idx) || !bytes.Equal(b, f.lines[k]) {
		f.bad++
		return nil
	}
	return append([]int{}, f.idx[k]...)
}

func cmdReplay(args []string) error {
	fs := flag.NewFlagSet("replay", flag.ExitOnError)
	in := fs.String("in", "", "")
	outp := fs.String("out", "replay.json", "")
	fs.Parse(args)
	groups := map[int][]capVec{}
	var order []int
	err := vh.ReadNd(*in, func(raw json.RawMessage) error {
		var v capVec
		if err := json.Unmarshal(raw, &v); err != nil {
			return err
		}
		if _, ok := groups[v.Setup]; !ok {
			order = append(order, v.Setup)
		}
		groups[v.Setup] = append(groups[v.Setup], v)
		return nil
	})
	if err != nil {
		return err
	}
	sort.Ints(order)
	type mismatch struct {
		Kind   string      `json:"kind"`
		Vector capVec      `json:"vector"`
		Got    interface{} `json:"got"`
	}
	res := struct {
		Runs       int        `json:"runs"`
		Nontrivial int        `json:"distinct_nontrivial"`
		Mismatches []mismatch `json:"mismatches"`
		Samples    []vh.M     `json:"samples"`
	}{Mismatches: []mismatch{}}
	for _, g := range order {
		vs := groups[g]
		fac := &scriptFactory{names: map[string]int{}}
		for _, nm := range vs[0].Names {
			var name []int
			b, _ := json.Marshal(nm[0])
			json.Unmarshal(b, &name)
			fac.names[string(vh.FromInts(name))] = int(nm[1].(float64))
		}
		for _, v := range vs {
			fac.idx = append(fac.idx, v.Idx)
			fac.lines = append(fac.lines, vh.FromInts(v.Line))
		}
		in := make(chan extractor.InputBatch, 16)
		ex, err := extractor.New(in, &extractor.Config{Matcher: fac, Extract: render(vs[0].Tpl), Workers: 1})
		if err != nil {
			return err
		}
		go func() {
			for k, v := range vs {
				in <- extractor.InputBatch{Batch: []extractor.BString{fac.lines[k]}, Source: string(vh.FromInts(v.Src)), BatchStart: uint64(v.No)}
			}
			close(in)
		}()
		k := 0
		for ms := range ex.ReadChan() {
			for _, m := range ms {
				if k >= len(vs) {
					res.Mismatches = append(res.Mismatches, mismatch{"extra-match", vs[len(vs)-1], vh.BS(m.Extracted)})
					continue
				}
				v := vs[k]
				k++
				res.Runs++
				if len(v.Idx) > 2 {
					res.Nontrivial++
				}
				switch {
				case m.Extracted != string(vh.FromInts(v.Want)):
					res.Mismatches = append(res.Mismatches, mismatch{"extracted", v, vh.BS(m.Extracted)})
				case m.Line != string(vh.FromInts(v.Line)):
					res.Mismatches = append(res.Mismatches, mismatch{"line", v, vh.BS(m.Line)})
				case !vh.EqInts(m.Indices, v.Idx):
					res.Mismatches = append(res.Mismatches, mismatch{"indices", v, nonNil(m.Indices)})
				case int(m.LineNumber) != v.No:
					res.Mismatches = append(res.Mismatches, mismatch{"lineno", v, int(m.LineNumber)})
				case m.Source != string(vh.FromInts(v.Src)):
					res.Mismatches = append(res.Mismatches, mismatch{"source", v, vh.BS(m.Source)})
				}
				if len(res.Samples) < 2 && len(v.Idx) > 4 && len(v.Line) > 2 {
					res.Samples = append(res.Samples, vh.M{"line": string(vh.FromInts(v.Line)), "idx": v.Idx, "extract": render(v.Tpl), "want": string(vh.FromInts(v.Want)), "got": m.Extracted})
				}
			}
		}
		if fac.bad > 0 {
			return fmt.Errorf("setup %d: %d matcher calls out of script", g, fac.bad)
		}
		if k != len(vs) { // every template ends in a literal, so every vector must be emitted
			res.Mismatches = append(res.Mismatches, mismatch{"count", vs[0], fmt.Sprintf("%d matches for %d matching lines with a non-empty key", k, len(vs))})
		}
	}
	vh.WriteJSON(*outp, res)
	return nil
}

package main

// C05, B1 for PoolOwn.tla: evaluation histories (TLC) replayed on the real pooled helpers.
//
//   c05 pool -in hist.ndjson -out obs.ndjson [-mult N]
//
// A history (PoolOwn_Gen) is a prelude - complete evaluations of nests of helpers, each leaving by a
// chosen way out - and a probe: E evaluations, each a chain of helpers, all held inside their
// innermost body at the same moment.  The nests are compiled ONCE per shape with the real
// stdlib / funcs-file machinery (so the pools live as long as in production: the sub-context pool
// for the whole process, the formula and funcs-file pools as long as the compiled stage); the way
// out of every helper is selected by the line's data (an empty array, a loop whose condition never
// turns false, a formula operand that is no number).  Harness-owned pieces only observe: `see`
// records the element a body finds in its context, the key `gate` is a barrier that keeps the
// probe's evaluations inside their bodies until all have arrived.  What PoolOwn promises (Own,
// NoForeign): every body finds the element of its own evaluation, before and after the barrier.

import (
	"encoding/json"
	"flag"
	"fmt"
	"os"
	"sort"
	"strconv"
	"strings"
	"sync"
	"sync/atomic"
	"time"

	"rare/pkg/expressions"
	"rare/pkg/expressions/funcfile"
	"rare/pkg/expressions/stdlib"

	"verifharness/vh"
)

type Hev struct {
	E    int    `json:"e"`
	Op   string `json:"op"`
	H    string `json:"h"`
	Path string `json:"path"`
}

type History struct {
	T     int   `json:"t"`
	Hist  []Hev `json:"hist"`
	E     int   `json:"e"`
	Depth int   `json:"depth"`
	Own   bool  `json:"own"`
}

type pnode struct {
	h, path string
	kids    []*pnode
	label   int
}

var digitOf = map[string]string{"map": "1", "filter": "2", "reduce": "3", "for": "4", "ff": "5", "math": "6"}

// ---------------------------------------------------------------- harness-owned observation
type probeState struct {
	armed    atomic.Bool // barrier active
	record   atomic.Bool
	want     int32
	arrived  int32
	release  chan struct{}
	timedOut atomic.Bool
	mu       sync.Mutex
	recs     []string // "label:value"
}

var ps = &probeState{}

func (p *probeState) gate() {
	if !p.armed.Load() {
		return
	}
	n := atomic.AddInt32(&p.arrived, 1)
	if n == p.want {
		close(p.release)
		return
	}
	if n > p.want {
		return // the barrier has opened: later calls pass
	}
	select {
	case <-p.release:
	case <-time.After(30 * time.Second):
		p.timedOut.Store(true)
	}
}

type hctx struct {
	id   string
	keys map[string]string
}

func (c *hctx) GetMatch(idx int) string {
	if idx == 0 {
		return c.id
	}
	return ""
}

func (c *hctx) GetKey(k string) string {
	switch k {
	case "gate":
		ps.gate()
		return "0"
	case "id":
		return c.id
	}
	return c.keys[k]
}

func poolFuncs() map[string]expressions.KeyBuilderFunction {
	return map[string]expressions.KeyBuilderFunction{
		// {see label value}: records what a body finds
		"see": func(args []expressions.KeyBuilderStage) (expressions.KeyBuilderStage, error) {
			return func(ctx expressions.KeyBuilderContext) string {
				l := args[0](ctx)
				v := args[1](ctx)
				if ps.record.Load() {
					ps.mu.Lock()
					ps.recs = append(ps.recs, l+":"+v)
					ps.mu.Unlock()
				}
				return ""
			}, nil
		},
		// {seq a b c ...}: evaluates its arguments in order, concatenates
		"seq": func(args []expressions.KeyBuilderStage) (expressions.KeyBuilderStage, error) {
			return func(ctx expressions.KeyBuilderContext) string {
				var sb strings.Builder
				for _, a := range args {
					sb.WriteString(a(ctx))
				}
				return sb.String()
			}, nil
		},
		// {arr sel elem digit}: the array a helper iterates over: empty when sel is set, else one element
		"arr": func(args []expressions.KeyBuilderStage) (expressions.KeyBuilderStage, error) {
			return func(ctx expressions.KeyBuilderContext) string {
				if args[0](ctx) != "" {
					return ""
				}
				return args[1](ctx) + args[2](ctx)
			}, nil
		},
		// {cont idx sel}: loop condition: first iteration only, or for ever when sel is set
		"cont": func(args []expressions.KeyBuilderStage) (expressions.KeyBuilderStage, error) {
			return func(ctx expressions.KeyBuilderContext) string {
				if args[0](ctx) == "0" || args[1](ctx) != "" {
					return "1"
				}
				return ""
			}, nil
		},
		// {once idx body}: the body in the first iteration only
		"once": func(args []expressions.KeyBuilderStage) (expressions.KeyBuilderStage, error) {
			return func(ctx expressions.KeyBuilderContext) string {
				if args[0](ctx) == "0" {
					return args[1](ctx)
				}
				return ""
			}, nil
		},
	}
}

// ---------------------------------------------------------------- nests -> expressions
type shapes struct {
	kb       *expressions.KeyBuilder
	compiled map[string]*expressions.CompiledKeyBuilder
	ffNames  map[string]string
}

func newShapes() *shapes {
	kb := stdlib.NewStdKeyBuilder()
	kb.Funcs(poolFuncs())
	return &shapes{kb: kb, compiled: map[string]*expressions.CompiledKeyBuilder{}, ffNames: map[string]string{}}
}

func label(n *pnode, next *int) {
	*next++
	n.label = *next
	for _, k := range n.kids {
		label(k, next)
	}
}

// expression of node n, evaluated in a context whose element is `pe` (pidx = its index there)
func (s *shapes) expr(n *pnode, pe string) (string, error) {
	elem := "{0}"
	if n.h == "reduce" {
		elem = "{1}"
	}
	l := strconv.Itoa(n.label)
	if n.h == "math" {
		idx := strings.Trim(pe, "{}")
		return fmt.Sprintf(`{see %s {! "[gate]+[%s]+[m%s]"}}`, l, idx, l), nil
	}
	var kids strings.Builder
	for _, k := range n.kids {
		e, err := s.expr(k, elem)
		if err != nil {
			return "", err
		}
		kids.WriteString(" " + e)
	}
	tail := ""
	if n.h == "filter" {
		tail = " 1"
	}
	body := fmt.Sprintf("{seq {see %s %s}%s {gate} {see %s %s}%s}", l, elem, kids.String(), l, elem, tail)
	d := digitOf[n.h]
	switch n.h {
	case "map":
		return fmt.Sprintf("{@map {arr {p%s} %s %s} %s}", l, pe, d, body), nil
	case "filter":
		return fmt.Sprintf("{@filter {arr {p%s} %s %s} %s}", l, pe, d, body), nil
	case "reduce":
		return fmt.Sprintf("{@reduce {arr {p%s} %s %s} %s 0}", l, pe, d, body), nil
	case "for":
		return fmt.Sprintf("{@for {arr {emp} %s %s} {cont {1} {p%s}} {once {1} %s}}", pe, d, l, body), nil
	case "ff":
		name, ok := s.ffNames[body]
		if !ok {
			name = fmt.Sprintf("ffn%d", len(s.ffNames)+1)
			if _, err := funcfile.LoadDefinitions(s.kb, strings.NewReader(name+" "+body+"\n"), "mem"); err != nil {
				return "", fmt.Errorf("funcs definition %q: %v", body, err)
			}
			s.ffNames[body] = name
		}
		return fmt.Sprintf("{%s {arr {emp} %s %s}}", name, pe, d), nil
	}
	return "", fmt.Errorf("unknown helper %q", n.h)
}

func (s *shapes) compile(n *pnode) (*expressions.CompiledKeyBuilder, string, error) {
	next := 0
	label(n, &next)
	e, err := s.expr(n, "{0}")
	if err != nil {
		return nil, "", err
	}
	if c, ok := s.compiled[e]; ok {
		return c, e, nil
	}
	c, cerr := s.kb.Compile(e)
	if cerr != nil {
		return nil, e, fmt.Errorf("compile %q: %v", e, cerr)
	}
	s.compiled[e] = c
	return c, e, nil
}

// data that selects every node's way out
func selectors(n *pnode, keys map[string]string) {
	l := strconv.Itoa(n.label)
	switch {
	case n.h == "math":
		if n.path == "err" {
			keys["m"+l] = "x"
		} else {
			keys["m"+l] = "0"
		}
	case n.path == "empty" || n.path == "limit":
		keys["p"+l] = "1"
	}
	for _, k := range n.kids {
		selectors(k, keys)
	}
}

// what an evaluation with token `elem` (element of the enclosing context) owes: label:value records
func expected(n *pnode, pelem string, out *[]string, anyv *[]string) {
	l := strconv.Itoa(n.label)
	if n.h == "math" {
		if n.path == "err" {
			*anyv = append(*anyv, l)
		} else {
			*out = append(*out, l+":"+pelem)
		}
		return
	}
	if n.path == "empty" {
		// the helper may or may not run its body once on an empty element: not a matter of ownership
		*anyv = append(*anyv, "~"+l+":")
		return
	}
	el := pelem + digitOf[n.h]
	*out = append(*out, l+":"+el, l+":"+el)
	for _, k := range n.kids {
		expected(k, el, out, anyv)
	}
}

func buildNests(evs []Hev) (map[int][]*pnode, error) {
	stacks := map[int][]*pnode{}
	roots := map[int][]*pnode{}
	for _, ev := range evs {
		switch ev.Op {
		case "in":
			n := &pnode{h: ev.H, path: ev.Path}
			st := stacks[ev.E]
			if len(st) == 0 {
				roots[ev.E] = append(roots[ev.E], n)
			} else {
				st[len(st)-1].kids = append(st[len(st)-1].kids, n)
			}
			stacks[ev.E] = append(st, n)
		case "out":
			st := stacks[ev.E]
			if len(st) == 0 {
				return nil, fmt.Errorf("exit without enter")
			}
			stacks[ev.E] = st[:len(st)-1]
		}
	}
	return roots, nil
}

type poolObs struct {
	T        int      `json:"t"`
	Phase    string   `json:"phase"`
	Exprs    []string `json:"exprs"`
	Holders  int      `json:"holders"`
	Missing  []string `json:"missing"` // records the evaluations owe but did not produce
	Foreign  []string `json:"foreign"` // records nobody owes
	Evals    int      `json:"evals"`
	Infra    string   `json:"infra,omitempty"`
	Expected int      `json:"expected"`
}

func diffRecs(want, got, anyv []string) (missing, foreign []string) {
	cnt := map[string]int{}
	for _, w := range want {
		cnt[w]++
	}
	anyc := map[string]int{}
	free := map[string]bool{}
	for _, a := range anyv {
		if strings.HasPrefix(a, "~") {
			free[a[1:]] = true
			continue
		}
		anyc[a]++
	}
	for _, g := range got {
		if cnt[g] > 0 {
			cnt[g]--
			continue
		}
		if free[g] {
			continue
		}
		l := g[:strings.IndexByte(g, ':')]
		if anyc[l] > 0 {
			anyc[l]--
			continue
		}
		foreign = append(foreign, g)
	}
	for k, c := range cnt {
		for ; c > 0; c-- {
			missing = append(missing, k)
		}
	}
	for k, c := range anyc {
		for ; c > 0; c-- {
			missing = append(missing, k+":*")
		}
	}
	sort.Strings(missing)
	sort.Strings(foreign)
	if missing == nil {
		missing = []string{}
	}
	if foreign == nil {
		foreign = []string{}
	}
	return
}

type unbuffered struct{ enc *json.Encoder }

func (u *unbuffered) Write(v interface{}) { u.enc.Encode(v) }

func cmdPool(args []string) error {
	fs := flag.NewFlagSet("pool", flag.ExitOnError)
	in := fs.String("in", "", "histories ndjson")
	out := fs.String("out", "", "observations ndjson")
	mult := fs.Int("mult", 4, "goroutines per model evaluation in the probe")
	fs.Parse(args)
	var hs []*History
	if err := vh.ReadNd(*in, func(raw json.RawMessage) error {
		var h History
		if err := json.Unmarshal(raw, &h); err != nil {
			return err
		}
		hs = append(hs, &h)
		return nil
	}); err != nil {
		return err
	}
	of, err := os.Create(*out)
	if err != nil {
		return err
	}
	defer of.Close()
	w := &unbuffered{enc: json.NewEncoder(of)} // a crash inside the helpers must not lose what was observed before
	sh := newShapes()
	token := 100
	for _, h := range hs {
		fmt.Fprintf(os.Stderr, "pool: history %d\n", h.T)
		cut := len(h.Hist)
		for i, ev := range h.Hist {
			if ev.Op == "probe" {
				cut = i
				break
			}
		}
		pre, err := buildNests(h.Hist[:cut])
		if err != nil {
			return err
		}
		var probeEvs []Hev
		if cut < len(h.Hist) {
			probeEvs = h.Hist[cut+1:]
		}
		probe, err := buildNests(probeEvs)
		if err != nil {
			return err
		}
		// compile first: the compiler evaluates every stage once on a static context (nothing is recorded)
		for _, ns := range []map[int][]*pnode{pre, probe} {
			for _, l := range ns {
				for _, n := range l {
					if _, _, err := sh.compile(n); err != nil {
						return err
					}
				}
			}
		}
		// ---- prelude: one worker, one evaluation after the other
		o := poolObs{T: h.T, Phase: "prelude", Exprs: []string{}}
		var want, anyv []string
		ps.armed.Store(false)
		ps.recs = nil
		ps.record.Store(true)
		for _, n := range pre[1] {
			c, e, err := sh.compile(n)
			if err != nil {
				return err
			}
			o.Exprs = append(o.Exprs, e)
			token++
			ctx := &hctx{id: strconv.Itoa(token), keys: map[string]string{}}
			selectors(n, ctx.keys)
			expected(n, ctx.id, &want, &anyv)
			c.BuildKey(ctx)
			o.Evals++
		}
		ps.record.Store(false)
		o.Missing, o.Foreign = diffRecs(want, ps.recs, anyv)
		o.Expected = len(want) + len(anyv)
		w.Write(o)
		// ---- probe: E x mult evaluations held inside their innermost bodies together
		o = poolObs{T: h.T, Phase: "probe", Exprs: []string{}}
		want, anyv = nil, nil
		type job struct {
			c   *expressions.CompiledKeyBuilder
			ctx *hctx
		}
		var jobs []job
		depth := 0
		for e := 1; e <= h.E; e++ {
			for _, n := range probe[e] {
				c, ex, err := sh.compile(n)
				if err != nil {
					return err
				}
				o.Exprs = append(o.Exprs, ex)
				d := 0
				for q := n; q != nil; {
					d++
					if len(q.kids) > 0 {
						q = q.kids[0]
					} else {
						q = nil
					}
				}
				for m := 0; m < *mult; m++ {
					token++
					ctx := &hctx{id: strconv.Itoa(token), keys: map[string]string{}}
					selectors(n, ctx.keys)
					expected(n, ctx.id, &want, &anyv)
					jobs = append(jobs, job{c, ctx})
					depth += d
				}
			}
		}
		if len(jobs) > 0 {
			ps.recs = nil
			ps.want = int32(len(jobs))
			ps.arrived = 0
			ps.release = make(chan struct{})
			ps.timedOut.Store(false)
			ps.armed.Store(true)
			ps.record.Store(true)
			var wg sync.WaitGroup
			for _, j := range jobs {
				wg.Add(1)
				go func(j job) {
					defer wg.Done()
					j.c.BuildKey(j.ctx)
				}(j)
			}
			wg.Wait()
			ps.armed.Store(false)
			ps.record.Store(false)
			if ps.timedOut.Load() {
				o.Infra = "barrier timed out"
			}
			o.Evals = len(jobs)
			o.Holders = depth
			o.Missing, o.Foreign = diffRecs(want, ps.recs, anyv)
			o.Expected = len(want) + len(anyv)
		} else {
			o.Missing, o.Foreign = []string{}, []string{}
		}
		w.Write(o)
	}
	return nil
}

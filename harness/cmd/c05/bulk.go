package main

// C05: many lines in flight in several workers (B2 for the shared state of a compiled expression,
// TimeMemo.tla) and runs whose inputs cannot be opened (reader slots, AggLoop!ROpenFail).
//
//   c05 bulk -in vec.ndjson -out trace.ndjson -meta meta.json
//
// A vector (TimeMemo_Gen, TLC) names an extraction expression over a timestamp, the timestamp text
// of every class and the key the specification demands for it.  The driver writes a log whose lines
// carry those timestamps in irregular runs, reads it with the real batcher / extractor (several
// workers, small batches) through the real RunAggregationLoop and records the run in the event
// format of AggLoop_Trace; the samples between two renders are compressed into one `sbulk` event
// (key -> number of samples).  The per-key totals the run must end with are the line counts of the
// classes under the keys of the specification.

import (
	"encoding/json"
	"flag"
	"fmt"
	"os"
	"path/filepath"
	"runtime"
	"sort"
	"strings"
	"sync"
	"time"

	"rare/cmd/helpers"
	"rare/pkg/aggregation"
	"rare/pkg/extractor"
	"rare/pkg/extractor/batchers"
	"rare/pkg/matchers"
	"rare/pkg/matchers/fastregex"

	"verifharness/vh"
)

type BulkClass struct {
	Ts  []int `json:"ts"`  // timestamp text (bytes)
	Key []int `json:"key"` // the key the specification demands (bytes)
}

type BulkVec struct {
	T       int         `json:"t"`
	Expr    string      `json:"expr"`
	Classes []BulkClass `json:"classes"`
	Lines   int         `json:"lines"`
	Workers int         `json:"workers"`
	Batch   int         `json:"batch"`
	Files   int         `json:"files"`
	Readers int         `json:"readers"`
	MaxRun  int         `json:"maxrun"`
	Salt    int64       `json:"salt"`
}

type bulkAgg struct {
	inner   *aggregation.MatchCounter
	mu      sync.Mutex
	pending map[string]int
}

func (a *bulkAgg) Sample(el string) {
	a.inner.Sample(el)
	a.mu.Lock()
	a.pending[el]++
	a.mu.Unlock()
}
func (a *bulkAgg) ParseErrors() uint64 { return a.inner.ParseErrors() }

func (a *bulkAgg) flush(rec *recorder) {
	a.mu.Lock()
	defer a.mu.Unlock()
	if len(a.pending) == 0 {
		return
	}
	d := make([]KN, 0, len(a.pending))
	for k, n := range a.pending {
		d = append(d, KN{K: vh.BS(k), N: n})
	}
	sort.Slice(d, func(i, j int) bool { return string(vh.FromInts(d[i].K)) < string(vh.FromInts(d[j].K)) })
	a.pending = map[string]int{}
	rec.log("sbulk", M{"d": d})
}

func runBulk(v *BulkVec, dir string) (events []M, total []KN, hang bool, dump string, err error) {
	r := vh.NewRand(7000 + v.Salt + int64(v.T))
	nf := v.Files
	if nf < 1 {
		nf = 1
	}
	counts := make([]int, len(v.Classes))
	var names []string
	for f := 0; f < nf; f++ {
		var sb strings.Builder
		n := v.Lines / nf
		c := r.Intn(len(v.Classes))
		for i := 0; i < n; {
			run := 1 + r.Intn(v.MaxRun)
			for j := 0; j < run && i < n; j++ {
				sb.Write(vh.FromInts(v.Classes[c].Ts))
				fmt.Fprintf(&sb, " request %d\n", i)
				counts[c]++
				i++
			}
			c = (c + 1 + r.Intn(len(v.Classes)-1)) % len(v.Classes)
		}
		p := filepath.Join(dir, fmt.Sprintf("bulk%d-%02d.log", v.T, f))
		if err := os.WriteFile(p, []byte(sb.String()), 0o644); err != nil {
			return nil, nil, false, "", err
		}
		names = append(names, p)
	}
	byKey := map[string]int{}
	for c, cl := range v.Classes {
		byKey[string(vh.FromInts(cl.Key))] += counts[c]
	}
	for k, n := range byKey {
		if n > 0 {
			total = append(total, KN{K: vh.BS(k), N: n})
		}
	}
	sort.Slice(total, func(i, j int) bool { return string(vh.FromInts(total[i].K)) < string(vh.FromInts(total[j].K)) })

	ch := make(chan string, len(names))
	for _, n := range names {
		ch <- n
	}
	close(ch)
	batcher := batchers.OpenFilesToChan(ch, false, v.Readers, v.Batch, 2)
	ext, err := extractor.New(batcher.BatchChan(), &extractor.Config{
		Matcher: matchers.ToFactory(fastregex.MustCompile(`^(.+) request \d+$`)),
		Extract: v.Expr,
		Workers: v.Workers,
	})
	if err != nil {
		return nil, nil, false, "", err
	}
	rec := &recorder{t0: time.Now()}
	counter := aggregation.NewCounter()
	agg := &bulkAgg{inner: counter, pending: map[string]int{}}
	writeOutput := func() {
		agg.flush(rec)
		snap := snapshot(counter)
		rec.log("renter", M{"snap": snap, "matched": int(ext.MatchedLines())})
		_ = batcher.StatusString()
		rec.log("rexit", nil)
	}
	done := make(chan struct{})
	go func() {
		helpers.RunAggregationLoop(ext, agg, writeOutput)
		rec.log("ret", nil)
		close(done)
	}()
	select {
	case <-done:
		time.Sleep(150 * time.Millisecond)
		rec.log("end", nil)
	case <-time.After(120 * time.Second):
		buf := make([]byte, 1<<20)
		buf = buf[:runtime.Stack(buf, true)]
		hang, dump = true, string(buf)
	}
	rec.mu.Lock()
	events = rec.ev
	rec.mu.Unlock()
	return
}

func cmdBulk(args []string) error {
	fs := flag.NewFlagSet("bulk", flag.ExitOnError)
	in := fs.String("in", "", "vectors ndjson")
	out := fs.String("out", "", "trace ndjson")
	meta := fs.String("meta", "", "summary json")
	fs.Parse(args)
	var vs []*BulkVec
	if err := vh.ReadNd(*in, func(raw json.RawMessage) error {
		var v BulkVec
		if err := json.Unmarshal(raw, &v); err != nil {
			return err
		}
		vs = append(vs, &v)
		return nil
	}); err != nil {
		return err
	}
	dir, err := os.MkdirTemp(".", "c05bulk")
	if err != nil {
		return err
	}
	defer os.RemoveAll(dir)
	w, err := vh.NewNdWriter(*out)
	if err != nil {
		return err
	}
	defer w.Close()
	var hangs []M
	lines := 0
	for _, v := range vs {
		ev, total, hang, dump, err := runBulk(v, dir)
		if err != nil {
			return fmt.Errorf("vector %d: %v", v.T, err)
		}
		w.Write(M{"event": "reset", "t": v.T, "src": "tlc:bulk", "total": total, "workers": v.Workers, "readers": v.Readers,
			"batch": v.Batch, "buf": 2, "mode": "bulk"})
		for _, e := range ev {
			w.Write(e)
		}
		if hang {
			w.Write(M{"event": "hang"})
			hangs = append(hangs, M{"t": v.T, "dump": dump})
		}
		lines += v.Lines
	}
	if *meta != "" {
		vh.WriteJSON(*meta, M{"runs": len(vs), "lines": lines, "hangs": hangs})
	}
	return nil
}

package main

// C05 - the aggregation loop: mutual exclusion of Sample and render, channel close order,
// complete final render, termination; data races (when built with -race).
//
//   c05 run    -in scen.ndjson -out trace.ndjson [-par N]   runs every scenario in a child process
//                                                           (`one`) and merges the recorded events
//   c05 one    -scen file -out file                         one scenario, in-process, real code
//   c05 gen    -n N -out scen.ndjson                        seeded free-running scenarios (B2)
//   c05 stress -ms N                                        race stress (status line, pooled
//                                                           expression contexts); build with -race
//
// A scenario is an input (files = batches of lines, a line is key k>0 or 0 = no match), a
// configuration (workers, readers, batch buffer) and a steering script: the order in which the
// environment releases input and the observable events happen, as produced by TLC from
// AggLoop_Gen (B1) or by `gen`.  The director below steers the real code towards that order with
// gates in harness-owned code only (the input writer, the instrumented Sample and writeOutput);
// whatever order really happens is recorded and validated by AggLoop_Trace (B2).

import (
	"bytes"
	"encoding/json"
	"errors"
	"flag"
	"fmt"
	"io"
	"os"
	"os/exec"
	"path/filepath"
	"regexp"
	"runtime"
	"sort"
	"strings"
	"sync"
	"syscall"
	"time"
	"unsafe"

	"rare/cmd/helpers"
	"rare/pkg/aggregation"
	"rare/pkg/extractor"
	"rare/pkg/extractor/batchers"
	"rare/pkg/matchers"
	"rare/pkg/matchers/fastregex"

	"verifharness/vh"
)

func main() {
	vh.Main(vh.Commands{"run": cmdRun, "one": cmdOne, "gen": cmdGen, "stress": cmdStress, "pool": cmdPool, "bulk": cmdBulk})
}

type M = vh.M

type Step struct {
	K  string `json:"k"` // rel | sleep | senter | sexit | tick | renter | rexit | ret
	F  int    `json:"f,omitempty"`
	Ms int    `json:"ms,omitempty"`
}

type Scenario struct {
	T        int            `json:"t"`
	Src      string         `json:"src"`  // "tlc" | "seeded"
	Mode     string         `json:"mode"` // "files" (OpenFilesToChan over FIFOs) | "reader" (OpenReaderToChan over a pipe)
	Workers  int            `json:"workers"`
	Readers  int            `json:"readers"`
	Batch    int            `json:"batch"`
	Buf      int            `json:"buf"`
	Files    [][][]int      `json:"files"`
	Script   []Step         `json:"script"`
	SSleep   map[string]int `json:"ssleep,omitempty"`   // Sample #j sleeps (ms)
	RSleep   map[string]int `json:"rsleep,omitempty"`   // render #k sleeps (ms); "*" = every render
	Status   bool           `json:"status,omitempty"`   // concurrent status-line reader
	Missing  string         `json:"missing,omitempty"`  // how a file without content (AggLoop!Missing) is materialised: "absent" (default) | "dir"
	Deadline int            `json:"deadline,omitempty"` // watchdog in seconds (default 20)
}

type KN struct {
	K []int `json:"k"`
	N int   `json:"n"`
}

type Result struct {
	Events     []M    `json:"events"`
	Skipped    int    `json:"skipped"` // script steps the real execution did not follow
	Consumed   int    `json:"consumed"`
	FeederDone bool   `json:"feederDone"`
	Hang       bool   `json:"hang"`
	Dump       string `json:"dump,omitempty"`
}

// bytes written to the FIFO and not yet read (FIONREAD)
func fifoPending(f *os.File) int {
	rc, err := f.SyscallConn()
	if err != nil {
		return 0
	}
	var n int32
	rc.Control(func(fd uintptr) {
		syscall.Syscall(syscall.SYS_IOCTL, fd, 0x541B, uintptr(unsafe.Pointer(&n)))
	})
	return int(n)
}

func keyName(k int) string { return fmt.Sprintf("key%d", k) }

func lineFor(k, f, b, j int) string {
	if k == 0 {
		return fmt.Sprintf("zzz nomatch %d.%d.%d\n", f, b, j)
	}
	return fmt.Sprintf("%s payload %d.%d.%d\n", keyName(k), f, b, j)
}

// ------------------------------------------------------------------ recorder
type recorder struct {
	mu sync.Mutex
	t0 time.Time
	ev []M
}

func (r *recorder) log(name string, extra M) {
	r.mu.Lock()
	m := M{"event": name, "ms": time.Since(r.t0).Milliseconds()}
	for k, v := range extra {
		m[k] = v
	}
	r.ev = append(r.ev, m)
	r.mu.Unlock()
}

// ------------------------------------------------------------------ director
type director struct {
	mu       sync.Mutex
	steps    []Step
	p        int
	skipped  int
	lastMove time.Time
	feed     func(f int)
	stop     chan struct{}
	busy     bool
}

func (d *director) cur() string {
	if d.p < len(d.steps) {
		return d.steps[d.p].K
	}
	return ""
}

func (d *director) advance() { d.p++; d.lastMove = time.Now() }

const (
	ctxTop = iota
	ctxSample
	ctxRender
)

// drain executes the environment steps that follow the event just consumed.  Called with d.mu held;
// only one drain runs at a time (it releases d.mu while it sleeps).
func (d *director) drain(ctx int) {
	if d.busy {
		return
	}
	d.busy = true
	defer func() { d.busy = false }()
	delivered := false
loop:
	for d.p < len(d.steps) {
		s := d.steps[d.p]
		switch {
		case s.K == "rel":
			d.feed(s.F)
			delivered = true
			d.advance()
		case s.K == "sleep":
			d.mu.Unlock()
			time.Sleep(time.Duration(s.Ms) * time.Millisecond)
			d.mu.Lock()
			d.advance()
		case s.K == "tick" && ctx == ctxSample:
			// the model lets the ticker fire while this Sample is in progress: stay inside long
			// enough for the real 100 ms ticker to fire and queue up on the mutex
			d.mu.Unlock()
			time.Sleep(150 * time.Millisecond)
			d.mu.Lock()
			d.advance()
		default:
			break loop
		}
	}
	if delivered && ctx != ctxTop {
		// input was released while a Sample / render is in progress: give it time to travel
		// through reader, worker and channel before this critical section ends
		d.mu.Unlock()
		time.Sleep(60 * time.Millisecond)
		d.mu.Lock()
	}
}

// on is called by the instruments: consume the event if the script expects it now, then run the
// environment steps that follow it.
func (d *director) on(ev string, ctx int) {
	d.mu.Lock()
	defer d.mu.Unlock()
	if d.busy {
		return
	}
	if ev == "renter" && d.cur() == "tick" {
		d.advance()
	}
	if d.cur() == ev {
		d.advance()
		d.drain(ctx)
	}
}

// run executes the leading environment steps, then skips any step the real execution does not
// reach, so that all input is always released.
func (d *director) run() {
	d.mu.Lock()
	d.lastMove = time.Now()
	d.drain(ctxTop)
	d.mu.Unlock()
	for {
		select {
		case <-d.stop:
			return
		case <-time.After(40 * time.Millisecond):
		}
		d.mu.Lock()
		if !d.busy && d.p < len(d.steps) && time.Since(d.lastMove) > 450*time.Millisecond {
			// the real execution left the schedule: give up the expected events up to the next
			// release of input (the run stays valid, it is just no longer steered)
			for d.p < len(d.steps) && d.steps[d.p].K != "rel" {
				d.skipped++
				d.p++
			}
			d.lastMove = time.Now()
			d.drain(ctxTop)
		}
		d.mu.Unlock()
	}
}

// ---------------------------------------------------------------- instruments
type instrAgg struct {
	inner  *aggregation.MatchCounter
	rec    *recorder
	dir    *director
	n      int
	sleeps map[string]int
}

func (a *instrAgg) Sample(el string) {
	a.n++
	a.rec.log("senter", nil)
	a.dir.on("senter", ctxSample)
	if ms := a.sleeps[fmt.Sprint(a.n)]; ms > 0 {
		time.Sleep(time.Duration(ms) * time.Millisecond)
	}
	a.inner.Sample(el)
	a.rec.log("sexit", M{"key": vh.BS(el)})
	a.dir.on("sexit", ctxTop)
}

func (a *instrAgg) ParseErrors() uint64 { return a.inner.ParseErrors() }

func snapshot(c *aggregation.MatchCounter) []KN {
	items := c.Items()
	out := make([]KN, 0, len(items))
	for _, it := range items {
		out = append(out, KN{K: vh.BS(it.Name), N: int(it.Item.Count())})
	}
	sort.Slice(out, func(i, j int) bool { return bytes.Compare(vh.FromInts(out[i].K), vh.FromInts(out[j].K)) < 0 })
	return out
}

// --------------------------------------------------------------------- one run
func runOne(sc *Scenario, dir string) (*Result, error) {
	rec := &recorder{t0: time.Now()}
	res := &Result{}

	// ---- input side: one writer goroutine per file, fed by the director
	nf := len(sc.Files)
	relCh := make([]chan int, nf)
	var feeders sync.WaitGroup
	var batcher *batchers.Batcher
	writers := make([]io.WriteCloser, nf)
	switch sc.Mode {
	case "files":
		names := make(chan string, nf)
		for f := 0; f < nf; f++ {
			if len(sc.Files[f]) == 0 {
				// a name that cannot be opened / from which nothing can be read
				p := filepath.Join(dir, fmt.Sprintf("gone%02d.log", f+1))
				if sc.Missing == "dir" {
					if err := os.Mkdir(p, 0o700); err != nil {
						return nil, err
					}
				}
				names <- p
				continue
			}
			p := filepath.Join(dir, fmt.Sprintf("in%02d.fifo", f+1))
			if err := syscall.Mkfifo(p, 0o600); err != nil {
				return nil, err
			}
			w, err := os.OpenFile(p, os.O_RDWR, 0)
			if err != nil {
				return nil, err
			}
			writers[f] = w
			names <- p
		}
		close(names)
		batcher = batchers.OpenFilesToChan(names, false, sc.Readers, sc.Batch, sc.Buf)
	case "reader":
		if nf != 1 {
			return nil, errors.New("reader mode needs exactly one file")
		}
		pr, pw := io.Pipe()
		writers[0] = pw
		batcher = batchers.OpenReaderToChan("<pipe>", pr, sc.Batch, sc.Buf)
	default:
		return nil, errors.New("bad mode")
	}
	var written sync.WaitGroup // every batch of every file has been written (not necessarily read)
	for f := 0; f < nf; f++ {
		relCh[f] = make(chan int, 64)
		if len(sc.Files[f]) == 0 {
			continue
		}
		feeders.Add(1)
		written.Add(1)
		go func(f int) {
			defer feeders.Done()
			for b := range relCh[f] {
				var sb strings.Builder
				for j, k := range sc.Files[f][b] {
					sb.WriteString(lineFor(k, f+1, b+1, j+1))
				}
				io.WriteString(writers[f], sb.String())
				if b == len(sc.Files[f])-1 {
					written.Done()
					// a FIFO loses its content when the last descriptor is closed before the reader
					// opened it (readers < files): signal the end only once the data were consumed
					if fl, ok := writers[f].(*os.File); ok {
						for fifoPending(fl) > 0 {
							time.Sleep(time.Millisecond)
						}
					}
					writers[f].Close()
					return
				}
			}
		}(f)
	}
	released := make([]int, nf)
	d := &director{steps: sc.Script, lastMove: time.Now(), stop: make(chan struct{})}
	d.feed = func(f int) { // f is 1-based; releases the next batch of file f (the last one ends the file)
		f--
		if f < 0 || f >= nf || released[f] >= len(sc.Files[f]) {
			return
		}
		relCh[f] <- released[f]
		released[f]++
		if released[f] == len(sc.Files[f]) {
			close(relCh[f])
		}
	}
	// a script that does not release everything is completed here (free-running tail)
	relCount := make([]int, nf)
	for _, s := range sc.Script {
		if s.K == "rel" && s.F >= 1 && s.F <= nf {
			relCount[s.F-1]++
		}
	}
	for f := 0; f < nf; f++ {
		for i := relCount[f]; i < len(sc.Files[f]); i++ {
			d.steps = append(d.steps, Step{K: "rel", F: f + 1})
		}
	}

	// ---- the real pipeline
	ext, err := extractor.New(batcher.BatchChan(), &extractor.Config{
		Matcher: matchers.ToFactory(fastregex.MustCompile(`^(key\d+) `)),
		Extract: "{1}",
		Workers: sc.Workers,
	})
	if err != nil {
		return nil, err
	}
	counter := aggregation.NewCounter()
	agg := &instrAgg{inner: counter, rec: rec, dir: d, sleeps: sc.SSleep}
	nrender := 0
	var renderMu sync.Mutex // protects nrender only (renders may overlap when the code is broken)
	writeOutput := func() {
		snap := snapshot(counter)
		matched := int(ext.MatchedLines())
		rec.log("renter", M{"snap": snap, "matched": matched})
		renderMu.Lock()
		nrender++
		k := nrender
		renderMu.Unlock()
		_ = batcher.StatusString()
		d.on("renter", ctxRender)
		ms := sc.RSleep[fmt.Sprint(k)]
		if ms == 0 {
			ms = sc.RSleep["*"]
		}
		if ms > 0 {
			time.Sleep(time.Duration(ms) * time.Millisecond)
		}
		rec.log("rexit", nil)
		d.on("rexit", ctxTop)
	}

	stopStatus := make(chan struct{})
	var statusWg sync.WaitGroup
	if sc.Status {
		statusWg.Add(1)
		go func() {
			defer statusWg.Done()
			for {
				select {
				case <-stopStatus:
					return
				default:
				}
				_ = batcher.StatusString()
				_ = batcher.ReadBytes() + uint64(batcher.ReadErrors()+batcher.ActiveFileCount())
				_ = ext.ReadLines() + ext.MatchedLines() + ext.IgnoredLines()
				time.Sleep(200 * time.Microsecond)
			}
		}()
	}

	loopDone := make(chan struct{})
	feedDone := make(chan struct{})
	go func() { written.Wait(); close(feedDone) }()
	go d.run()
	go func() {
		helpers.RunAggregationLoop(ext, agg, writeOutput)
		rec.log("ret", nil)
		close(loopDone)
	}()

	// ---- watchdog: all input released and consumed, but the loop does not return
	hang := false
	deadline := 20
	if sc.Deadline > 0 {
		deadline = sc.Deadline
	}
	select {
	case <-loopDone:
	case <-time.After(time.Duration(deadline) * time.Second):
		hang = true
	}
	select {
	case <-feedDone:
		res.FeederDone = true
	default:
	}
	if hang {
		buf := make([]byte, 1<<20)
		buf = buf[:runtime.Stack(buf, true)]
		res.Hang = true
		res.Dump = string(buf)
	} else {
		// grace period: a ticker that survived the loop would render again within 100 ms
		time.Sleep(260 * time.Millisecond)
		rec.log("end", nil)
	}
	close(d.stop)
	close(stopStatus)
	statusWg.Wait()
	rec.mu.Lock()
	res.Events = rec.ev
	rec.mu.Unlock()
	d.mu.Lock()
	res.Skipped = d.skipped
	res.Consumed = d.p
	d.mu.Unlock()
	return res, nil
}

func cmdOne(args []string) error {
	fs := flag.NewFlagSet("one", flag.ExitOnError)
	scen := fs.String("scen", "", "scenario json")
	out := fs.String("out", "", "result json")
	fs.Parse(args)
	raw, err := os.ReadFile(*scen)
	if err != nil {
		return err
	}
	var sc Scenario
	if err := json.Unmarshal(raw, &sc); err != nil {
		return err
	}
	dir, err := os.MkdirTemp(filepath.Dir(*out), "fifo")
	if err != nil {
		return err
	}
	defer os.RemoveAll(dir)
	res, err := runOne(&sc, dir)
	if err != nil {
		return err
	}
	vh.WriteJSON(*out, res)
	return nil
}

// ------------------------------------------------------------------ parent
func totals(sc *Scenario) []KN {
	cnt := map[int]int{}
	for _, f := range sc.Files {
		for _, b := range f {
			for _, k := range b {
				if k != 0 {
					cnt[k]++
				}
			}
		}
	}
	out := []KN{}
	for k, n := range cnt {
		out = append(out, KN{K: vh.BS(keyName(k)), N: n})
	}
	sort.Slice(out, func(i, j int) bool { return bytes.Compare(vh.FromInts(out[i].K), vh.FromInts(out[j].K)) < 0 })
	return out
}

var raceRe = regexp.MustCompile(`(?s)WARNING: DATA RACE.*?==================`)

func classifyCrash(stderr string) string {
	switch {
	case strings.Contains(stderr, "send on closed channel"):
		return "send-on-closed-channel"
	case strings.Contains(stderr, "close of closed channel"):
		return "close-of-closed-channel"
	case strings.Contains(stderr, "concurrent map"):
		return "concurrent-map-access"
	case strings.Contains(stderr, "all goroutines are asleep"):
		return "deadlock"
	case strings.Contains(stderr, "negative WaitGroup counter"):
		return "waitgroup-negative"
	case strings.Contains(stderr, "panic:"):
		return "panic"
	case strings.Contains(stderr, "fatal error:"):
		return "fatal"
	}
	return "exit"
}

func cmdRun(args []string) error {
	fs := flag.NewFlagSet("run", flag.ExitOnError)
	in := fs.String("in", "", "scenarios ndjson")
	out := fs.String("out", "", "trace ndjson")
	meta := fs.String("meta", "", "summary json")
	par := fs.Int("par", 6, "parallel children")
	fs.Parse(args)
	var scs []*Scenario
	if err := vh.ReadNd(*in, func(raw json.RawMessage) error {
		var sc Scenario
		if err := json.Unmarshal(raw, &sc); err != nil {
			return err
		}
		scs = append(scs, &sc)
		return nil
	}); err != nil {
		return err
	}
	self, err := os.Executable()
	if err != nil {
		return err
	}
	work, err := os.MkdirTemp(".", "c05run")
	if err != nil {
		return err
	}
	defer os.RemoveAll(work)
	type childOut struct {
		res    *Result
		crash  string
		stderr string
		infra  string
	}
	outs := make([]childOut, len(scs))
	sem := make(chan struct{}, *par)
	var wg sync.WaitGroup
	for i, sc := range scs {
		wg.Add(1)
		sem <- struct{}{}
		go func(i int, sc *Scenario) {
			defer func() { <-sem; wg.Done() }()
			sp := filepath.Join(work, fmt.Sprintf("s%d.json", i))
			op := filepath.Join(work, fmt.Sprintf("o%d.json", i))
			vh.WriteJSON(sp, sc)
			cmd := exec.Command(self, "one", "-scen", sp, "-out", op)
			var eb bytes.Buffer
			cmd.Stderr = &eb
			cmd.Env = append(os.Environ(), "GORACE=halt_on_error=0 exitcode=0")
			err := cmd.Run()
			o := childOut{stderr: eb.String()}
			if err != nil {
				var ee *exec.ExitError
				if errors.As(err, &ee) && ee.ExitCode() != 3 {
					o.crash = classifyCrash(o.stderr)
				} else {
					o.infra = err.Error() + ": " + o.stderr
				}
			} else if raw, err := os.ReadFile(op); err != nil {
				o.infra = err.Error()
			} else {
				var r Result
				if err := json.Unmarshal(raw, &r); err != nil {
					o.infra = err.Error()
				} else {
					o.res = &r
				}
			}
			outs[i] = o
		}(i, sc)
	}
	wg.Wait()
	w, err := vh.NewNdWriter(*out)
	if err != nil {
		return err
	}
	defer w.Close()
	sum := M{"runs": len(scs)}
	realized, skippedRuns, events := 0, 0, 0
	var races, crashes, hangs, infra []M
	for i, sc := range scs {
		o := outs[i]
		w.Write(M{"event": "reset", "t": sc.T, "src": sc.Src, "total": totals(sc), "workers": sc.Workers,
			"readers": sc.Readers, "batch": sc.Batch, "buf": sc.Buf, "mode": sc.Mode})
		for _, r := range raceRe.FindAllString(o.stderr, -1) {
			races = append(races, M{"t": sc.T, "report": r})
		}
		if o.infra != "" {
			infra = append(infra, M{"t": sc.T, "err": o.infra})
			continue
		}
		if o.crash != "" {
			tail := o.stderr
			if len(tail) > 6000 {
				tail = tail[:6000]
			}
			w.Write(M{"event": "crash", "class": o.crash})
			crashes = append(crashes, M{"t": sc.T, "class": o.crash, "stderr": tail, "scenario": sc})
			continue
		}
		for _, e := range o.res.Events {
			w.Write(e)
			events++
		}
		if o.res.Hang {
			if !o.res.FeederDone {
				infra = append(infra, M{"t": sc.T, "err": "harness feeder did not finish"})
			} else {
				w.Write(M{"event": "hang"})
				hangs = append(hangs, M{"t": sc.T, "dump": o.res.Dump, "scenario": sc})
			}
		}
		if o.res.Skipped == 0 {
			realized++
		} else {
			skippedRuns++
		}
	}
	sum["realized"] = realized
	sum["diverged"] = skippedRuns
	sum["events"] = events
	sum["races"] = races
	sum["crashes"] = crashes
	sum["hangs"] = hangs
	sum["infra"] = infra
	if *meta != "" {
		vh.WriteJSON(*meta, sum)
	}
	return nil
}

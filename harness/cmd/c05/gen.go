package main

import (
	"flag"
	"fmt"
	"io"
	"math/rand"
	"os"
	"path/filepath"
	"runtime"
	"strings"
	"sync"
	"time"

	"rare/cmd/helpers"
	"rare/pkg/aggregation"
	"rare/pkg/extractor"
	"rare/pkg/extractor/batchers"
	"rare/pkg/logger"
	"rare/pkg/matchers"
	"rare/pkg/matchers/fastregex"

	"verifharness/vh"
)

// ---------------------------------------------------------------- seeded scenarios (B2)
func randFiles(r *rand.Rand, nf, maxBatches, batch, nkeys int, pMatch float64) [][][]int {
	files := make([][][]int, nf)
	for f := range files {
		nb := 1 + r.Intn(maxBatches)
		for b := 0; b < nb; b++ {
			n := batch
			if b == nb-1 {
				n = 1 + r.Intn(batch)
			}
			bt := make([]int, n)
			for j := range bt {
				if r.Float64() < pMatch {
					bt[j] = 1 + r.Intn(nkeys)
				}
			}
			files[f] = append(files[f], bt)
		}
	}
	return files
}

func countMatches(b []int) int {
	n := 0
	for _, k := range b {
		if k != 0 {
			n++
		}
	}
	return n
}

// interleaved release order of all batches, with a pause before each
func relScript(r *rand.Rand, files [][][]int, pause func(i, n int) int) []Step {
	var order []int
	for f, fl := range files {
		for range fl {
			order = append(order, f+1)
		}
	}
	r.Shuffle(len(order), func(i, j int) { order[i], order[j] = order[j], order[i] })
	var s []Step
	for i, f := range order {
		if ms := pause(i, len(order)); ms > 0 {
			s = append(s, Step{K: "sleep", Ms: ms})
		}
		s = append(s, Step{K: "rel", F: f})
	}
	return s
}

func genScenario(r *rand.Rand, t int, class string, occ int) *Scenario {
	sc := &Scenario{T: t, Src: "seeded:" + class, Mode: "files", Workers: 1 + r.Intn(4), Readers: 1 + r.Intn(3),
		Batch: 1 + r.Intn(3), Buf: 1 + r.Intn(3), SSleep: map[string]int{}, RSleep: map[string]int{}, Status: r.Intn(2) == 0}
	nkeys := 1 + r.Intn(4)
	switch class {
	case "slowreader": // several 100 ms ticks fire mid-stream
		sc.Files = randFiles(r, 1+r.Intn(4), 3, sc.Batch, nkeys, 0.8)
		sc.Script = relScript(r, sc.Files, func(i, n int) int { return 20 + r.Intn(110) })
		for k := 1; k <= 3; k++ {
			if r.Intn(2) == 0 {
				sc.RSleep[fmt.Sprint(k)] = 10 + r.Intn(70)
			}
		}
	case "longsample": // Sample sleeping across a tick
		sc.Files = randFiles(r, 1+r.Intn(3), 2, sc.Batch, nkeys, 0.9)
		sc.Script = relScript(r, sc.Files, func(i, n int) int { return r.Intn(40) })
		for j := 1; j <= 6; j++ {
			if r.Intn(2) == 0 {
				sc.SSleep[fmt.Sprint(j)] = 110 + r.Intn(70)
			}
		}
		sc.SSleep["1"] = 120 + r.Intn(60)
	case "slowrender": // every render (also the final one) is longer than a tick period
		sc.Files = randFiles(r, 1+r.Intn(3), 3, sc.Batch, nkeys, 0.8)
		sc.Script = relScript(r, sc.Files, func(i, n int) int { return r.Intn(90) })
		sc.RSleep["*"] = 120 + r.Intn(40)
	case "lastbatch": // the last batch (and the end of input) arrives around a tick
		sc.Files = randFiles(r, 1+r.Intn(2), 3, sc.Batch, nkeys, 1.0)
		sc.Script = relScript(r, sc.Files, func(i, n int) int {
			if i == n-1 {
				return 85 + r.Intn(30)
			}
			return r.Intn(15)
		})
	case "burst": // everything at once: pressure on both channels
		sc.Batch = 1 + r.Intn(2)
		sc.Files = randFiles(r, 2+r.Intn(4), 8, sc.Batch, nkeys, 0.9)
		sc.Script = relScript(r, sc.Files, func(i, n int) int { return 0 })
		sc.SSleep[fmt.Sprint(1+r.Intn(4))] = 105 + r.Intn(30)
	case "pipe": // the stdin-like reader with time-based flushing
		sc.Mode = "reader"
		sc.Files = randFiles(r, 1, 5, sc.Batch, nkeys, 0.8)
		sc.Script = relScript(r, sc.Files, func(i, n int) int { return r.Intn(130) })
		sc.SSleep[fmt.Sprint(1+r.Intn(3))] = 100 + r.Intn(60)
	case "eofinrender": // the input ends (without further matches) while the ticker is rendering
		sc.Files = randFiles(r, 1+r.Intn(2), 2, sc.Batch, nkeys, 1.0)
		last := len(sc.Files) - 1
		for lb := &sc.Files[last][len(sc.Files[last])-1]; len(*lb) < sc.Batch; { // keep batch boundaries aligned
			*lb = append(*lb, 1+r.Intn(nkeys))
		}
		tail := make([]int, 1+r.Intn(sc.Batch))
		sc.Files[last] = append(sc.Files[last], tail) // non-matching last batch
		nm := 0
		for f, fl := range sc.Files {
			for b, bt := range fl {
				if f == last && b == len(fl)-1 {
					continue
				}
				sc.Script = append(sc.Script, Step{K: "rel", F: f + 1})
				nm += countMatches(bt)
			}
		}
		for i := 0; i < nm; i++ {
			sc.Script = append(sc.Script, Step{K: "senter"}, Step{K: "sexit"})
		}
		sc.Script = append(sc.Script, Step{K: "renter"}, Step{K: "rel", F: last + 1}, Step{K: "rexit"})
		sc.RSleep["*"] = 30 + r.Intn(40)
	case "lastinrender":
		// the last match batch(es) are delivered while the k-th periodic render is in progress (a render
		// at least two ticks long) and the input ends right after them: they are sampled after a render
		// that started before they arrived, so only the final render can show them
		k := 1 + occ%3 // which periodic render
		inRender := 1  // batches arriving during it
		if occ%3 == 2 {
			inRender = 2
		}
		nf := 1 + r.Intn(2)
		if r.Intn(3) == 0 {
			sc.Mode, nf = "reader", 1
		}
		sc.Files = make([][][]int, nf)
		mkBatch := func(n int) []int {
			bt := make([]int, n)
			for j := range bt {
				if j == 0 || r.Intn(4) != 0 {
					bt[j] = 1 + r.Intn(nkeys)
				}
			}
			return bt
		}
		last := nf - 1
		for g := 1; g <= k; g++ { // input that precedes render g (so that every tick has an update to show)
			nm := 0
			for f := 0; f < nf; f++ {
				if f != last && g > 1 { // the other file is complete (one batch) before the first render
					continue
				}
				if f != last {
					n := sc.Batch
					if r.Intn(2) == 0 {
						n = 1 + r.Intn(sc.Batch)
					}
					sc.Files[f] = append(sc.Files[f], mkBatch(n))
				} else {
					sc.Files[f] = append(sc.Files[f], mkBatch(sc.Batch))
				}
				nm += countMatches(sc.Files[f][len(sc.Files[f])-1])
				sc.Script = append(sc.Script, Step{K: "rel", F: f + 1})
			}
			for i := 0; i < nm; i++ {
				sc.Script = append(sc.Script, Step{K: "senter"}, Step{K: "sexit"})
			}
			sc.Script = append(sc.Script, Step{K: "renter"})
			if g < k {
				sc.Script = append(sc.Script, Step{K: "rexit"})
			}
		}
		nm := 0
		for b := 0; b < inRender; b++ {
			n := sc.Batch
			if b == inRender-1 && r.Intn(2) == 0 {
				n = 1 + r.Intn(sc.Batch)
			}
			sc.Files[last] = append(sc.Files[last], mkBatch(n))
			nm += countMatches(sc.Files[last][len(sc.Files[last])-1])
			sc.Script = append(sc.Script, Step{K: "rel", F: last + 1})
		}
		sc.Script = append(sc.Script, Step{K: "rexit"})
		for i := 0; i < nm; i++ {
			sc.Script = append(sc.Script, Step{K: "senter"}, Step{K: "sexit"})
		}
		sc.RSleep["*"] = 200 + r.Intn(80)
	}
	return sc
}

var classes = []string{"lastinrender", "slowreader", "longsample", "slowrender", "lastbatch", "burst", "pipe", "eofinrender"}

func cmdGen(args []string) error {
	fs := flag.NewFlagSet("gen", flag.ExitOnError)
	n := fs.Int("n", 14, "scenarios")
	out := fs.String("out", "", "scenario ndjson")
	base := fs.Int("base", 100000, "first trace id")
	fs.Parse(args)
	r := vh.NewRand(505)
	w, err := vh.NewNdWriter(*out)
	if err != nil {
		return err
	}
	defer w.Close()
	for i := 0; i < *n; i++ {
		w.Write(genScenario(r, *base+i, classes[i%len(classes)], i/len(classes)))
	}
	return nil
}

// ---------------------------------------------------------------- race stress
// Runs the real pipeline on many small files while the status line is read concurrently, with
// extraction / ignore expressions that share pooled state between the workers.  The verdict is
// the race detector's: the binary is built with -race and its reports are parsed by the caller.
var stressConfigs = []struct {
	match, extract string
	ignore         []string
}{
	{`^(key\d+) `, `{1}`, nil},
	{`^(key\d+) payload (\S+) (\S+) (\d+)`, `{1} {timeformat {time {3}} "2006-01"} {! "[4] * 2 + 1"}`, []string{`{eq {1} "key0"}`}},
	{`^(key\d+) payload (\S+) (\S+) (\d+)`, `{@join {@map {@split {0} " "} "{lower {0}}"} "-"}`, []string{`{gt {4} 95}`}},
	{`^(key\d+) payload (\S+) (\S+) (\d+)`, `{1}{$}{sumi {4} 1}`, nil},
	{`^(key\d+) payload (\S+) (\S+) (\d+)`, `{@reduce {@split {2} "."} "{sumi {0} {1}}"} {buckettime {3} hour} {@len {@filter {@split {0} " "} "{gt {len {0}} 3}"}}`, nil},
	{`^(key\d+) payload (\S+) (\S+) (\d+)`, `{timeattr {time {3} cache} weekday} {@join {@range 0 3} "+"} {percent {4} 100}`, []string{`{lt {4} 3}`, `{like {2} "9.9"}`}},
}

func cmdStress(args []string) error {
	fs := flag.NewFlagSet("stress", flag.ExitOnError)
	ms := fs.Int("ms", 3000, "time budget")
	nfiles := fs.Int("files", 40, "files per round")
	hangS := fs.Int("hang", 90, "seconds after which a round that does not return is a hang")
	fs.Parse(args)
	r := vh.NewRand(506)
	dir, err := os.MkdirTemp(".", "c05stress")
	if err != nil {
		return err
	}
	defer os.RemoveAll(dir)
	var names []string
	for f := 0; f < *nfiles; f++ {
		var sb strings.Builder
		nl := 5 + r.Intn(120)
		for j := 0; j < nl; j++ {
			k := r.Intn(6)
			if r.Intn(10) == 0 {
				sb.WriteString("zzz nomatch\n")
				continue
			}
			fmt.Fprintf(&sb, "key%d payload %d.%d.%d 2024-0%d-1%dT0%d:00:00Z %d\n", k, f, j, r.Intn(10), 1+r.Intn(9), r.Intn(10), r.Intn(10), r.Intn(100))
		}
		p := filepath.Join(dir, fmt.Sprintf("f%03d.log", f))
		if err := os.WriteFile(p, []byte(sb.String()), 0o644); err != nil {
			return err
		}
		names = append(names, p)
	}
	names = append(names, filepath.Join(dir, "missing-1.log"), filepath.Join(dir, "missing-2.log"))
	deadline := time.Now().Add(time.Duration(*ms) * time.Millisecond)
	rounds, lines := 0, uint64(0)
	for round := 0; time.Now().Before(deadline) || round < len(stressConfigs); round++ {
		cfg := stressConfigs[round%len(stressConfigs)]
		var batcher *batchers.Batcher
		if round%4 == 3 { // the stdin-like reader
			pr, pw := io.Pipe()
			slow := round == 3 // one slow stream: the rate computation of the status line needs >= 0.5 s
			go func() {
				for _, n := range names[:12] {
					if b, err := os.ReadFile(n); err == nil {
						pw.Write(b)
					}
					if slow {
						time.Sleep(60 * time.Millisecond)
					}
				}
				pw.Close()
			}()
			batcher = batchers.OpenReaderToChan("<pipe>", pr, 1+r.Intn(20), 1+r.Intn(4))
		} else {
			ch := make(chan string, len(names))
			perm := r.Perm(len(names))
			for _, i := range perm {
				ch <- names[i]
			}
			close(ch)
			batcher = batchers.OpenFilesToChan(ch, round%5 == 4, 1+r.Intn(4), 1+r.Intn(20), 1+r.Intn(4))
		}
		ecfg := &extractor.Config{
			Matcher: matchers.ToFactory(fastregex.MustCompile(cfg.match)),
			Extract: cfg.extract,
			Workers: 2 + r.Intn(4),
		}
		if len(cfg.ignore) > 0 {
			ig, err := extractor.NewIgnoreExpressions(cfg.ignore...)
			if err != nil {
				return err
			}
			ecfg.Ignore = ig
		}
		ext, err := extractor.New(batcher.BatchChan(), ecfg)
		if err != nil {
			return fmt.Errorf("config %d: %v", round%len(stressConfigs), err)
		}
		counter := aggregation.NewCounter()
		stop := make(chan struct{})
		var wg sync.WaitGroup
		for g := 0; g < 2; g++ {
			wg.Add(1)
			go func() {
				defer wg.Done()
				for {
					select {
					case <-stop:
						return
					default:
					}
					_ = batcher.StatusString()
					_ = batcher.ReadBytes() + uint64(batcher.ReadErrors()+batcher.ActiveFileCount())
					_ = helpers.FWriteExtractorSummary(ext, 0)
				}
			}()
		}
		loopDone := make(chan struct{})
		go func() {
			helpers.RunAggregationLoop(ext, counter, func() {
				_ = counter.Items()
				_ = batcher.StatusString()
				_ = helpers.FWriteExtractorSummary(ext, counter.ParseErrors())
			})
			close(loopDone)
		}()
		select {
		case <-loopDone:
		case <-time.After(time.Duration(*hangS) * time.Second):
			// the input is exhausted (small files on disk) and the loop does not return
			buf := make([]byte, 1<<20)
			buf = buf[:runtime.Stack(buf, true)]
			fmt.Printf("{\"rounds\":%d,\"lines\":%d,\"hang\":%d}\n", rounds, lines, round)
			os.Stderr.WriteString("C05-STRESS-HANG round " + fmt.Sprint(round) + "\n" + string(buf))
			os.Exit(7)
		}
		close(stop)
		wg.Wait()
		logger.ImmediateLogs()
		rounds++
		lines += ext.ReadLines()
	}
	fmt.Printf("{\"rounds\":%d,\"lines\":%d}\n", rounds, lines)
	return nil
}

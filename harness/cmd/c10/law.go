package main

// c10 law : B2 law records for ExprOpt_Trace.  Two files are written, line by line in step:
//   -out  trace.ndjson  {kind, what, f, a, b, pa, pb, v1, v2, lo1, hi1, lo2, hi2}   (what TLC judges)
//   -info info.ndjson   the same records with template, context, history (for messages / classification)
// kinds
//   eq  / opt-noopt      every registered helper x arities x argument shapes (constant, {i}, {key}, constant fall-back,
//                        literal+group, nested constant call, through a funcs-file function) x values, evaluated as a
//                        HISTORY of contexts on one compiled expression: optimised result (a) = unoptimised result (b)
//   eq  / hist-fresh     the same step: result inside the history (a) = result of a freshly compiled expression (b)
//   eq  / call-inline    random funcs files in random layouts, random call sites: call (a) = body with the arguments substituted (b)
//   eq  / conc-seq       W in {2, 8} goroutines on one compiled expression, distinct contexts: concurrent (a) = sequential (b)
//   eq  / cli-opt-noopt, cli-lib   the rare binary: `expression` (a) = `expression --no-optimize` (b) ; CLI (a) = library (b)
//   vol / live|delta|now expressions reading the clock, evaluated twice >= 1.2 s apart: the readings v1, v2 (relative to a
//                        base second) and the windows [lo, hi] measured by the driver around each evaluation
// identical records are written once (field n of the info record counts them).

import (
	"flag"
	"fmt"
	"math/rand"
	"os"
	"path/filepath"
	"sort"
	"strconv"
	"strings"
	"sync"
	"time"

	"rare/pkg/color"
	"rare/pkg/expressions"
	"rare/pkg/expressions/funclib"

	"verifharness/vh"
)

// ---------------------------------------------------------------------------- record writer

type lawWriter struct {
	tr, info *vh.NdWriter
	seen     map[string]int
	counts   []int
	infos    []M
	recs     []M
	perWhat  map[string]int
	perFunc  map[string]int
}

func (w *lawWriter) add(rec M, info M) {
	w.perWhat[rec["what"].(string)]++
	w.perFunc[rec["f"].(string)]++
	key := fmt.Sprint(rec["kind"], rec["what"], rec["f"], rec["a"], rec["b"], rec["pa"], rec["pb"], rec["v1"], rec["v2"], rec["lo1"], rec["hi1"], rec["lo2"], rec["hi2"])
	if i, ok := w.seen[key]; ok {
		w.counts[i]++
		return
	}
	w.seen[key] = len(w.recs)
	w.recs = append(w.recs, rec)
	w.infos = append(w.infos, info)
	w.counts = append(w.counts, 1)
}

func (w *lawWriter) eq(what, f string, a, b outcome, info M) {
	rec := M{"kind": "eq", "what": what, "f": f, "a": vh.BS(a.got), "b": vh.BS(b.got), "pa": a.panic != "", "pb": b.panic != "",
		"v1": 0, "v2": 0, "lo1": 0, "hi1": 0, "lo2": 0, "hi2": 0}
	info["a"], info["b"], info["panic_a"], info["panic_b"], info["what"], info["f"] = a.got, b.got, a.panic, b.panic, what, f
	w.add(rec, info)
}

func (w *lawWriter) flush() {
	for i, r := range w.recs {
		w.tr.Write(r)
		w.infos[i]["n"] = w.counts[i]
		w.info.Write(w.infos[i])
	}
	w.tr.Close()
	w.info.Close()
}

// ---------------------------------------------------------------------------- template text

func needsQuote(s string) bool { return s == "" || strings.ContainsAny(s, " \t") }
func litOK(s string) bool      { return !strings.ContainsAny(s, "\"{}\\\x00#\n") }

// a literal value as a call argument
func argLit(s string) string {
	if strings.Contains(s, "\x00") { // an array constant
		return "{$ " + strings.Join(strings.Split(s, "\x00"), " ") + "}"
	}
	if needsQuote(s) {
		return "\"" + s + "\""
	}
	return s
}

// ---------------------------------------------------------------------------- helper table

type slot struct {
	pool      []string
	constOnly bool // documented as a constant-only position
	dynOnly   bool // the value cannot be written as a literal (JSON text)
	fixed     bool // only ever written as a constant (a loop condition that must stay bounded)
}
type hspec struct {
	slots      []slot
	minA, maxA int
}

func S(pool ...string) slot  { return slot{pool: pool} }
func SC(pool ...string) slot { return slot{pool: pool, constOnly: true} }
func SD(pool ...string) slot { return slot{pool: pool, dynOnly: true} }
func SF(pool ...string) slot { return slot{pool: pool, constOnly: true, fixed: true} }

var (
	pInts   = []string{"0", "1", "7", "-3", "15", "100", "42", "x", ""}
	pPos    = []string{"1", "5", "10", "0"}
	pSmall  = []string{"0", "1", "2", "-1", "3"}
	pNums   = []string{"2.5", "0.5", "-1.25", "10", "0", "1e2", "abc", ""}
	pAny    = []string{"", "a", "abc", "7", "0", " ", "Hello World", "x,y", "-3"}
	pWords  = []string{"abc", "Hello World", "a", "", "abcabc", "b c d"}
	pArr    = []string{"a\x00b\x00c", "1\x002\x003", "", "x", "5\x007"}
	pDates  = []string{"2020-01-01", "01/02/2020 10:00", "2020-01-02T03:04:05Z", "Jan 2, 2020", "14/Apr/2016:19:12:25 +0200", "", "abc"}
	pUnix   = []string{"1577836800", "0", "1600000000", "x", "86400"}
	pPaths  = []string{"/a/b/c.txt", "c.txt", "/", "", "a/b"}
	pSub1   = []string{"{0}x", "{upper {0}}", "{sumi {0} 1}", "{0}{k0}", "{id {0}}", "<{0}>"}
	pPred   = []string{"{0}", "{eq {0} b}", "{gt {0} 1}", "{isint {0}}"}
	pRed    = []string{"{sumi {0} {1}}", "{0}{1}", "{maxi {0} {1}}"}
	pDelims = []string{" ", ",", ", ", "-"}
)

func helperTable(dir string) map[string]hspec {
	lk := filepath.Join(dir, "lookup.txt")
	ld := filepath.Join(dir, "load.txt")
	os.WriteFile(lk, []byte("a\tApple\nabc\tAlphabet\n7\tseven\n"), 0o644)
	os.WriteFile(ld, []byte("loaded text"), 0o644)
	anyv, ints, nums := S(pAny...), S(pInts...), S(pNums...)
	t := map[string]hspec{
		"coalesce": {[]slot{anyv, anyv, anyv}, 1, 3}, "bucket": {[]slot{ints, SC(pPos...)}, 2, 2}, "bucketrange": {[]slot{ints, SC(pPos...)}, 2, 2},
		"clamp": {[]slot{ints, SC("0", "5", "-3"), SC("10", "7")}, 3, 3}, "expbucket": {[]slot{ints}, 1, 1},
		"isint": {[]slot{anyv}, 1, 1}, "isnum": {[]slot{S(pNums...)}, 1, 1},
		"ceil": {[]slot{nums}, 1, 1}, "floor": {[]slot{nums}, 1, 1}, "log10": {[]slot{nums}, 1, 1}, "log2": {[]slot{nums}, 1, 1}, "ln": {[]slot{nums}, 1, 1},
		"sqrt": {[]slot{nums}, 1, 1}, "pow": {[]slot{nums, S(pSmall...)}, 2, 2}, "round": {[]slot{nums, SC("0", "1", "2")}, 1, 2},
		"!":  {[]slot{SC("1+2", "2*3-1", "[0]*2", "x+1", "7"), SC("+1", "*2")}, 1, 2},
		"if": {[]slot{anyv, anyv, anyv}, 2, 3}, "switch": {[]slot{anyv, anyv, anyv, anyv}, 2, 4}, "unless": {[]slot{anyv, anyv}, 2, 2},
		"eq": {[]slot{anyv, anyv}, 2, 2}, "neq": {[]slot{anyv, anyv}, 2, 2}, "not": {[]slot{anyv}, 1, 1},
		"lt": {[]slot{nums, nums}, 2, 2}, "gt": {[]slot{nums, nums}, 2, 2}, "lte": {[]slot{nums, nums}, 2, 2}, "gte": {[]slot{nums, nums}, 2, 2},
		"and": {[]slot{anyv, anyv, anyv}, 1, 3}, "or": {[]slot{anyv, anyv, anyv}, 1, 3},
		"len": {[]slot{anyv}, 1, 1}, "like": {[]slot{S(pWords...), S("b", "abc", "")}, 2, 2}, "prefix": {[]slot{S(pWords...), S("a", "abc", "")}, 2, 2},
		"suffix": {[]slot{S(pWords...), S("c", "abc", "")}, 2, 2}, "format": {[]slot{S("%s-%d", "%5s|", "%v", "plain"), anyv, ints}, 1, 3},
		"substr": {[]slot{S(pWords...), S(pSmall...), S(pSmall...)}, 3, 3}, "select": {[]slot{S(pWords...), S(pSmall...)}, 2, 2},
		"upper": {[]slot{S(pWords...)}, 1, 1}, "lower": {[]slot{S(pWords...)}, 1, 1},
		"tab": {[]slot{anyv, anyv, anyv}, 1, 3}, "$": {[]slot{anyv, anyv, anyv}, 1, 3}, "@": {[]slot{anyv, anyv, anyv}, 1, 3},
		"@len": {[]slot{S(pArr...)}, 1, 1}, "@map": {[]slot{S(pArr...), SC(pSub1...)}, 2, 2}, "@split": {[]slot{S(pWords...), SC(pDelims...)}, 1, 2},
		"@select": {[]slot{S(pArr...), S(pSmall...)}, 2, 2}, "@join": {[]slot{S(pArr...), SC(pDelims...)}, 1, 2},
		"@reduce": {[]slot{S(pArr...), SC(pRed...), SC("0", "", "z")}, 2, 3}, "@filter": {[]slot{S(pArr...), SC(pPred...)}, 2, 2},
		"@slice": {[]slot{S(pArr...), S(pSmall...), S(pSmall...)}, 2, 3}, "@in": {[]slot{S("a", "b", "7", ""), S(pArr...)}, 2, 2},
		"@range":   {[]slot{S("0", "1", "3"), S("3", "5"), S("1", "2")}, 1, 3},
		"@for":     {[]slot{S("0", "1", "a"), SF("{lt {1} 3}", "{lt {1} 1}", "{lt {len {0}} 3}"), SF("{sumi {0} 1}", "{0}x", "{1}")}, 3, 3},
		"basename": {[]slot{S(pPaths...)}, 1, 1}, "dirname": {[]slot{S(pPaths...)}, 1, 1}, "extname": {[]slot{S(pPaths...)}, 1, 1},
		"load": {[]slot{SC(ld, filepath.Join(dir, "missing.txt"))}, 1, 1}, "lookup": {[]slot{S("a", "abc", "7", "zz", ""), SC(lk)}, 2, 2},
		"haskey": {[]slot{S("a", "abc", "7", "zz", ""), SC(lk)}, 2, 2},
		"hi":     {[]slot{S("0", "1234567", "-1234", "x", "12")}, 1, 1}, "hf": {[]slot{S("1234.5678", "0.5", "x", "1000000")}, 1, 1},
		"bytesize": {[]slot{S("1024", "1500000", "0", "x"), SC("0", "2")}, 1, 2}, "bytesizesi": {[]slot{S("1024", "1500000", "0", "x"), SC("0", "2")}, 1, 2},
		"downscale": {[]slot{S("1024", "1500000", "0", "x"), SC("0", "2")}, 1, 2}, "percent": {[]slot{S("0.5", "0.1234", "2", "x"), SC("0", "1")}, 1, 2},
		"json":       {[]slot{SD(`{"a":{"b":5},"c":[1,2],"d":"x y"}`, `[1,2]`, `nope`, ``), S("a.b", "c.0", "c.#", "d", "zz")}, 1, 2},
		"csv":        {[]slot{anyv, anyv, anyv}, 1, 3},
		"time":       {[]slot{S(pDates...), SC("", "cache", "auto", "RFC3339", "2006-01-02"), SC("", "utc", "America/New_York")}, 1, 3},
		"timeformat": {[]slot{S(pUnix...), SC("RFC3339", "DAY", "2006-01", "NGINX"), SC("", "utc", "Europe/Berlin")}, 1, 3},
		"timeattr":   {[]slot{S(pUnix...), SC("weekday", "week", "yearweek", "quarter", "bad"), SC("", "utc")}, 2, 3},
		"buckettime": {[]slot{S(pDates...), SC("day", "hours", "month", "year", "bad"), SC("", "cache", "auto"), SC("", "utc")}, 2, 4},
		"duration":   {[]slot{S("1h30m", "15s", "x", "")}, 1, 1}, "durationformat": {[]slot{S("90", "3600", "x", "0")}, 1, 1},
		"color": {[]slot{SC("red", "blue", "nocolor"), anyv}, 2, 2}, "repeat": {[]slot{SC("a", "-", "ab"), S("0", "3", "5", "x")}, 2, 2},
		"bar": {[]slot{S("1", "5", "10", "x"), S("10", "5"), S("10", "20")}, 3, 3},
	}
	for _, f := range []string{"sumi", "subi", "multi", "divi", "modi", "maxi", "mini"} {
		t[f] = hspec{[]slot{ints, ints, ints}, 2, 3}
	}
	for _, f := range []string{"sumf", "subf", "multf", "divf"} {
		t[f] = hspec{[]slot{nums, nums, nums}, 2, 3}
	}
	return t
}

// helpers whose documented behaviour is to remember something across evaluations (the detected date layout)
var cacheDocumented = map[string]bool{"time": true, "buckettime": true}

// the funcs file used by the law templates (shape "u")
const lawFuncs = "# helpers for the law templates\nid {0}\nsecond {1} # picks its second argument\nwrapk {coalesce {0} \\\n   {k0}}\n"

// ---------------------------------------------------------------------------- one law template

type lawCtx struct {
	m  []string
	ks [][2]string
}

func (c lawCtx) ctx() *expressions.KeyBuilderContextArray { return mkctx(c.m, c.ks) }

type lawTpl struct {
	f      string
	tpl    string
	shapes string
	a, b   lawCtx // the context that supplies the chosen values; the context with the rotated values
}

// build the template of {f v1 .. vn} with shapes[i] in c d k m x n u
func buildLaw(f string, sp hspec, n int, vals, other []string, shapes []byte) (lt lawTpl, ok bool) {
	var sb strings.Builder
	sb.WriteString("{" + f)
	a := lawCtx{m: make([]string, n)}
	b := lawCtx{m: make([]string, n)}
	for i := 0; i < n; i++ {
		v, o := vals[i], other[i]
		sh := shapes[i]
		k := "k" + strconv.Itoa(i)
		a.ks = append(a.ks, [2]string{k, v})
		b.ks = append(b.ks, [2]string{k, o})
		a.m[i], b.m[i] = v, o
		lit := litOK(v) || (strings.Contains(v, "\x00") && litOK(strings.ReplaceAll(v, "\x00", "")) && !strings.Contains(v, " "))
		if (sp.slots[i].dynOnly || !lit) && sh != 'k' {
			sh = 'd'
		}
		if sp.slots[i].fixed && sh != 'n' {
			sh = 'c'
		}
		switch sh {
		case 'c':
			sb.WriteString(" " + argLit(v))
		case 'd':
			sb.WriteString(" {" + strconv.Itoa(i) + "}")
		case 'k':
			sb.WriteString(" {" + k + "}")
		case 'm': // constant fall-back: constant for the optimiser's probe, dynamic otherwise
			sb.WriteString(" {coalesce {" + strconv.Itoa(i) + "} " + argLit(v) + "}")
			a.m[i] = ""
		case 'x': // literal head + group tail
			if len(v) < 2 || strings.Contains(v, "\x00") || needsQuote(v) {
				sb.WriteString(" {" + strconv.Itoa(i) + "}")
			} else {
				sb.WriteString(" " + v[:1] + "{" + strconv.Itoa(i) + "}")
				a.m[i] = v[1:]
				if len(o) > 0 {
					b.m[i] = o[1:]
				}
			}
		case 'e': // a constant written with a needless escape that takes two escape levels to reach the argument's own
			// compilation (`\\\\x` -> `\\x` -> `\x` -> x): the value is the same, but only if that compilation resolves escapes
			p := -1
			for j := 0; j < len(v); j++ {
				if !strings.ContainsRune("ntr", rune(v[j])) && v[j] < 0x80 {
					p = j
					break
				}
			}
			if p < 0 || strings.Contains(v, "\x00") {
				sb.WriteString(" " + argLit(v))
			} else if needsQuote(v) {
				sb.WriteString(" \"" + v[:p] + "\\\\\\\\" + v[p:] + "\"")
			} else {
				sb.WriteString(" " + v[:p] + "\\\\\\\\" + v[p:])
			}
		case 'n': // a constant nested call
			sb.WriteString(" {if 1 " + argLit(v) + "}")
		case 'u': // through a funcs-file function
			sb.WriteString(" {id " + argLit(v) + "}")
		case 'w': // through a funcs-file function, from the context
			sb.WriteString(" {second x {" + strconv.Itoa(i) + "}}")
		default:
			return lt, false
		}
	}
	sb.WriteString("}")
	return lawTpl{f: f, tpl: sb.String(), shapes: string(shapes), a: a, b: b}, true
}

func shapePatterns(sp hspec, n int, rnd *rand.Rand, extra int) [][]byte {
	var out [][]byte
	all := func(c byte) []byte {
		p := make([]byte, n)
		for i := range p {
			p[i] = c
		}
		return p
	}
	out = append(out, all('c'), all('d'), all('k'))
	for i := 0; i < n; i++ {
		for _, sh := range []byte("dmxnuwe") {
			p := all('c')
			p[i] = sh
			out = append(out, p)
		}
		p := all('d')
		p[i] = 'c'
		out = append(out, p)
	}
	for e := 0; e < extra; e++ {
		p := make([]byte, n)
		for i := range p {
			p[i] = "cdkmxnuwe"[rnd.Intn(9)]
		}
		out = append(out, p)
	}
	return out
}

// ---------------------------------------------------------------------------- the law sub-command

func c10Law(argv []string) error {
	fs := flag.NewFlagSet("law", flag.ExitOnError)
	out := fs.String("out", "law-trace.ndjson", "trace for TLC")
	infoP := fs.String("info", "law-info.ndjson", "readable companion")
	dir := fs.String("dir", ".", "scratch directory for files")
	tuples := fs.Int("tuples", 3, "value tuples per helper/arity/shape pattern")
	extra := fs.Int("extra", 3, "random shape patterns per helper/arity")
	nfiles := fs.Int("funcfiles", 40, "random funcs files")
	rounds := fs.Int("rounds", 300, "rounds per goroutine in the concurrent phase")
	cli := fs.String("cli", "", "rare binary")
	clin := fs.Int("clin", 60, "CLI sample size")
	sum := fs.String("summary", "law-summary.json", "summary")
	nprobe := fs.Int("probes", 6, "random processes for the probe law (each runs twice: optimising / plain compiler)")
	fs.Parse(argv)
	startWatchdog(60 * time.Second)
	color.Enabled = true

	tr, err := vh.NewNdWriter(*out)
	if err != nil {
		return err
	}
	inf, err := vh.NewNdWriter(*infoP)
	if err != nil {
		return err
	}
	w := &lawWriter{tr: tr, info: inf, seen: map[string]int{}, perWhat: map[string]int{}, perFunc: map[string]int{}}
	rnd := vh.NewRand(10)

	fpath := filepath.Join(*dir, "law.funcs")
	if err := os.WriteFile(fpath, []byte(lawFuncs), 0o644); err != nil {
		return err
	}
	e := loadEnv("law", fpath)
	if e.loadErr != "" || len(e.names) != 3 {
		return fmt.Errorf("law funcs file did not load: %v %q %q", e.names, e.loadErr, e.panicMsg)
	}

	// ---- phase 1 (volatile, first half): compile and evaluate, the second evaluation comes after the other phases
	vs := volStart(*dir)

	// ---- phase 2: every registered helper
	table := helperTable(*dir)
	var names []string
	for name := range funclib.Builtins {
		names = append(names, name)
	}
	sort.Strings(names)
	generic := hspec{[]slot{S(pAny...), S(pAny...), S(pAny...)}, 1, 3}
	unknown := []string{}
	var cliPool []lawTpl
	templates := 0
	for _, f := range names {
		sp, ok := table[f]
		if !ok {
			sp = generic
			unknown = append(unknown, f)
		}
		for n := sp.minA; n <= sp.maxA; n++ {
			pats := shapePatterns(sp, n, rnd, *extra)
			// one arity beyond the documented ones: the error marker must not depend on optimisation either
			for _, p := range pats {
				for t := 0; t < *tuples; t++ {
					vals, other := make([]string, n), make([]string, n)
					for i := 0; i < n; i++ {
						pool := sp.slots[i].pool
						j := rnd.Intn(len(pool))
						vals[i], other[i] = pool[j], pool[(j+1+rnd.Intn(len(pool)))%len(pool)]
					}
					lt, ok := buildLaw(f, sp, n, vals, other, p)
					if !ok {
						continue
					}
					templates++
					lawHistory(w, e, lt)
					if len(cliPool) < 4000 && rnd.Intn(6) == 0 {
						cliPool = append(cliPool, lt)
					}
				}
			}
		}
		// wrong arity
		for _, n := range []int{sp.maxA + 1} {
			args := ""
			m := []string{}
			for i := 0; i < n; i++ {
				args += " {" + strconv.Itoa(i) + "}"
				m = append(m, "1")
			}
			lawHistory(w, e, lawTpl{f: f, tpl: "{" + f + args + "}", shapes: "arity", a: lawCtx{m: m}, b: lawCtx{m: m}})
		}
	}
	// ---- fixed templates: literal stages around constant and dynamic stages (merging must keep the order), escapes
	for _, tpl := range []string{
		"a{sumi 1 2}b{0}c{sumi 2 2}d{1}e", "{0}{sumi 1 2}{sumi 3 4}{1}{upper x}", "x{if \"\" {0} q}y{if 1 z}w{0}", "{sumi 1 2}{sumi 3 4}",
		"{0}-{1}-{k0}", "\\{0\\}{0}\\t|", "é{0}ü{upper é}", "{id a}{id {0}}{second a b}{second a {1}}", "{wrapk \"\"}|{wrapk {0}}|{wrapk x}",
		"{if {0} {sumi 1 1} {sumi 2 2}}{unless {0} {upper a}}", "{coalesce {0} {coalesce {1} {sumi 1 2}}}", "  lead {0} trail  ",
		"{@map {@split {0} \" \"} \"{id {0}}-{k0}\"}", "{@join {@map {$ a b} {wrapk {0}}} ,}", "{sumi {len {0}} {len abc}}{tab a {0} {lower B}}",
		// escapes: templates without any statement, literal text around statements, arguments (quoted and not) that still carry a
		// backslash when they reach their own compilation, two levels, arguments of funcs-file calls
		"a\\tb", "total:\\n", "\\\\", "x\\{0\\}", "\\\"q\\\"", "a\\.b", "\\t{0}\\n", "{0}\\\\{1}\\{",
		"{@join {@split {0} \" \"} \\\\\\\\n}", "{suffix {0} \\\\\\\\n}{eq {1} \\\\\\\\t}", "{if {0} \"\\\\\\\\tyes\" \"\\\\\\\\tno\"}",
		"{coalesce {1} \"a\\\\\\\\\\\\\\\\b\"}", "{upper \"\\tq\"}", "{upper \\\\\\tq}", "{id \\\\\\\\t}|{second a \"x\\\\\\\\ny\"}",
		"{upper {coalesce {0} \\\\\\\\\\\\\\\\\\\\\\\\\\\\\\\\n}}", "{wrapk \"\\\\\\\\t\"}{wrapk \\\\\\\\\\\\\\\\}", "{eq {0} \"b\\\\\\\\ c\"}",
		"{len \"\\\\\\\\\\{\"}{len \\\\\\\\\\\\\\}}",
	} {
		a := lawCtx{m: []string{"b c", "7"}, ks: [][2]string{{"k0", "K"}}}
		b := lawCtx{m: []string{"", "x"}, ks: [][2]string{{"k0", ""}}}
		lawHistory(w, e, lawTpl{f: "fixed", tpl: tpl, shapes: "fixed", a: a, b: b})
		templates++
	}

	// ---- phase 2b: the probe law (child processes: they run beside the phases below)
	var probeSum M
	w2 := &pendingWriter{}
	probeDone := make(chan bool)
	go func() { probeSum = lawProbe(w2, *dir, *nprobe, *rounds); close(probeDone) }()

	// ---- phase 3: random funcs files, call = inlined body
	calls, badStats := callInline(w, *dir, *nfiles)

	// ---- phase 4: concurrent evaluators
	conc := concurrent(w, e, *rounds)

	// ---- phase 5: CLI
	cliRuns := 0
	if *cli != "" {
		cliRuns = lawCLI(w, *cli, fpath, cliPool, *clin, rnd)
	}

	// ---- phase 1, second half
	volFinish(w, vs)
	<-probeDone
	for i := range w2.pending {
		w.eq(w2.pending[i].what, w2.pending[i].f, w2.pending[i].a, w2.pending[i].b, w2.pending[i].info)
	}

	distinct := len(w.recs)
	w.flush()
	vh.WriteJSON(*sum, M{"helpers": len(names), "helpers_without_table_entry": unknown, "templates": templates, "records": distinct,
		"observations": sumCounts(w.counts), "per_what": w.perWhat, "per_func": w.perFunc, "call_sites": calls, "concurrent": conc, "cli_runs": cliRuns,
		"vol_expressions": len(vs.items), "probe": probeSum, "bad_files": badStats})
	return nil
}

func sumCounts(c []int) int {
	t := 0
	for _, x := range c {
		t += x
	}
	return t
}

// one template: two histories on compiled-once expressions (optimised and plain), each step also freshly compiled
func lawHistory(w *lawWriter, e *env, lt lawTpl) {
	empty := lawCtx{}
	for hi, hist := range [][]lawCtx{{lt.a, empty, lt.b, lt.a}, {lt.b, empty, lt.a}} {
		co := e.compile(lt.tpl, true)
		cn := e.compile(lt.tpl, false)
		for si, c := range hist {
			wdEnter("law " + lt.tpl)
			oo := co.eval(c.ctx())
			on := cn.eval(c.ctx())
			wdLeave()
			info := func() M {
				return M{"template": lt.tpl, "shapes": lt.shapes, "m": c.m, "ks": c.ks, "history": hi, "step": si}
			}
			i1 := info()
			if oo.got != on.got && oo.panic == "" && on.panic == "" {
				// is the difference explained by the optimiser's probe evaluation (all-empty context) alone ?
				cp := e.compile(lt.tpl, false)
				cp.eval(empty.ctx())
				var op outcome
				for k := 0; k <= si; k++ {
					op = cp.eval(hist[k].ctx())
				}
				if op.got == oo.got {
					i1["class"] = "cache-probe"
				}
			}
			w.eq("opt-noopt", lt.f, oo, on, i1)
			if !cacheDocumented[lt.f] {
				of := e.compile(lt.tpl, false).eval(c.ctx())
				w.eq("hist-fresh", lt.f, oo, of, info())
			}
		}
	}
}

// ---------------------------------------------------------------------------- volatile values

type volItem struct {
	kind, where, tpl string
	opt              bool
	c                *compiled
	o1               outcome
}
type volState struct {
	base  int64
	items []*volItem
	e     *env
}

const volFuncs = "stamp {time live}{0}\nel {time delta}\nwrap {stamp {0}}|{el x}\nnw {time now}\n"

func volStart(dir string) *volState {
	p := filepath.Join(dir, "vol.funcs")
	os.WriteFile(p, []byte(volFuncs), 0o644)
	e := loadEnv("vol", p)
	vs := &volState{base: time.Now().Unix() - 1000, e: e}
	for _, t := range [][3]string{
		{"live", "top", "{time live}"}, {"delta", "top", "{time delta}"}, {"now", "top", "{time now}"},
		{"live", "case", "{time LIVE}"}, {"live", "quoted", "{time \"live\"}"}, {"live", "const-arg", "{time {if 1 live}}"},
		{"live", "literals", "x{time live}y"}, {"delta", "literals", "{sumi 1 2}:{time delta}:{sumi 3 4}"},
		{"live", "if", "{if 1 {time live}}"}, {"delta", "coalesce", "{coalesce \"\" {time delta}}"}, {"live", "switch", "{switch \"\" a 1 {time live}}"},
		{"delta", "arith", "{sumi {time delta} 0}"}, {"live", "arith", "{maxi {time live} 0}"}, {"live", "format", "{format %s {time live}}"},
		{"live", "udf-const", "{stamp x}"}, {"live", "udf-dyn", "{stamp {0}}"}, {"live", "udf-nested", "{wrap x}"}, {"delta", "udf", "{el x}"},
		{"now", "udf", "{nw x}"}, {"live", "call-arg", "{coalesce {time live}}"},
		{"live", "map", "{@map \"a\" {time live}}"}, {"delta", "map", "{@map \"a\" \"{time delta}\"}"}, {"live", "map-udf", "{@map \"a\" \"{stamp {0}}\"}"},
		{"live", "filter", "{@filter {$ a b} {time live}}x{time live}"}, {"delta", "reduce", "{@reduce {$ 1 2} {time delta} 0}"},
		{"live", "for", "{@for 0 {lt {1} 2} {time live}}"}, {"live", "udf-in-if", "{if {stamp x} {stamp y}}"},
	} {
		for _, opt := range []bool{true, false} {
			tpl := t[2]
			c := e.compile(tpl, opt)
			it := &volItem{kind: t[0], where: t[1], tpl: tpl, opt: opt, c: c}
			it.o1 = c.eval(mkctx([]string{"g0"}, nil))
			vs.items = append(vs.items, it)
		}
	}
	return vs
}

// first decimal number with at least `min` digits in s, or -1
func firstNumber(s string, min int) int64 {
	for i := 0; i < len(s); i++ {
		if s[i] >= '0' && s[i] <= '9' {
			j := i
			for j < len(s) && s[j] >= '0' && s[j] <= '9' && j-i < 15 {
				j++
			}
			if j-i >= min {
				v, _ := strconv.ParseInt(s[i:j], 10, 64)
				return v
			}
			i = j
		}
	}
	return -1
}

func volFinish(w *lawWriter, vs *volState) {
	if len(vs.items) == 0 {
		return
	}
	// at least 1.2 s after the first evaluation of every item
	last := vs.items[len(vs.items)-1].o1.ea
	for time.Now().UnixNano() < (last+1)*int64(time.Second)+300*int64(time.Millisecond) {
		time.Sleep(50 * time.Millisecond)
	}
	time.Sleep(1200 * time.Millisecond)
	clampI := func(v int64) int64 {
		if v < -900000000 {
			return -900000000
		}
		if v > 900000000 {
			return 900000000
		}
		return v
	}
	for _, it := range vs.items {
		o2 := it.c.eval(mkctx([]string{"g0"}, nil))
		start := it.c.cb
		if vs.e.lb < start {
			start = vs.e.lb
		}
		var v1, v2, lo1, hi1, lo2, hi2 int64
		switch it.kind {
		case "live":
			v1, v2 = firstNumber(it.o1.got, 9)-vs.base, firstNumber(o2.got, 9)-vs.base
			lo1, hi1, lo2, hi2 = it.o1.eb-vs.base, it.o1.ea-vs.base, o2.eb-vs.base, o2.ea-vs.base
		case "now":
			v1, v2 = firstNumber(it.o1.got, 9)-vs.base, firstNumber(o2.got, 9)-vs.base
			lo1, hi1 = start-vs.base, it.c.ca-vs.base
			lo2, hi2 = lo1, hi1
		case "delta":
			d1, d2 := it.o1.got, o2.got
			if it.where == "literals" { // "3:<delta>:7"
				d1, d2 = strings.TrimPrefix(d1, "3:"), strings.TrimPrefix(d2, "3:")
			}
			v1, v2 = firstNumber(d1, 1), firstNumber(d2, 1)
			lo1, hi1, lo2, hi2 = it.o1.eb-it.c.ca, it.o1.ea-start, o2.eb-it.c.ca, o2.ea-start
		}
		rec := M{"kind": "vol", "what": it.kind, "f": it.where, "a": []int{}, "b": []int{}, "pa": it.o1.panic != "", "pb": o2.panic != "",
			"v1": clampI(v1), "v2": clampI(v2), "lo1": clampI(lo1), "hi1": clampI(hi1), "lo2": clampI(lo2), "hi2": clampI(hi2)}
		w.add(rec, M{"what": it.kind, "f": it.where, "template": it.tpl, "opt": it.opt, "first": it.o1.got, "second": o2.got,
			"panic_a": it.o1.panic, "panic_b": o2.panic, "cerr": it.c.cerr})
	}
}

// ---------------------------------------------------------------------------- random funcs files: call = inlined body

type tnode struct {
	kind byte // 'l' literal, 'g' group, 'k' key, 'c' call
	s    string
	n    int
	args []ttpl
}
type ttpl []*tnode

func tl(s string) ttpl            { return ttpl{{kind: 'l', s: s}} }
func traw(s string) ttpl          { return ttpl{{kind: 'e', s: s}} } // escape text, only ever at the top level of a body
func tg(n int) ttpl               { return ttpl{{kind: 'g', n: n}} }
func tk(s string) ttpl            { return ttpl{{kind: 'k', s: s}} }
func tc(f string, a ...ttpl) ttpl { return ttpl{{kind: 'c', s: f, args: a}} }
func tcat(parts ...ttpl) (r ttpl) {
	for _, p := range parts {
		r = append(r, p...)
	}
	return
}

func (t ttpl) print(top bool) string {
	var sb strings.Builder
	quote := false
	for _, nd := range t {
		switch nd.kind {
		case 'l':
			sb.WriteString(nd.s)
			if needsQuote(nd.s) {
				quote = true
			}
		case 'e':
			sb.WriteString(nd.s)
		case 'g':
			sb.WriteString("{" + strconv.Itoa(nd.n) + "}")
		case 'k':
			sb.WriteString("{" + nd.s + "}")
		case 'c':
			sb.WriteString("{" + nd.s)
			for _, a := range nd.args {
				sb.WriteString(" " + a.print(false))
			}
			sb.WriteString("}")
		}
	}
	s := sb.String()
	if !top && (quote || len(t) == 0) {
		return "\"" + s + "\""
	}
	return s
}

// the body with {i} replaced by the i-th argument (missing: empty)
func (t ttpl) subst(args []ttpl) (r ttpl) {
	for _, nd := range t {
		switch nd.kind {
		case 'g':
			if nd.n < len(args) {
				r = append(r, args[nd.n]...)
			}
		case 'c':
			c := &tnode{kind: 'c', s: nd.s}
			for _, a := range nd.args {
				c.args = append(c.args, a.subst(args))
			}
			r = append(r, c)
		default:
			r = append(r, nd)
		}
	}
	return
}

// a literal with a blank may only stand alone (top level or a whole argument): see print
func (t ttpl) printable(top bool) bool {
	for _, nd := range t {
		if nd.kind == 'l' && needsQuote(nd.s) && !top && len(t) > 1 {
			return false
		}
		if nd.kind == 'c' {
			for _, a := range nd.args {
				if !a.printable(false) {
					return false
				}
			}
		}
	}
	return true
}

type fdef struct {
	name  string
	body  ttpl
	nargs int
}

func randAtom(r *rand.Rand, nargs int, dyn bool) ttpl {
	switch r.Intn(7) {
	case 0:
		return tl([]string{"a", "7", "12", "abc", "-3", "z"}[r.Intn(6)])
	case 1:
		if dyn {
			return tk([]string{"key", "other"}[r.Intn(2)])
		}
		return tl("5")
	case 2:
		return tl([]string{"", "x y", "b"}[r.Intn(3)])
	default:
		return tg(r.Intn(nargs + 1)) // sometimes one beyond the arguments that will be passed
	}
}

func randExpr(r *rand.Rand, depth, nargs int, earlier []fdef) ttpl {
	if depth == 0 || r.Intn(4) == 0 {
		return randAtom(r, nargs, true)
	}
	sub := func() ttpl { return randExpr(r, depth-1, nargs, earlier) }
	switch r.Intn(12) {
	case 0:
		return tc("sumi", sub(), sub())
	case 1:
		return tc("upper", sub())
	case 2:
		return tc("if", sub(), sub(), sub())
	case 3:
		return tc("coalesce", sub(), sub())
	case 4:
		return tc("eq", sub(), sub())
	case 5:
		return tc("len", sub())
	case 6:
		return tc("tab", sub(), sub())
	case 7:
		return tc("switch", sub(), sub(), sub())
	case 8, 9:
		if len(earlier) > 0 {
			d := earlier[r.Intn(len(earlier))]
			n := r.Intn(4)
			var a []ttpl
			for i := 0; i < n || i < 1; i++ {
				a = append(a, sub())
			}
			return tc(d.name, a...)
		}
		return tc("lower", sub())
	case 10:
		return tc("multi", sub(), tl("2"))
	default:
		return tcat(randAtom(r, nargs, true), tl("-"), sub())
	}
}

// write the definitions in a random layout (comments, blank lines, continuation lines, `\ # comment`)
func randLayout(r *rand.Rand, defs []fdef) string {
	var sb strings.Builder
	junk := func() {
		switch r.Intn(5) {
		case 0:
			sb.WriteString("\n")
		case 1:
			sb.WriteString("# a comment {0} \\\n")
		case 2:
			sb.WriteString("   \t\n")
		}
	}
	for di, d := range defs {
		junk()
		phrase := d.name + " " + d.body.print(true)
		// cut points: after a blank that is not followed by a blank
		pieces := []string{}
		cur := ""
		for i := 0; i < len(phrase); i++ {
			cur += phrase[i : i+1]
			if phrase[i] == ' ' && i+1 < len(phrase) && phrase[i+1] != ' ' && r.Intn(3) == 0 {
				pieces = append(pieces, cur)
				cur = ""
			} else if phrase[i] == '\\' && i+1 < len(phrase) && phrase[i+1] != ' ' && r.Intn(2) == 0 {
				// a line break after a backslash of the body: the physical line ends in 2, 3, .. backslashes
				pieces = append(pieces, cur)
				cur = ""
			} else if phrase[i] != ' ' && i+1 < len(phrase) && phrase[i+1] != ' ' && r.Intn(25) == 0 {
				pieces = append(pieces, cur)
				cur = ""
			}
		}
		pieces = append(pieces, cur)
		for pi, p := range pieces {
			sb.WriteString([]string{"", "  ", "\t", ""}[r.Intn(4)])
			sb.WriteString(p)
			if pi < len(pieces)-1 {
				sb.WriteString([]string{"\\", "\\  ", "\\ # else", "\\\t#x\\", "\\#y"}[r.Intn(5)] + "\n")
				if r.Intn(3) == 0 {
					junk()
				}
			} else if di == len(defs)-1 && r.Intn(3) == 0 {
				sb.WriteString("\\") // EOF inside a continuation
			} else {
				sb.WriteString([]string{"", " # trailing", "  ", "\t# c \\"}[r.Intn(4)] + "\n")
			}
		}
	}
	return sb.String()
}

// definitions that do not compile (the loader reports them and goes on; the others must be delivered and work)
func randBadDef(r *rand.Rand, k int, failed []string) fdef {
	bodies := []string{"{summi {0} 1}", "{sumi {0} 1", "x{}y", "{nosuchfn {0} a}", "{sumi 1}", "{substr a}", "pre {upperr {0}} post", "{if {0} {eq {0}", "{coalesce {0} {nofn {1} 2}}"}
	body := bodies[r.Intn(len(bodies))]
	if len(failed) > 0 && r.Intn(3) == 0 { // a call of a definition that itself failed
		body = "{" + failed[r.Intn(len(failed))] + " {0} 1}"
	}
	return fdef{name: fmt.Sprintf("bad%d", k), body: traw(body), nargs: 1}
}

func callInline(w *lawWriter, dir string, nfiles int) (int, M) {
	r := vh.NewRand(20)
	calls := 0
	badFiles, badDefs, badCalls := 0, 0, 0
	for fi := 0; fi < nfiles; fi++ {
		var defs []fdef
		nd := 3 + r.Intn(4)
		for i := 0; i < nd; i++ {
			na := 1 + r.Intn(3)
			var body ttpl
			for tries := 0; tries < 50; tries++ {
				body = randExpr(r, 1+r.Intn(3), na, defs)
				if r.Intn(3) == 0 {
					body = tcat(tl([]string{"pre ", "<", "v="}[r.Intn(3)]), body, tl([]string{" post", ">", ""}[r.Intn(3)]))
				}
				if r.Intn(3) == 0 { // escapes in the literal text of the body (top level): \t \n \\ \{ \} \" and a needless one
					esc := func() ttpl { return traw([]string{"\\t", "\\n", "\\\\", "\\{", "\\}", "\\\"", "\\.", "\\\\\\t", "\\\\\\\\"}[r.Intn(9)]) }
					body = tcat(tg(r.Intn(na)), esc(), body, esc(), tg(r.Intn(na)))
				}
				s := body.print(true)
				if body.printable(true) && s != "" && s[0] != ' ' && s[len(s)-1] != ' ' && s[len(s)-1] != '\\' && !strings.Contains(s, "  ") {
					break
				}
				body = tl("fallback")
			}
			// the body must compile (a definition with a compile error is documented to be refused): checked on the
			// canonical one-line-per-definition form of the definitions so far
			cand := fdef{name: fmt.Sprintf("f%d", i), body: body, nargs: na}
			canon := ""
			for _, d := range append(append([]fdef{}, defs...), cand) {
				canon += d.name + " " + d.body.print(true) + "\n"
			}
			cp := filepath.Join(dir, "rand-canon.funcs")
			os.WriteFile(cp, []byte(canon), 0o644)
			if ce := loadEnv("canon", cp); ce.loadErr != "" || ce.panicMsg != "" || len(ce.names) != len(defs)+1 {
				cand.body = tcat(tl("v"), tg(0))
			}
			defs = append(defs, cand)
		}
		// every second file also holds one to three definitions that do not compile, anywhere between the others
		fileDefs := append([]fdef{}, defs...)
		hasBad := fi%2 == 1
		if hasBad {
			badFiles++
			var failed []string
			for k := 0; k < 1+r.Intn(3); k++ {
				bd := randBadDef(r, k, failed)
				failed = append(failed, bd.name)
				at := r.Intn(len(fileDefs) + 1)
				if k == 0 && r.Intn(3) == 0 {
					at = 0
				}
				fileDefs = append(fileDefs[:at], append([]fdef{bd}, fileDefs[at:]...)...)
				badDefs++
			}
		}
		text := randLayout(r, fileDefs)
		p := filepath.Join(dir, fmt.Sprintf("rand-%d.funcs", fi))
		os.WriteFile(p, []byte(text), 0o644)
		e := loadEnv(fmt.Sprintf("rand-%d", fi), p)
		loadedAll := (e.loadErr == "" || hasBad) && e.panicMsg == "" && len(e.names) == len(defs)
		// the loader must have registered every definition: recorded as a law record too (a = names loaded, b = names written)
		var want []string
		for _, d := range defs {
			want = append(want, d.name)
		}
		sort.Strings(want)
		w.eq("load-names", "loader", outcome{got: strings.Join(e.names, ","), panic: e.panicMsg}, outcome{got: strings.Join(want, ",")},
			M{"file": text, "load_error": e.loadErr})
		if !loadedAll {
			continue
		}
		for ci := 0; ci < 24; ci++ {
			d := defs[r.Intn(len(defs))]
			n := r.Intn(5)
			if n == 0 {
				n = 1
			}
			var args []ttpl
			for i := 0; i < n; i++ {
				var a ttpl
				switch r.Intn(6) {
				case 0, 1:
					a = tg(r.Intn(3))
				case 2:
					a = tk("key")
				case 3:
					a = randExpr(r, 2, 2, defs)
				case 4:
					a = tcat(tl("p"), tg(r.Intn(2)))
				default:
					a = randAtom(r, 2, false)
				}
				args = append(args, a)
			}
			call := tc(d.name, args...)
			inl := d.body.subst(args)
			if !call.printable(true) || !inl.printable(true) {
				continue
			}
			ctpl, itpl := call.print(true), inl.print(true)
			calls++
			if hasBad {
				badCalls++
			}
			for _, opt := range []bool{true, false} {
				cc, ic := e.compile(ctpl, opt), e.compile(itpl, opt)
				for _, c := range []lawCtx{
					{m: []string{"7", "abc", "x y"}, ks: [][2]string{{"key", "K"}, {"other", "3"}}},
					{},
					{m: []string{"", "12"}, ks: [][2]string{{"key", ""}, {"other", "o"}}},
					{m: []string{"-3", "", "5"}, ks: [][2]string{{"key", "9"}}},
				} {
					wdEnter("call " + ctpl)
					a, b := cc.eval(c.ctx()), ic.eval(c.ctx())
					wdLeave()
					w.eq("call-inline", "call", a, b, M{"template": ctpl, "inlined": itpl, "definition": d.name + " " + d.body.print(true), "m": c.m, "ks": c.ks,
						"opt": opt, "file": text})
				}
			}
		}
	}
	return calls, M{"files_with_failing_definitions": badFiles, "failing_definitions": badDefs, "call_sites_in_such_files": badCalls}
}

// ---------------------------------------------------------------------------- concurrent evaluators

func concurrent(w *lawWriter, e *env, rounds int) M {
	return concurrentFull(w, e, []string{
		"{id {0}}|{second {1} {0}}|{wrapk {2}}", "{wrapk \"\"}{wrapk {0}}", "{id {second {0} {id {1}}}}-{k0}",
		"{@map {@split {0} \" \"} \"{id {0}}{k0}\"}", "{@join {@map {$ {0} {1}} {wrapk {0}}} ,}", "{sumi {id {1}} {second a {1}}}",
		"{! [1] * 2 + 1}", "{if {id {2}} {id {0}} {second x {1}}}", "{@reduce {@split {0} \" \"} {id {0}}{second {0} {1}} \"\"}",
		"{@filter {@split {0} \" \"} {eq {id {0}} {k0}}}", "{timeformat {id {1}} DAY}{time {id 2020-01-01}}",
	}, rounds)
}

// every goroutine keeps all its results; afterwards the same contexts are evaluated sequentially on a fresh compile
func concurrentFull(w *lawWriter, e *env, tpls []string, rounds int) M {
	total, maxW := 0, 0
	for _, tpl := range tpls {
		for _, opt := range []bool{true, false} {
			for _, W := range []int{2, 8} {
				c := e.compile(tpl, opt)
				mk := func(g, r int) lawCtx {
					return lawCtx{m: []string{fmt.Sprintf("g%d r%d", g, r), strconv.Itoa(g*100000 + r), []string{"", "t"}[(g+r)%2]},
						ks: [][2]string{{"k0", fmt.Sprintf("g%d", g)}}}
				}
				got := make([][]outcome, W)
				var wg sync.WaitGroup
				start := make(chan bool)
				for g := 0; g < W; g++ {
					got[g] = make([]outcome, rounds)
					wg.Add(1)
					go func(g int) {
						defer wg.Done()
						<-start
						for r := 0; r < rounds; r++ {
							got[g][r] = c.eval(mk(g, r).ctx())
						}
					}(g)
				}
				close(start)
				wg.Wait()
				ref := e.compile(tpl, opt)
				for g := 0; g < W; g++ {
					dev := -1
					var seq outcome
					for r := 0; r < rounds; r++ {
						s := ref.eval(mk(g, r).ctx())
						if dev < 0 && (s.got != got[g][r].got || (s.panic != "") != (got[g][r].panic != "")) {
							dev = r
							seq = s
						}
						if r == rounds-1 && dev < 0 {
							seq = s
						}
					}
					r := rounds - 1
					if dev >= 0 {
						r = dev
					}
					lc := mk(g, r)
					w.eq("conc-seq", "W"+strconv.Itoa(W), got[g][r], seq, M{"template": tpl, "opt": opt, "goroutines": W, "goroutine": g, "round": r, "m": lc.m, "ks": lc.ks,
						"rounds": rounds})
				}
				total += W * rounds
				if W > maxW {
					maxW = W
				}
			}
		}
	}
	return M{"evaluations": total, "goroutines": maxW, "expressions": len(tpls) * 2}
}

// ---------------------------------------------------------------------------- CLI

func lawCLI(w *lawWriter, bin, funcs string, pool []lawTpl, n int, rnd *rand.Rand) int {
	var jobs []lawTpl
	for _, i := range rnd.Perm(len(pool)) {
		lt := pool[i]
		if cliUsable(lt.tpl, lt.a.m, lt.a.ks) && !strings.ContainsAny(strings.Join(lt.a.m, ""), "\x00\n") && litOK(strings.Join(lt.a.m, "")) {
			jobs = append(jobs, lt)
		}
		if len(jobs) >= n {
			break
		}
	}
	type res struct {
		a, b   string
		ea, eb error
	}
	out := make([]res, len(jobs))
	var wg sync.WaitGroup
	sem := make(chan bool, 6)
	for i, lt := range jobs {
		wg.Add(1)
		sem <- true
		go func(i int, lt lawTpl) {
			defer wg.Done()
			defer func() { <-sem }()
			out[i].a, out[i].ea = runCLI(bin, funcs, false, lt.a.m, lt.a.ks, lt.tpl)
			out[i].b, out[i].eb = runCLI(bin, funcs, true, lt.a.m, lt.a.ks, lt.tpl)
		}(i, lt)
	}
	wg.Wait()
	e := loadEnv("law-cli", funcs)
	color.Enabled = false
	for i, lt := range jobs {
		r := out[i]
		pa, pb := "", ""
		if r.ea != nil {
			pa = r.ea.Error()
		}
		if r.eb != nil {
			pb = r.eb.Error()
		}
		info := func() M {
			return M{"template": lt.tpl, "m": lt.a.m, "ks": lt.a.ks, "shapes": lt.shapes, "helper": lt.f}
		}
		w.eq("cli-opt-noopt", lt.f, outcome{got: r.a, panic: pa}, outcome{got: r.b, panic: pb}, info())
		if r.ea == nil && !cacheDocumented[lt.f] {
			c := e.compile(lt.tpl, true)
			if c.cerr == "" {
				// the command adds the special keys src, line, ., #, .#, @ to the context: not used by these templates
				lib := c.eval(mkctx(lt.a.m, lt.a.ks))
				w.eq("cli-lib", lt.f, outcome{got: r.a}, lib, info())
			}
		}
	}
	color.Enabled = true
	return 2 * len(jobs)
}
